//! Client-side expansions of the crate's exported macros, analysed by bumpscan/TermFlow (C13.R10, C14.R8).
//! One function per macro arm; the arguments are opaque parameters so the expansion is the only code.
#![allow(unused)]
use bumpalo::collections::{String, Vec};
use bumpalo::Bump;

pub fn vec_elem<'b, T: Clone>(b: &'b Bump, e: T, n: usize) -> Vec<'b, T> {
    bumpalo::vec![in b; e; n]
}

pub fn vec_empty<'b, T>(b: &'b Bump) -> Vec<'b, T> {
    bumpalo::vec![in b]
}

pub fn vec_list<'b, T>(b: &'b Bump, x: T, y: T, z: T) -> Vec<'b, T> {
    bumpalo::vec![in b; x, y, z]
}

pub fn vec_list_trailing<'b, T>(b: &'b Bump, x: T, y: T) -> Vec<'b, T> {
    bumpalo::vec![in b; x, y,]
}

pub fn format_two<'b>(b: &'b Bump, x: u32, y: &str) -> String<'b> {
    bumpalo::format!(in b, "{}-{}", x, y)
}

pub fn format_trailing<'b>(b: &'b Bump, x: u32) -> String<'b> {
    bumpalo::format!(in b, "<{}>", x,)
}
