"""Witness matrix for C05 (and the thread cases of C20): probe programs generated from a small table.

Every misuse probe is paired with a compiling twin that differs only in where the offending
statement stands.  `expect` is the rustc error code the misuse must be rejected with."""

HEADER = """#![allow(unused, dropping_references, dropping_copy_types)]
use bumpalo::Bump;
use bumpalo::collections::{Vec as BVec, String as BString};
use bumpalo::boxed::Box as BBox;
"""

# name -> (prelude statements (after `bump` exists), expression producing the value, use statement)
MAKERS = {
    'alloc':            ('', 'bump.alloc(5u32)', 'let _ = *r;'),
    'alloc_with':       ('', 'bump.alloc_with(|| 5u32)', 'let _ = *r;'),
    'alloc_slice_copy': ('', 'bump.alloc_slice_copy(&[1u8, 2, 3])', 'let _ = r.len();'),
    'alloc_slice_fill_with': ('', 'bump.alloc_slice_fill_with(3, |i| i as u32)', 'let _ = r.len();'),
    'alloc_str':        ('', 'bump.alloc_str("hi")', 'let _ = r.len();'),
    'try_alloc':        ('', 'bump.try_alloc(5u32).unwrap()', 'let _ = *r;'),
    'alloc_try_with':   ('', 'bump.alloc_try_with(|| Ok::<u32, ()>(5)).unwrap()', 'let _ = *r;'),
    'Vec':              ('', '{ let mut v = BVec::new_in(&bump); v.push(1u32); v }', 'let _ = r.len();'),
    'vec_macro':        ('', 'bumpalo::vec![in &bump; 1u32, 2, 3]', 'let _ = r.len();'),
    'String':           ('', "{ let mut s = BString::new_in(&bump); s.push('a'); s }", 'let _ = r.len();'),
    'format_macro':     ('', 'bumpalo::format!(in &bump, "{}", 7)', 'let _ = r.len();'),
    'Box':              ('', 'BBox::new_in(7u32, &bump)', 'let _ = *r;'),
    'Box::leak':        ('', 'BBox::leak(BBox::new_in(7u32, &bump))', 'let _ = *r;'),
    'Box::pin_in':      ('', 'BBox::pin_in(7u32, &bump)', 'let _ = *r;'),
    'into_bump_slice':  ('', '{ let mut v = BVec::new_in(&bump); v.push(1u32); v.into_bump_slice() }', 'let _ = r.len();'),
    'into_bump_slice_mut': ('', '{ let mut v = BVec::new_in(&bump); v.push(1u32); v.into_bump_slice_mut() }', 'let _ = r.len();'),
    'into_boxed_slice': ('', '{ let mut v = BVec::new_in(&bump); v.push(1u32); v.into_boxed_slice() }', 'let _ = r.len();'),
    'into_bump_str':    ('', 'BString::from_str_in("abc", &bump).into_bump_str()', 'let _ = r.len();'),
    'vec::IntoIter':    ('', '{ let mut v = BVec::new_in(&bump); v.push(1u32); v.into_iter() }', 'let mut r = r; let _ = r.next();'),
    'vec::Drain':       ('let mut v = BVec::new_in(&bump); v.push(1u32); v.push(2);', 'v.drain(..)', 'let mut r = r; let _ = r.next();'),
    'vec::Splice':      ('let mut v = BVec::new_in(&bump); v.push(1u32); v.push(2);', 'v.splice(0..1, [7u32, 8])', 'let mut r = r; let _ = r.next();'),
    'vec::DrainFilter': ('let mut v = BVec::new_in(&bump); v.push(1u32); v.push(2);', 'v.drain_filter(|x| *x > 1)', 'let mut r = r; let _ = r.next();'),
    'string::Drain':    ('let mut s = BString::from_str_in("abc", &bump);', 's.drain(..)', 'let mut r = r; let _ = r.next();'),
    'FromUtf8Error':    ('', 'BString::from_utf8(bumpalo::vec![in &bump; 0xffu8]).unwrap_err()', 'let _ = r.as_bytes().len();'),
    'ChunkRawIter':     ('', 'unsafe { bump.iter_allocated_chunks_raw() }', 'let mut r = r; let _ = r.next();'),
}

# which makers are in the quick tier (one per public lifetime-carrying type + the three reference families)
QUICK = ['alloc', 'alloc_slice_copy', 'alloc_str', 'Vec', 'String', 'Box', 'Box::leak', 'vec::IntoIter', 'vec::Drain', 'vec::Splice', 'vec::DrainFilter', 'string::Drain',
         'FromUtf8Error', 'ChunkRawIter', 'into_bump_slice', 'into_bump_str']


def fn(body):
    return HEADER + 'pub fn probe() {\n' + body + '\n}\n'


def outlive(m):
    pre, expr, use = MAKERS[m]
    bad = fn('    let r;\n    {\n        let bump = Bump::new();\n        %s\n        r = %s;\n    }\n    %s' % (pre, expr, use))
    twin = fn('    {\n        let bump = Bump::new();\n        %s\n        let r = %s;\n        %s\n    }' % (pre, expr, use))
    return bad, twin, ['E0597']


def after_reset(m):
    pre, expr, use = MAKERS[m]
    bad = fn('    let mut bump = Bump::new();\n    %s\n    let r = %s;\n    bump.reset();\n    %s' % (pre, expr, use))
    twin = fn('    let mut bump = Bump::new();\n    {\n    %s\n    let r = %s;\n    %s\n    }\n    bump.reset();' % (pre, expr, use))
    return bad, twin, ['E0502']


def move_away(m):
    pre, expr, use = MAKERS[m]
    bad = fn('    let bump = Bump::new();\n    %s\n    let r = %s;\n    let moved = bump;\n    %s\n    drop(moved);' % (pre, expr, use))
    twin = fn('    let bump = Bump::new();\n    {\n    %s\n    let r = %s;\n    %s\n    }\n    let moved = bump;\n    drop(moved);' % (pre, expr, use))
    return bad, twin, ['E0505']


def during_iteration(m):
    pre, expr, use = MAKERS[m]
    bad = fn('    let mut bump = Bump::new();\n    %s\n    let r = %s;\n    for c in bump.iter_allocated_chunks() { let _ = c.len(); }\n    %s' % (pre, expr, use))
    twin = fn('    let mut bump = Bump::new();\n    {\n    %s\n    let r = %s;\n    %s\n    }\n    for c in bump.iter_allocated_chunks() { let _ = c.len(); }' % (pre, expr, use))
    return bad, twin, ['E0502']


FIXED = {
    # name: (bad, twin, codes)
    'alloc-during-iteration': (
        fn('    let mut bump = Bump::new();\n    bump.alloc(1u8);\n    let it = bump.iter_allocated_chunks();\n    bump.alloc(2u8);\n    for c in it { let _ = c.len(); }'),
        fn('    let mut bump = Bump::new();\n    bump.alloc(1u8);\n    let it = bump.iter_allocated_chunks();\n    for c in it { let _ = c.len(); }\n    bump.alloc(2u8);'),
        ['E0502']),
    'reset-during-iteration': (
        fn('    let mut bump = Bump::new();\n    bump.alloc(1u8);\n    let it = bump.iter_allocated_chunks();\n    bump.reset();\n    for c in it { let _ = c.len(); }'),
        fn('    let mut bump = Bump::new();\n    bump.alloc(1u8);\n    let it = bump.iter_allocated_chunks();\n    for c in it { let _ = c.len(); }\n    bump.reset();'),
        ['E0499']),
    'chunk-slices-outlive-iteration-borrow': (
        fn('    let mut bump = Bump::new();\n    bump.alloc(1u8);\n    let first = bump.iter_allocated_chunks().next().unwrap();\n    bump.alloc(2u8);\n    let _ = first.len();'),
        fn('    let mut bump = Bump::new();\n    bump.alloc(1u8);\n    let first = bump.iter_allocated_chunks().next().unwrap();\n    let _ = first.len();\n    bump.alloc(2u8);'),
        ['E0502']),
    'share-arena-with-scoped-thread': (
        fn('    let bump = Bump::new();\n    std::thread::scope(|s| {\n        s.spawn(|| { bump.alloc(1u32); });\n    });'),
        fn('    let bump = Bump::new();\n    std::thread::scope(|s| {\n        s.spawn(|| { let _ = 1u32; });\n    });\n    bump.alloc(1u32);'),
        ['E0277']),
    'send-vec-to-thread': (
        fn('    let bump = Bump::new();\n    let mut v = BVec::new_in(&bump); v.push(1u32);\n    std::thread::scope(|s| {\n        s.spawn(move || { drop(v); });\n    });'),
        fn('    let bump = Bump::new();\n    let mut v = BVec::new_in(&bump); v.push(1u32);\n    std::thread::scope(|s| {\n        s.spawn(move || { let _ = 1u32; });\n    });\n    drop(v);'),
        ['E0277']),
    'send-string-to-thread': (
        fn("    let bump = Bump::new();\n    let mut v = BString::new_in(&bump); v.push('a');\n    std::thread::scope(|s| {\n        s.spawn(move || { drop(v); });\n    });"),
        fn("    let bump = Bump::new();\n    let mut v = BString::new_in(&bump); v.push('a');\n    std::thread::scope(|s| {\n        s.spawn(move || { let _ = 1u32; });\n    });\n    drop(v);"),
        ['E0277']),
    'send-splice-to-thread': (
        fn('    let bump = Bump::new();\n    let mut v = BVec::new_in(&bump); v.push(1u32); v.push(2);\n    let sp = v.splice(0..1, std::vec![7u32; 100]);\n    std::thread::scope(|s| {\n        s.spawn(move || { drop(sp); });\n        bump.alloc(1u32);\n    });'),
        fn('    let bump = Bump::new();\n    let mut v = BVec::new_in(&bump); v.push(1u32); v.push(2);\n    let sp = v.splice(0..1, std::vec![7u32; 100]);\n    std::thread::scope(|s| {\n        s.spawn(move || { let _ = 1u32; });\n        bump.alloc(1u32);\n    });\n    drop(sp);'),
        ['E0277']),
    'send-drain-filter-to-thread': (
        fn('    let bump = Bump::new();\n    let mut v = BVec::new_in(&bump); v.push(1u32); v.push(2);\n    let d = v.drain_filter(|x| *x > 1);\n    std::thread::scope(|s| {\n        s.spawn(move || { drop(d); });\n    });'),
        fn('    let bump = Bump::new();\n    let mut v = BVec::new_in(&bump); v.push(1u32); v.push(2);\n    let d = v.drain_filter(|x| *x > 1);\n    std::thread::scope(|s| {\n        s.spawn(move || { let _ = 1u32; });\n    });\n    drop(d);'),
        ['E0277']),
    'send-ref-to-arena-static-thread': (
        fn('    let bump = Bump::new();\n    let h = std::thread::spawn(move || { let _ = 1u32; });\n    let r = &bump;\n    let h2 = std::thread::spawn(move || { r.alloc(1u32); });'),
        fn('    let bump = Bump::new();\n    let h = std::thread::spawn(move || { let _ = 1u32; });\n    let r = &bump;\n    r.alloc(1u32);'),
        ['E0277', 'E0597']),
}


def trait_probe(ty, trait, ok):
    src = HEADER + 'fn need<T: %s>() {}\npub fn probe() { need::<%s>(); }\n' % (trait, ty)
    return src


TRAIT_NEG = [('Bump', 'Sync'), ('Bump<8>', 'Sync'), ('&Bump', 'Send'), ("BVec<'static, u32>", 'Send'), ("BString<'static>", 'Send'), ("BVec<'static, u32>", 'Sync'),
             ("bumpalo::collections::vec::Splice<'static, 'static, std::vec::IntoIter<u32>>", 'Send'),
             ("bumpalo::collections::vec::DrainFilter<'static, 'static, u32, fn(&mut u32) -> bool>", 'Send'),
             ("bumpalo::ChunkIter<'static>", 'Send'), ("bumpalo::ChunkRawIter<'static>", 'Send'),
             ("bumpalo::collections::string::FromUtf8Error<'static>", 'Send')]
TRAIT_POS = [('Bump', 'Send'), ('Bump<2>', 'Send'), ('Bump<8>', 'Send'), ('Bump<16>', 'Send'), ("BBox<'static, u32>", 'Send'), ("&'static mut u32", 'Send')]

POSITIVE = {
    'many-allocations-alive': fn('    let bump = Bump::new();\n    let a = bump.alloc(1u32);\n    let b = bump.alloc(2u32);\n    let s = bump.alloc_str("x");\n    let mut v = BVec::new_in(&bump); v.push(3u32);\n    let bx = BBox::new_in(4u32, &bump);\n    *a += *b + v[0] + *bx + s.len() as u32;'),
    'move-idle-arena-to-thread': fn('    let bump = Bump::new();\n    { let x = bump.alloc(1u32); *x += 1; }\n    let h = std::thread::spawn(move || { let y = bump.alloc(2u32); *y });\n    let _ = h.join();'),
    'move-idle-min-align-arena-to-thread': fn('    let bump: Bump<8> = Bump::with_min_align();\n    { let x = bump.alloc(1u32); *x += 1; }\n    let h = std::thread::spawn(move || { let mut bump = bump; bump.reset(); let y = bump.alloc(2u32); *y });\n    let _ = h.join();'),
    'result-outlives-copied-source': fn('    let bump = Bump::new();\n    let r;\n    let r2;\n    {\n        let s = std::string::String::from("hello");\n        let a = [1u8, 2, 3];\n        r = bump.alloc_str(&s);\n        r2 = bump.alloc_slice_copy(&a);\n    }\n    let _ = r.len() + r2.len();'),
    'box-of-send-value-to-scoped-thread': fn('    let bump = Bump::new();\n    let b = BBox::new_in(5u32, &bump);\n    std::thread::scope(|s| { s.spawn(move || { let _ = *b; }); });'),
    'reference-to-scoped-thread': fn('    let bump = Bump::new();\n    let r = bump.alloc(5u32);\n    std::thread::scope(|s| { s.spawn(move || { *r += 1; }); });'),
    'reset-then-reuse': fn('    let mut bump = Bump::new();\n    { let x = bump.alloc(1u32); *x += 1; }\n    bump.reset();\n    let y = bump.alloc(2u32);\n    let _ = *y;'),
    'iterate-then-allocate': fn('    let mut bump = Bump::new();\n    bump.alloc(1u8);\n    let n: usize = bump.iter_allocated_chunks().map(|c| c.len()).sum();\n    let y = bump.alloc(n);\n    let _ = *y;'),
    # every copying API of the collections takes its source for the duration of the call only: the collection may outlive it
    'collections-outlive-copied-sources': fn('    let bump = Bump::new();\n    let mut s = BString::new_in(&bump);\n    let mut v: BVec<u8> = BVec::new_in(&bump);\n    {\n        let tmp = std::string::String::from("hello");\n        let parts = [tmp.as_str(), "x"];\n        s.push_str(&tmp);\n        s.extend(parts.iter().copied());\n        s.extend(std::iter::once(std::borrow::Cow::Borrowed(tmp.as_str())));\n        let cs: std::vec::Vec<char> = tmp.chars().collect();\n        s.extend(cs.iter());\n        s.insert_str(0, &tmp);\n        let bytes = tmp.as_bytes().to_vec();\n        v.extend_from_slice(&bytes);\n        v.extend_from_slice_copy(&bytes);\n        v.extend(bytes.iter());\n        let t = BString::from_str_in(&tmp, &bump);\n        s.push_str(&t);\n        let mut t2 = BString::new_in(&bump);\n        t2 += &tmp;\n        s = s + &tmp + t2.as_str();\n        s.replace_range(0..1, &tmp);\n        v.extend_from_slices_copy(&[&bytes[..], &bytes[..]]);\n    }\n    let _ = s.len() + v.len();'),
    'vec-outlives-nothing-but-arena': fn('    let bump = Bump::new();\n    let v = { let mut v = BVec::new_in(&bump); v.push(1u32); v };\n    let s = v.into_bump_slice();\n    let _ = s.len();'),
}


def all_probes(tier='quick'):
    """list of dict(name, kind, src, expect)  expect: None = must compile, list of codes = must be rejected with one of them"""
    makers = QUICK if tier == 'quick' else list(MAKERS)
    out = []
    fams = [('outlive', outlive), ('after-reset', after_reset)]
    if tier != 'quick':
        fams += [('move-away', move_away), ('during-iteration', during_iteration)]
    for m in makers:
        for fam, f in fams:
            bad, twin, codes = f(m)
            out.append({'name': '%s:%s' % (fam, m), 'src': bad, 'expect': codes, 'twin': twin})
    if tier == 'quick':
        for m in ('alloc', 'Vec', 'Box::leak'):
            for fam, f in (('move-away', move_away), ('during-iteration', during_iteration)):
                bad, twin, codes = f(m)
                out.append({'name': '%s:%s' % (fam, m), 'src': bad, 'expect': codes, 'twin': twin})
    for name, (bad, twin, codes) in FIXED.items():
        out.append({'name': name, 'src': bad, 'expect': codes, 'twin': twin})
    for ty, tr in TRAIT_NEG:
        out.append({'name': 'not-%s:%s' % (tr, ty), 'src': trait_probe(ty, tr, False), 'expect': ['E0277'], 'twin': trait_probe('u32', tr, True)})
    for ty, tr in TRAIT_POS:
        out.append({'name': 'is-%s:%s' % (tr, ty), 'src': trait_probe(ty, tr, True), 'expect': None, 'twin': None})
    for name, src in POSITIVE.items():
        out.append({'name': 'accept:' + name, 'src': src, 'expect': None, 'twin': None})
    return out
