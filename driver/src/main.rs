#![feature(rustc_private)]
#![allow(unused)]
extern crate rustc_abi;
extern crate rustc_ast;
extern crate rustc_driver;
extern crate rustc_hir;
extern crate rustc_infer;
extern crate rustc_interface;
extern crate rustc_middle;
extern crate rustc_span;
extern crate rustc_trait_selection;

use rustc_driver::Compilation;
use rustc_hir::def::DefKind;
use rustc_hir::def_id::DefId;
use rustc_middle::mir::*;
use rustc_middle::ty::{self, Ty, TyCtxt, TypingEnv, TypeVisitableExt};
use std::fmt::Write as _;

fn esc(s: &str) -> String {
    let mut o = String::with_capacity(s.len() + 2);
    o.push('"');
    for c in s.chars() {
        match c {
            '"' => o.push_str("\\\""),
            '\\' => o.push_str("\\\\"),
            '\n' => o.push_str("\\n"),
            '\t' => o.push_str("\\t"),
            c if (c as u32) < 0x20 => { let _ = write!(o, "\\u{:04x}", c as u32); }
            c => o.push(c),
        }
    }
    o.push('"');
    o
}

struct Cx<'tcx> {
    tcx: TyCtxt<'tcx>,
}

impl<'tcx> Cx<'tcx> {
    fn span(&self, sp: rustc_span::Span) -> String {
        let sm = self.tcx.sess.source_map();
        let lo = sm.lookup_char_pos(sp.lo());
        let f = match &lo.file.name { rustc_span::FileName::Real(r) => format!("{}", r.local_path().map(|p| p.display().to_string()).unwrap_or_else(|| "<remapped>".into())), o => format!("{:?}", o) };
        format!("{}:{}:{}", f, lo.line, lo.col.0 + 1)
    }
    fn ty(&self, t: Ty<'tcx>) -> String { esc(&ty::print::with_no_trimmed_paths!(t.to_string())) }

    fn place(&self, body: &Body<'tcx>, p: &Place<'tcx>) -> String {
        let mut s = format!("{{\"l\":{},\"proj\":[", p.local.as_usize());
        let mut pty = PlaceTy::from_ty(body.local_decls[p.local].ty);
        for (i, e) in p.projection.iter().enumerate() {
            if i > 0 { s.push(','); }
            match e {
                ProjectionElem::Deref => s.push_str("{\"k\":\"deref\"}"),
                ProjectionElem::Field(f, fty) => {
                    let (adt, name) = match pty.ty.kind() {
                        ty::Adt(def, _) => {
                            let v = match pty.variant_index { Some(v) => def.variant(v), None => def.non_enum_variant() };
                            (self.stable_path(def.did()), v.fields[f].name.to_string())
                        }
                        ty::Closure(d, _) => (format!("closure:{}", self.tcx.def_path_str(*d)), format!("upvar{}", f.as_usize())),
                        ty::Tuple(_) => ("tuple".to_string(), format!("{}", f.as_usize())),
                        _ => ("?".to_string(), format!("{}", f.as_usize())),
                    };
                    let _ = write!(s, "{{\"k\":\"field\",\"i\":{},\"name\":{},\"adt\":{},\"ty\":{}}}", f.as_usize(), esc(&name), esc(&adt), self.ty(fty));
                }
                ProjectionElem::Downcast(name, v) => { let _ = write!(s, "{{\"k\":\"downcast\",\"variant\":{},\"i\":{}}}", esc(&name.map(|n| n.to_string()).unwrap_or_default()), v.as_usize()); }
                ProjectionElem::Index(l) => { let _ = write!(s, "{{\"k\":\"index\",\"l\":{}}}", l.as_usize()); }
                other => { let _ = write!(s, "{{\"k\":\"other\",\"txt\":{}}}", esc(&format!("{:?}", other))); }
            }
            pty = pty.projection_ty(self.tcx, e);
        }
        let _ = write!(s, "],\"ty\":{}}}", self.ty(pty.ty));
        s
    }

    fn constant(&self, owner: DefId, c: &ConstOperand<'tcx>) -> String {
        let tcx = self.tcx;
        let ty = c.const_.ty();
        let mut s = format!("{{\"k\":\"const\",\"ty\":{}", self.ty(ty));
        if let ty::FnDef(d, args) = ty.kind() {
            let _ = write!(s, ",\"fn\":{},\"gargs\":{}", esc(&self.stable_path(*d)), esc(&format!("{:?}", args)));
        }
        match c.const_ {
            Const::Unevaluated(u, _) => {
                if let Some(p) = u.promoted { let _ = write!(s, ",\"promoted\":{}", p.as_usize()); }
                else { let _ = write!(s, ",\"name\":{}", esc(&self.stable_path(u.def))); }
            }
            Const::Ty(_, ct) => {
                if let ty::ConstKind::Param(p) = ct.kind() { let _ = write!(s, ",\"param\":{}", esc(p.name.as_str())); }
                else { let _ = write!(s, ",\"tyconst\":{}", esc(&format!("{:?}", ct))); }
            }
            Const::Val(cv, _) => {
                if let ConstValue::Scalar(rustc_middle::mir::interpret::Scalar::Ptr(p, _)) = cv {
                    let id = p.provenance.alloc_id();
                    match tcx.global_alloc(id) {
                        rustc_middle::mir::interpret::GlobalAlloc::Static(sd) => { let _ = write!(s, ",\"static\":{},\"static_off\":{}", esc(&self.stable_path(sd)), p.into_raw_parts().1.bytes()); }
                        rustc_middle::mir::interpret::GlobalAlloc::Function { instance } => { let _ = write!(s, ",\"fnptr\":{}", esc(&self.stable_path(instance.def_id()))); }
                        _ => { let _ = write!(s, ",\"alloc\":{}", esc(&format!("{:?}", id))); }
                    }
                }
            }
        }
        // try to evaluate to a scalar
        let env = TypingEnv::post_analysis(tcx, owner);
        if let Some(sc) = c.const_.try_eval_scalar_int(tcx, env) {
            let _ = write!(s, ",\"val\":{}", esc(&format!("{:?}", sc)));
        }
        s.push('}');
        s
    }

    fn operand(&self, owner: DefId, body: &Body<'tcx>, o: &Operand<'tcx>) -> String {
        match o {
            Operand::Copy(p) => format!("{{\"k\":\"copy\",\"place\":{}}}", self.place(body, p)),
            Operand::Move(p) => format!("{{\"k\":\"move\",\"place\":{}}}", self.place(body, p)),
            Operand::Constant(c) => self.constant(owner, c),
            other => format!("{{\"k\":\"other\",\"txt\":{}}}", esc(&format!("{:?}", other))),
        }
    }

    fn rvalue(&self, owner: DefId, body: &Body<'tcx>, rv: &Rvalue<'tcx>) -> String {
        match rv {
            Rvalue::Use(o, _) => format!("{{\"k\":\"use\",\"o\":{}}}", self.operand(owner, body, o)),
            Rvalue::Ref(_, bk, p) => format!("{{\"k\":\"ref\",\"mut\":{},\"place\":{}}}", matches!(bk, BorrowKind::Mut { .. }), self.place(body, p)),
            Rvalue::RawPtr(k, p) => format!("{{\"k\":\"rawptr\",\"kind\":{},\"place\":{}}}", esc(&format!("{:?}", k)), self.place(body, p)),
            Rvalue::Cast(k, o, t) => format!("{{\"k\":\"cast\",\"kind\":{},\"o\":{},\"ty\":{},\"from\":{}}}", esc(&format!("{:?}", k)), self.operand(owner, body, o), self.ty(*t), self.ty(o.ty(&body.local_decls, self.tcx))),
            Rvalue::BinaryOp(op, b) => format!("{{\"k\":\"bin\",\"op\":{},\"l\":{},\"r\":{},\"lty\":{},\"span_exp\":false}}", esc(&format!("{:?}", op)), self.operand(owner, body, &b.0), self.operand(owner, body, &b.1), self.ty(b.0.ty(&body.local_decls, self.tcx))),
            Rvalue::UnaryOp(op, o) => format!("{{\"k\":\"un\",\"op\":{},\"o\":{}}}", esc(&format!("{:?}", op)), self.operand(owner, body, o)),
            Rvalue::Discriminant(p) => {
                let pty = p.ty(&body.local_decls, self.tcx).ty;
                let (ety, vars) = match pty.kind() {
                    ty::Adt(def, _) if def.is_enum() => (self.stable_path(def.did()), def.variants().iter().map(|v| esc(v.name.as_str())).collect::<Vec<_>>()),
                    _ => (String::from("?"), Vec::new()),
                };
                let dvals: Vec<String> = match pty.kind() {
                    ty::Adt(def, _) if def.is_enum() => def.discriminants(self.tcx).map(|(_, d)| format!("{}", d.val)).collect(),
                    _ => Vec::new(),
                };
                format!("{{\"k\":\"discr\",\"place\":{},\"ety\":{},\"variants\":[{}],\"dvals\":[{}],\"pty\":{}}}", self.place(body, p), esc(&ety), vars.join(","), dvals.join(","), self.ty(pty))
            }
            Rvalue::CopyForDeref(p) => format!("{{\"k\":\"use\",\"o\":{{\"k\":\"copy\",\"place\":{}}}}}", self.place(body, p)),
            Rvalue::Aggregate(kind, fields) => {
                let fs: Vec<String> = fields.iter().map(|o| self.operand(owner, body, o)).collect();
                let (k, name, variant) = match &**kind {
                    AggregateKind::Adt(d, v, _, _, _) => { let def = self.tcx.adt_def(*d); ("adt", self.stable_path(*d), format!("{}#{}#{}", def.variant(*v).name, v.as_usize(), def.variant(*v).fields.iter().map(|f| f.name.to_string()).collect::<Vec<_>>().join("|"))) }
                    AggregateKind::Closure(d, _) => ("closure", self.tcx.def_path_str(*d), String::new()),
                    AggregateKind::RawPtr(..) => ("rawptr", String::new(), String::new()),
                    AggregateKind::Tuple => ("tuple", String::new(), String::new()),
                    AggregateKind::Array(_) => ("array", String::new(), String::new()),
                    o => ("other", format!("{:?}", o), String::new()),
                };
                format!("{{\"k\":\"agg\",\"agg\":{},\"name\":{},\"variant\":{},\"fields\":[{}]}}", esc(k), esc(&name), esc(&variant), fs.join(","))
            }
            other => format!("{{\"k\":\"other\",\"txt\":{}}}", esc(&format!("{:?}", other))),
        }
    }

    fn unwind(&self, u: &UnwindAction) -> String {
        match u { UnwindAction::Cleanup(b) => format!("{}", b.as_usize()), UnwindAction::Continue => "\"continue\"".into(), UnwindAction::Unreachable => "\"unreachable\"".into(), UnwindAction::Terminate(_) => "\"terminate\"".into() }
    }

    fn stable_path(&self, d: DefId) -> String {
        ty::print::with_no_visible_paths!(ty::print::with_no_trimmed_paths!(self.tcx.def_path_str(d)))
    }

    fn callee(&self, owner: DefId, body: &Body<'tcx>, func: &Operand<'tcx>) -> String {
        let tcx = self.tcx;
        let fty = func.ty(&body.local_decls, tcx);
        match fty.kind() {
            ty::FnDef(d, args) => {
                let path = self.stable_path(*d);
                let name = tcx.item_name(*d).to_string();
                let krate = tcx.crate_name(d.krate).to_string();
                let trait_of = tcx.trait_of_assoc(*d);
                let env = TypingEnv::post_analysis(tcx, owner);
                let mut resolved = String::from("null");
                let mut resolved_local = false;
                let mut self_ty = String::from("null");
                let mut self_kind = "none";
                if trait_of.is_some() {
                    if let Some(st) = args.types().next() {
                        self_ty = self.ty(st);
                        let mut t = st;
                        // peel references: <&mut F as FnMut>::call_mut
                        while let ty::Ref(_, inner, _) = t.kind() { t = *inner; }
                        self_kind = match t.kind() {
                            ty::Param(_) => "param",
                            ty::Alias(..) => "alias",
                            ty::Closure(..) => "closure",
                            ty::Dynamic(..) => "dyn",
                            ty::FnPtr(..) => "fnptr",
                            ty::FnDef(..) => "fndef",
                            _ => "concrete",
                        };
                    }
                    match ty::Instance::try_resolve(tcx, env, *d, args) {
                        Ok(Some(inst)) => {
                            let rd = inst.def_id();
                            resolved_local = rd.is_local();
                            let kind = match inst.def { ty::InstanceKind::Item(_) => "item", ty::InstanceKind::Virtual(..) => "virtual", ty::InstanceKind::ClosureOnceShim{..} => "closure_once_shim", ty::InstanceKind::FnPtrShim(..) => "fnptr_shim", ty::InstanceKind::DropGlue(..) => "drop_glue", ty::InstanceKind::CloneShim(..) => "clone_shim", _ => "other" };
                            let rg: Vec<String> = inst.args.iter().map(|a| esc(&ty::print::with_no_trimmed_paths!(format!("{}", a)))).collect();
                            resolved = format!("{{\"path\":{},\"kind\":{},\"local\":{},\"gargs\":[{}]}}", esc(&self.stable_path(rd)), esc(kind), resolved_local, rg.join(","));
                        }
                        _ => {}
                    }
                }
                let sig = tcx.fn_sig(*d).instantiate_identity().skip_norm_wip();
                let diverges = sig.output().skip_binder().is_never();
                let gargs: Vec<String> = args.iter().map(|a| esc(&ty::print::with_no_trimmed_paths!(format!("{}", a)))).collect();
                let inst_ret = func.ty(&body.local_decls, tcx).fn_sig(tcx).output().skip_binder();
                format!("{{\"path\":{},\"name\":{},\"krate\":{},\"trait\":{},\"self_ty\":{},\"self_kind\":{},\"resolved\":{},\"diverges\":{},\"local\":{},\"gargs\":[{}],\"ret\":{},\"unsafe\":{}}}",
                    esc(&path), esc(&name), esc(&krate), trait_of.map(|t| esc(&self.stable_path(t))).unwrap_or("null".into()), self_ty, esc(self_kind), resolved, diverges, d.is_local(), gargs.join(","), self.ty(inst_ret), sig.safety().is_unsafe())
            }
            _ => format!("{{\"path\":null,\"indirect\":{}}}", self.ty(fty)),
        }
    }

    fn meta(&self, did: DefId, kind: &str) -> String {
        let tcx = self.tcx;
        let mut s = String::from("{");
        let _ = write!(s, "\"path\":{}", esc(&self.stable_path(did)));
        let name = tcx.opt_item_name(did).map(|n| n.to_string()).unwrap_or_default();
        let _ = write!(s, ",\"name\":{}", esc(&name));
        // enclosing fn for closures
        let mut fn_did = did;
        while matches!(tcx.def_kind(fn_did), DefKind::Closure | DefKind::InlineConst | DefKind::AnonConst) { fn_did = tcx.parent(fn_did); }
        let _ = write!(s, ",\"parent_fn\":{}", esc(&self.stable_path(fn_did)));
        if matches!(tcx.def_kind(fn_did), DefKind::Fn | DefKind::AssocFn) {
            let vis = tcx.visibility(fn_did);
            let reach = fn_did.as_local().map(|l| tcx.effective_visibilities(()).is_reachable(l)).unwrap_or(false);
            let sig = tcx.fn_sig(fn_did).instantiate_identity().skip_norm_wip();
            let _ = write!(s, ",\"pub\":{},\"reachable\":{},\"unsafe\":{}", vis.is_public(), reach, sig.safety().is_unsafe());
            if kind != "closure" && kind != "promoted" {
                let sb = sig.skip_binder();
                let ins: Vec<String> = sb.inputs().iter().map(|t| self.ty(*t)).collect();
                let _ = write!(s, ",\"inputs\":[{}],\"output\":{},\"sig\":{}", ins.join(","), self.ty(sb.output()), esc(&ty::print::with_no_trimmed_paths!(format!("{:?}", sig))));
            }
            if tcx.def_kind(fn_did) == DefKind::AssocFn {
                let parent = tcx.parent(fn_did);
                match tcx.def_kind(parent) {
                    DefKind::Impl { of_trait } => {
                        let st = tcx.type_of(parent).instantiate_identity().skip_norm_wip();
                        let _ = write!(s, ",\"impl_self\":{}", self.ty(st));
                        if let ty::Adt(def, _) = st.kind() { let _ = write!(s, ",\"impl_adt\":{}", esc(&self.stable_path(def.did()))); }
                        if of_trait {
                            let tr = tcx.impl_trait_ref(parent).instantiate_identity().skip_norm_wip();
                            let _ = write!(s, ",\"impl_trait\":{},\"impl_trait_full\":{}", esc(&self.stable_path(tr.def_id)), esc(&ty::print::with_no_trimmed_paths!(format!("{}", tr))));
                        }
                    }
                    DefKind::Trait => { let _ = write!(s, ",\"in_trait\":{}", esc(&self.stable_path(parent))); }
                    _ => {}
                }
            }
            let g = tcx.generics_of(fn_did);
            let mut names: Vec<String> = Vec::new();
            let mut gg = Some(g);
            while let Some(x) = gg {
                for p in &x.own_params { names.push(esc(&format!("{}:{}", match p.kind { ty::GenericParamDefKind::Lifetime => "lt", ty::GenericParamDefKind::Type{..} => "ty", ty::GenericParamDefKind::Const{..} => "const" }, p.name))); }
                gg = x.parent.map(|p| tcx.generics_of(p));
            }
            let _ = write!(s, ",\"generics\":[{}]", names.join(","));
            // the same parameters in substitution order (parent first), aligned with call-site generic arguments
            let mut ord: Vec<(u32, String)> = Vec::new();
            let mut gg = Some(g);
            while let Some(x) = gg {
                for p in &x.own_params { ord.push((p.index, esc(&format!("{}:{}", match p.kind { ty::GenericParamDefKind::Lifetime => "lt", ty::GenericParamDefKind::Type{..} => "ty", ty::GenericParamDefKind::Const{..} => "const" }, p.name)))); }
                gg = x.parent.map(|p| tcx.generics_of(p));
            }
            ord.sort();
            let _ = write!(s, ",\"generics_ord\":[{}]", ord.iter().map(|x| x.1.clone()).collect::<Vec<_>>().join(","));
        }
        s.push('}');
        s
    }

    fn type_facts(&self) -> String {
        let tcx = self.tcx;
        let mut adts: Vec<String> = Vec::new();
        let mut impls: Vec<String> = Vec::new();
        let mut statics: Vec<String> = Vec::new();
        let mut consts: Vec<String> = Vec::new();
        let mut fns: Vec<String> = Vec::new();
        for ldid in tcx.hir_crate_items(()).definitions() {
            let did = ldid.to_def_id();
            match tcx.def_kind(did) {
                DefKind::Struct | DefKind::Enum | DefKind::Union => {
                    let def = tcx.adt_def(did);
                    let g = tcx.generics_of(did);
                    let params: Vec<String> = g.own_params.iter().map(|p| esc(&format!("{}:{}", match p.kind { ty::GenericParamDefKind::Lifetime => "lt", ty::GenericParamDefKind::Type{..} => "ty", ty::GenericParamDefKind::Const{..} => "const" }, p.name))).collect();
                    let mut fields: Vec<String> = Vec::new();
                    for v in def.variants() {
                        for f in &v.fields {
                            let fty = tcx.type_of(f.did).instantiate_identity().skip_norm_wip();
                            fields.push(format!("{{\"variant\":{},\"name\":{},\"ty\":{},\"pub\":{}}}", esc(v.name.as_str()), esc(f.name.as_str()), self.ty(fty), f.vis.is_public()));
                        }
                    }
                    let reach = tcx.effective_visibilities(()).is_reachable(ldid);
                    let mut layout = String::from("null");
                    let sty = tcx.type_of(did).instantiate_identity().skip_norm_wip();
                    if !sty.has_param() && g.own_params.iter().all(|p| !matches!(p.kind, ty::GenericParamDefKind::Lifetime)) {
                        let env = TypingEnv::fully_monomorphized();
                        if let Ok(l) = tcx.layout_of(env.as_query_input(sty)) {
                            layout = format!("{{\"size\":{},\"align\":{}}}", l.size.bytes(), l.align.abi.bytes());
                        }
                    }
                    let variances: Vec<String> = tcx.variances_of(did).iter().map(|v| esc(&format!("{:?}", v))).collect();
                    adts.push(format!("{{\"path\":{},\"reachable\":{},\"params\":[{}],\"variances\":[{}],\"fields\":[{}],\"layout\":{},\"repr\":{},\"span\":{}}}", esc(&self.stable_path(did)), reach, params.join(","), variances.join(","), fields.join(","), layout, esc(&format!("{:?}", def.repr())), esc(&self.span(tcx.def_span(did)))));
                }
                DefKind::Impl { of_trait } => {
                    let st = tcx.type_of(did).instantiate_identity().skip_norm_wip();
                    let mut tr = String::from("null");
                    let mut trfull = String::from("null");
                    let mut neg = false;
                    let mut uns = false;
                    if of_trait {
                        let r = tcx.impl_trait_ref(did).instantiate_identity().skip_norm_wip();
                        tr = esc(&self.stable_path(r.def_id));
                        trfull = esc(&ty::print::with_no_trimmed_paths!(format!("{}", r)));
                        neg = matches!(tcx.impl_polarity(did), ty::ImplPolarity::Negative);
                        uns = tcx.impl_trait_header(did).safety.is_unsafe();
                    }
                    let adt = if let ty::Adt(d, _) = st.kind() { esc(&self.stable_path(d.did())) } else { "null".into() };
                    let items: Vec<String> = tcx.associated_item_def_ids(did).iter().map(|i| esc(&tcx.item_name(*i).to_string())).collect();
                    impls.push(format!("{{\"self\":{},\"adt\":{},\"trait\":{},\"trait_full\":{},\"negative\":{},\"unsafe\":{},\"items\":[{}],\"span\":{}}}", self.ty(st), adt, tr, trfull, neg, uns, items.join(","), esc(&self.span(tcx.def_span(did)))));
                }
                DefKind::Static { mutability, .. } => {
                    let sty = tcx.type_of(did).instantiate_identity().skip_norm_wip();
                    let env = TypingEnv::fully_monomorphized();
                    let freeze = sty.is_freeze(tcx, env);
                    let mut bytes = String::from("null");
                    let mut layout = String::from("null");
                    if let Ok(l) = tcx.layout_of(env.as_query_input(sty)) {
                        layout = format!("{{\"size\":{},\"align\":{}}}", l.size.bytes(), l.align.abi.bytes());
                    }
                    if let Ok(alloc) = tcx.eval_static_initializer(did) {
                        let a = alloc.inner();
                        if a.provenance().ptrs().is_empty() {
                            let b = a.inspect_with_uninit_and_ptr_outside_interpreter(0..a.len());
                            let v: Vec<String> = b.iter().map(|x| x.to_string()).collect();
                            bytes = format!("[{}]", v.join(","));
                        } else {
                            // record relocation offsets (pointer fields)
                            let offs: Vec<String> = a.provenance().ptrs().iter().map(|(o, _)| o.bytes().to_string()).collect();
                            let b = a.inspect_with_uninit_and_ptr_outside_interpreter(0..a.len());
                            let v: Vec<String> = b.iter().map(|x| x.to_string()).collect();
                            bytes = format!("{{\"relocs\":[{}],\"raw\":[{}]}}", offs.join(","), v.join(","));
                        }
                    }
                    statics.push(format!("{{\"path\":{},\"mutable\":{},\"ty\":{},\"freeze\":{},\"layout\":{},\"bytes\":{},\"span\":{}}}", esc(&self.stable_path(did)), matches!(mutability, rustc_hir::Mutability::Mut), self.ty(sty), freeze, layout, bytes, esc(&self.span(tcx.def_span(did)))));
                }
                DefKind::Const { .. } | DefKind::AssocConst { .. } => {
                    let g = tcx.generics_of(did);
                    if g.count() == 0 {
                        let cty = tcx.type_of(did).instantiate_identity().skip_norm_wip();
                        if cty.is_integral() || cty.is_bool() {
                            if let Ok(v) = tcx.const_eval_poly(did) {
                                if let Some(sc) = v.try_to_scalar_int() {
                                    consts.push(format!("{{\"path\":{},\"ty\":{},\"val\":{}}}", esc(&self.stable_path(did)), self.ty(cty), esc(&format!("{:?}", sc))));
                                }
                            }
                        }
                    }
                }
                DefKind::Fn | DefKind::AssocFn => {
                    let mut matches_s = String::from("[]");
                    if let Some(body) = tcx.hir_maybe_body_owned_by(ldid) {
                        let mut v = MatchVis { tcx, out: Vec::new() };
                        rustc_hir::intravisit::Visitor::visit_body(&mut v, body);
                        matches_s = format!("[{}]", v.out.join(","));
                    }
                    fns.push(format!("{{\"path\":{},\"meta\":{},\"matches\":{}}}", esc(&self.stable_path(did)), self.meta(did, "fn"), matches_s));
                }
                _ => {}
            }
        }
        format!("\"adts\":[\n{}],\n\"impls\":[\n{}],\n\"statics\":[\n{}],\n\"consts\":[\n{}],\n\"fns\":[\n{}]\n", adts.join(",\n"), impls.join(",\n"), statics.join(",\n"), consts.join(",\n"), fns.join(",\n"))
    }

    fn body(&self, owner: DefId, body: &Body<'tcx>, id: &str, kind: &str) -> String {
        let tcx = self.tcx;
        let mut s = String::new();
        let _ = write!(s, "{{\"id\":{},\"kind\":{},\"span\":{},\"argc\":{},\"meta\":{},\"vars\":{{", esc(id), esc(kind), esc(&self.span(body.span)), body.arg_count, self.meta(owner, kind));
        {
            let mut first = true;
            for v in &body.var_debug_info {
                if let VarDebugInfoContents::Place(p) = &v.value {
                    if p.projection.is_empty() {
                        if !first { s.push(','); } first = false;
                        let _ = write!(s, "\"{}\":{}", p.local.as_usize(), esc(v.name.as_str()));
                    }
                }
            }
        }
        s.push_str("},\"locals\":[");
        for (i, d) in body.local_decls.iter().enumerate() { if i > 0 { s.push(','); } s.push_str(&self.ty(d.ty)); }
        s.push_str("],\"blocks\":[");
        for (bi, bb) in body.basic_blocks.iter().enumerate() {
            if bi > 0 { s.push(','); }
            let _ = write!(s, "{{\"cleanup\":{},\"stmts\":[", bb.is_cleanup);
            let mut first = true;
            for st in &bb.statements {
                let txt = match &st.kind {
                    StatementKind::Assign(b) => Some(format!("{{\"k\":\"assign\",\"place\":{},\"rv\":{},\"span\":{},\"exp\":{}}}", self.place(body, &b.0), self.rvalue(owner, body, &b.1), esc(&self.span(st.source_info.span)), st.source_info.span.from_expansion())),
                    StatementKind::SetDiscriminant { place, variant_index } => Some(format!("{{\"k\":\"setdiscr\",\"place\":{},\"variant\":{}}}", self.place(body, place), variant_index.as_usize())),
                    StatementKind::Intrinsic(i) => Some(format!("{{\"k\":\"intrinsic\",\"txt\":{}}}", esc(&format!("{:?}", i)))),
                    _ => None,
                };
                if let Some(t) = txt { if !first { s.push(','); } first = false; s.push_str(&t); }
            }
            s.push_str("],\"term\":");
            let term = bb.terminator();
            let sp = esc(&self.span(term.source_info.span));
            let exp = term.source_info.span.from_expansion();
            let t = match &term.kind {
                TerminatorKind::Goto { target } => format!("{{\"k\":\"goto\",\"t\":{}}}", target.as_usize()),
                TerminatorKind::SwitchInt { discr, targets } => {
                    let ts: Vec<String> = targets.iter().map(|(v, b)| format!("[{},{}]", v, b.as_usize())).collect();
                    format!("{{\"k\":\"switch\",\"discr\":{},\"dty\":{},\"targets\":[{}],\"otherwise\":{},\"span\":{},\"exp\":{}}}", self.operand(owner, body, discr), self.ty(discr.ty(&body.local_decls, tcx)), ts.join(","), targets.otherwise().as_usize(), sp, exp)
                }
                TerminatorKind::Return => "{\"k\":\"return\"}".into(),
                TerminatorKind::Unreachable => "{\"k\":\"unreachable\"}".into(),
                TerminatorKind::UnwindResume => "{\"k\":\"resume\"}".into(),
                TerminatorKind::UnwindTerminate(_) => "{\"k\":\"terminate\"}".into(),
                TerminatorKind::Drop { place, target, unwind, .. } => {
                    let pty = place.ty(&body.local_decls, tcx).ty;
                    let env = TypingEnv::post_analysis(tcx, owner);
                    format!("{{\"k\":\"drop\",\"place\":{},\"ty\":{},\"has_param\":{},\"needs_drop\":{},\"t\":{},\"unwind\":{},\"span\":{}}}", self.place(body, place), self.ty(pty), pty.has_param(), pty.needs_drop(tcx, env), target.as_usize(), self.unwind(unwind), sp)
                }
                TerminatorKind::Call { func, args, destination, target, unwind, .. } => {
                    let a: Vec<String> = args.iter().map(|o| self.operand(owner, body, &o.node)).collect();
                    format!("{{\"k\":\"call\",\"callee\":{},\"args\":[{}],\"dest\":{},\"t\":{},\"unwind\":{},\"span\":{},\"exp\":{}}}", self.callee(owner, body, func), a.join(","), self.place(body, destination), target.map(|t| t.as_usize().to_string()).unwrap_or("null".into()), self.unwind(unwind), sp, exp)
                }
                TerminatorKind::Assert { cond, expected, target, unwind, msg } => {
                    format!("{{\"k\":\"assert\",\"cond\":{},\"expected\":{},\"t\":{},\"unwind\":{},\"msg\":{},\"span\":{}}}", self.operand(owner, body, cond), expected, target.as_usize(), self.unwind(unwind), esc(&format!("{:?}", msg).chars().take(60).collect::<String>()), sp)
                }
                TerminatorKind::FalseEdge { real_target, .. } => format!("{{\"k\":\"goto\",\"t\":{}}}", real_target.as_usize()),
                TerminatorKind::FalseUnwind { real_target, .. } => format!("{{\"k\":\"goto\",\"t\":{}}}", real_target.as_usize()),
                other => format!("{{\"k\":\"other\",\"txt\":{}}}", esc(&format!("{:?}", other).chars().take(80).collect::<String>())),
            };
            s.push_str(&t);
            s.push('}');
        }
        s.push_str("]}");
        s
    }
}


struct MatchVis<'tcx> { tcx: TyCtxt<'tcx>, out: Vec<String> }
impl<'tcx> MatchVis<'tcx> {
    fn lit(&self, e: &rustc_hir::PatExpr<'tcx>) -> Option<u128> {
        match e.kind {
            rustc_hir::PatExprKind::Lit { lit, negated } => match lit.node {
                rustc_ast::LitKind::Int(n, _) if !negated => Some(n.get()),
                rustc_ast::LitKind::Byte(b) => Some(b as u128),
                _ => None,
            },
            _ => None,
        }
    }
    fn pat(&self, p: &rustc_hir::Pat<'tcx>) -> String {
        use rustc_hir::PatKind;
        match p.kind {
            PatKind::Wild => "\"_\"".to_string(),
            PatKind::Expr(e) => match self.lit(e) { Some(n) => format!("[{},{}]", n, n), None => "null".into() },
            PatKind::Range(lo, hi, end) => {
                let l = lo.and_then(|e| self.lit(e));
                let h = hi.and_then(|e| self.lit(e));
                match (l, h) {
                    (Some(l), Some(h)) => format!("[{},{}]", l, if matches!(end, rustc_hir::RangeEnd::Included) { h } else { h.saturating_sub(1) }),
                    _ => "null".into(),
                }
            }
            PatKind::Or(ps) => format!("{{\"or\":[{}]}}", ps.iter().map(|x| self.pat(x)).collect::<Vec<_>>().join(",")),
            PatKind::Tuple(ps, _) => format!("{{\"tuple\":[{}]}}", ps.iter().map(|x| self.pat(x)).collect::<Vec<_>>().join(",")),
            PatKind::Binding(..) => "\"bind\"".to_string(),
            _ => "null".into(),
        }
    }
}
impl<'tcx> rustc_hir::intravisit::Visitor<'tcx> for MatchVis<'tcx> {
    type NestedFilter = rustc_middle::hir::nested_filter::OnlyBodies;
    fn maybe_tcx(&mut self) -> Self::MaybeTyCtxt { self.tcx }
    fn visit_expr(&mut self, ex: &'tcx rustc_hir::Expr<'tcx>) {
        if let rustc_hir::ExprKind::Match(_scrut, arms, src) = ex.kind {
            if matches!(src, rustc_hir::MatchSource::Normal) {
                let interesting = arms.iter().any(|a| matches!(a.pat.kind, rustc_hir::PatKind::Tuple(..) | rustc_hir::PatKind::Range(..) | rustc_hir::PatKind::Expr(..) | rustc_hir::PatKind::Or(..)));
                if interesting {
                    let sm = self.tcx.sess.source_map();
                    let lo = sm.lookup_char_pos(ex.span.lo());
                    let arms_s: Vec<String> = arms.iter().map(|a| format!("{{\"pat\":{},\"guard\":{}}}", self.pat(a.pat), a.guard.is_some())).collect();
                    self.out.push(format!("{{\"line\":{},\"arms\":[{}]}}", lo.line, arms_s.join(",")));
                }
            }
        }
        rustc_hir::intravisit::walk_expr(self, ex);
    }
}
struct Cb;
impl rustc_driver::Callbacks for Cb {
    fn after_analysis<'tcx>(&mut self, _c: &rustc_interface::interface::Compiler, tcx: TyCtxt<'tcx>) -> Compilation {
        let krate = tcx.crate_name(rustc_hir::def_id::LOCAL_CRATE).to_string();
        let want = std::env::var("BUMPSCAN_CRATE").unwrap_or_else(|_| "bumpalo".into());
        if krate != want { return Compilation::Continue; }
        let cx = Cx { tcx };
        let mut out = String::from("{\"bodies\":[\n");
        let mut n = 0;
        for ldid in tcx.mir_keys(()) {
            let did = ldid.to_def_id();
            let kind = tcx.def_kind(did);
            let k = match kind { DefKind::Fn => "fn", DefKind::AssocFn => "assoc_fn", DefKind::Closure => "closure", DefKind::Static { .. } => "static", _ => continue };
            if kind == (DefKind::Static { safety: rustc_hir::Safety::Safe, mutability: rustc_hir::Mutability::Not, nested: false }) || matches!(kind, DefKind::Static{..}) {
                let body = tcx.mir_for_ctfe(did);
                if n > 0 { out.push_str(",\n"); } n += 1;
                out.push_str(&cx.body(did, body, &tcx.def_path_str(did), k));
                continue;
            }
            let body = tcx.optimized_mir(did);
            if n > 0 { out.push_str(",\n"); } n += 1;
            out.push_str(&cx.body(did, body, &tcx.def_path_str(did), k));
            let promoted = tcx.promoted_mir(did);
            for (pi, pb) in promoted.iter_enumerated() {
                out.push_str(",\n"); n += 1;
                out.push_str(&cx.body(did, pb, &format!("{}::promoted[{}]", tcx.def_path_str(did), pi.as_usize()), "promoted"));
            }
        }
        out.push_str("\n],\n");
        out.push_str(&cx.type_facts());
        out.push_str("}\n");
        let path = std::env::var("BUMPSCAN_OUT").unwrap_or_else(|_| "/tmp/bumpscan.json".into());
        std::fs::write(&path, out).unwrap();
        eprintln!("bumpscan: wrote {} bodies to {}", n, path);
        Compilation::Continue
    }
}

fn main() {
    let mut args: Vec<String> = std::env::args().collect();
    if args.len() > 1 && args[1].ends_with("rustc") { args.remove(1); }
    rustc_driver::run_compiler(&args, &mut Cb);
}
