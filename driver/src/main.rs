#![feature(rustc_private)]
#![allow(unused)]
extern crate rustc_abi;
extern crate rustc_driver;
extern crate rustc_hir;
extern crate rustc_infer;
extern crate rustc_interface;
extern crate rustc_middle;
extern crate rustc_span;
extern crate rustc_trait_selection;

use rustc_driver::Compilation;
use rustc_hir::def::DefKind;
use rustc_hir::def_id::DefId;
use rustc_middle::mir::*;
use rustc_middle::ty::{self, Ty, TyCtxt, TypingEnv, TypeVisitableExt};
use std::fmt::Write as _;

fn esc(s: &str) -> String {
    let mut o = String::with_capacity(s.len() + 2);
    o.push('"');
    for c in s.chars() {
        match c {
            '"' => o.push_str("\\\""),
            '\\' => o.push_str("\\\\"),
            '\n' => o.push_str("\\n"),
            '\t' => o.push_str("\\t"),
            c if (c as u32) < 0x20 => { let _ = write!(o, "\\u{:04x}", c as u32); }
            c => o.push(c),
        }
    }
    o.push('"');
    o
}

struct Cx<'tcx> {
    tcx: TyCtxt<'tcx>,
}

impl<'tcx> Cx<'tcx> {
    fn span(&self, sp: rustc_span::Span) -> String {
        let sm = self.tcx.sess.source_map();
        let lo = sm.lookup_char_pos(sp.lo());
        let f = match &lo.file.name { rustc_span::FileName::Real(r) => format!("{}", r.local_path().map(|p| p.display().to_string()).unwrap_or_else(|| "<remapped>".into())), o => format!("{:?}", o) };
        format!("{}:{}:{}", f, lo.line, lo.col.0 + 1)
    }
    fn ty(&self, t: Ty<'tcx>) -> String { esc(&ty::print::with_no_trimmed_paths!(t.to_string())) }

    fn place(&self, body: &Body<'tcx>, p: &Place<'tcx>) -> String {
        let mut s = format!("{{\"l\":{},\"proj\":[", p.local.as_usize());
        let mut pty = PlaceTy::from_ty(body.local_decls[p.local].ty);
        for (i, e) in p.projection.iter().enumerate() {
            if i > 0 { s.push(','); }
            match e {
                ProjectionElem::Deref => s.push_str("{\"k\":\"deref\"}"),
                ProjectionElem::Field(f, fty) => {
                    let (adt, name) = match pty.ty.kind() {
                        ty::Adt(def, _) => {
                            let v = match pty.variant_index { Some(v) => def.variant(v), None => def.non_enum_variant() };
                            (self.tcx.def_path_str(def.did()), v.fields[f].name.to_string())
                        }
                        ty::Closure(d, _) => (format!("closure:{}", self.tcx.def_path_str(*d)), format!("upvar{}", f.as_usize())),
                        ty::Tuple(_) => ("tuple".to_string(), format!("{}", f.as_usize())),
                        _ => ("?".to_string(), format!("{}", f.as_usize())),
                    };
                    let _ = write!(s, "{{\"k\":\"field\",\"i\":{},\"name\":{},\"adt\":{},\"ty\":{}}}", f.as_usize(), esc(&name), esc(&adt), self.ty(fty));
                }
                ProjectionElem::Downcast(name, v) => { let _ = write!(s, "{{\"k\":\"downcast\",\"variant\":{},\"i\":{}}}", esc(&name.map(|n| n.to_string()).unwrap_or_default()), v.as_usize()); }
                ProjectionElem::Index(l) => { let _ = write!(s, "{{\"k\":\"index\",\"l\":{}}}", l.as_usize()); }
                other => { let _ = write!(s, "{{\"k\":\"other\",\"txt\":{}}}", esc(&format!("{:?}", other))); }
            }
            pty = pty.projection_ty(self.tcx, e);
        }
        s.push_str("]}");
        s
    }

    fn constant(&self, owner: DefId, c: &ConstOperand<'tcx>) -> String {
        let tcx = self.tcx;
        let ty = c.const_.ty();
        let mut s = format!("{{\"k\":\"const\",\"ty\":{}", self.ty(ty));
        if let ty::FnDef(d, args) = ty.kind() {
            let _ = write!(s, ",\"fn\":{},\"gargs\":{}", esc(&tcx.def_path_str(*d)), esc(&format!("{:?}", args)));
        }
        match c.const_ {
            Const::Unevaluated(u, _) => {
                if let Some(p) = u.promoted { let _ = write!(s, ",\"promoted\":{}", p.as_usize()); }
                else { let _ = write!(s, ",\"name\":{}", esc(&tcx.def_path_str(u.def))); }
            }
            Const::Ty(_, ct) => {
                if let ty::ConstKind::Param(p) = ct.kind() { let _ = write!(s, ",\"param\":{}", esc(p.name.as_str())); }
                else { let _ = write!(s, ",\"tyconst\":{}", esc(&format!("{:?}", ct))); }
            }
            Const::Val(..) => {}
        }
        // try to evaluate to a scalar
        let env = TypingEnv::post_analysis(tcx, owner);
        if let Some(sc) = c.const_.try_eval_scalar_int(tcx, env) {
            let _ = write!(s, ",\"val\":{}", esc(&format!("{:?}", sc)));
        }
        s.push('}');
        s
    }

    fn operand(&self, owner: DefId, body: &Body<'tcx>, o: &Operand<'tcx>) -> String {
        match o {
            Operand::Copy(p) => format!("{{\"k\":\"copy\",\"place\":{}}}", self.place(body, p)),
            Operand::Move(p) => format!("{{\"k\":\"move\",\"place\":{}}}", self.place(body, p)),
            Operand::Constant(c) => self.constant(owner, c),
            other => format!("{{\"k\":\"other\",\"txt\":{}}}", esc(&format!("{:?}", other))),
        }
    }

    fn rvalue(&self, owner: DefId, body: &Body<'tcx>, rv: &Rvalue<'tcx>) -> String {
        match rv {
            Rvalue::Use(o, _) => format!("{{\"k\":\"use\",\"o\":{}}}", self.operand(owner, body, o)),
            Rvalue::Ref(_, bk, p) => format!("{{\"k\":\"ref\",\"mut\":{},\"place\":{}}}", matches!(bk, BorrowKind::Mut { .. }), self.place(body, p)),
            Rvalue::RawPtr(k, p) => format!("{{\"k\":\"rawptr\",\"kind\":{},\"place\":{}}}", esc(&format!("{:?}", k)), self.place(body, p)),
            Rvalue::Cast(k, o, t) => format!("{{\"k\":\"cast\",\"kind\":{},\"o\":{},\"ty\":{}}}", esc(&format!("{:?}", k)), self.operand(owner, body, o), self.ty(*t)),
            Rvalue::BinaryOp(op, b) => format!("{{\"k\":\"bin\",\"op\":{},\"l\":{},\"r\":{}}}", esc(&format!("{:?}", op)), self.operand(owner, body, &b.0), self.operand(owner, body, &b.1)),
            Rvalue::UnaryOp(op, o) => format!("{{\"k\":\"un\",\"op\":{},\"o\":{}}}", esc(&format!("{:?}", op)), self.operand(owner, body, o)),
            Rvalue::Discriminant(p) => format!("{{\"k\":\"discr\",\"place\":{}}}", self.place(body, p)),
            Rvalue::CopyForDeref(p) => format!("{{\"k\":\"use\",\"o\":{{\"k\":\"copy\",\"place\":{}}}}}", self.place(body, p)),
            Rvalue::Aggregate(kind, fields) => {
                let fs: Vec<String> = fields.iter().map(|o| self.operand(owner, body, o)).collect();
                let (k, name, variant) = match &**kind {
                    AggregateKind::Adt(d, v, _, _, _) => { let def = self.tcx.adt_def(*d); ("adt", self.tcx.def_path_str(*d), def.variant(*v).name.to_string()) }
                    AggregateKind::Closure(d, _) => ("closure", self.tcx.def_path_str(*d), String::new()),
                    AggregateKind::Tuple => ("tuple", String::new(), String::new()),
                    AggregateKind::Array(_) => ("array", String::new(), String::new()),
                    o => ("other", format!("{:?}", o), String::new()),
                };
                format!("{{\"k\":\"agg\",\"agg\":{},\"name\":{},\"variant\":{},\"fields\":[{}]}}", esc(k), esc(&name), esc(&variant), fs.join(","))
            }
            other => format!("{{\"k\":\"other\",\"txt\":{}}}", esc(&format!("{:?}", other))),
        }
    }

    fn unwind(&self, u: &UnwindAction) -> String {
        match u { UnwindAction::Cleanup(b) => format!("{}", b.as_usize()), UnwindAction::Continue => "\"continue\"".into(), UnwindAction::Unreachable => "\"unreachable\"".into(), UnwindAction::Terminate(_) => "\"terminate\"".into() }
    }

    fn callee(&self, owner: DefId, body: &Body<'tcx>, func: &Operand<'tcx>) -> String {
        let tcx = self.tcx;
        let fty = func.ty(&body.local_decls, tcx);
        match fty.kind() {
            ty::FnDef(d, args) => {
                let path = tcx.def_path_str(*d);
                let full = ty::print::with_no_trimmed_paths!(tcx.def_path_str_with_args(*d, args));
                let trait_of = tcx.trait_of_assoc(*d);
                let env = TypingEnv::post_analysis(tcx, owner);
                let mut resolved = String::from("null");
                let mut self_param = false;
                if trait_of.is_some() {
                    if let Some(st) = args.types().next() { self_param = matches!(st.kind(), ty::Param(_)) || st.is_closure() && false; }
                    match ty::Instance::try_resolve(tcx, env, *d, args) {
                        Ok(Some(inst)) => { resolved = esc(&ty::print::with_no_trimmed_paths!(format!("{}", tcx.def_path_str(inst.def_id())))); }
                        _ => {}
                    }
                }
                let sig = tcx.fn_sig(*d).instantiate_identity().skip_norm_wip();
                let diverges = sig.output().skip_binder().is_never();
                format!("{{\"path\":{},\"full\":{},\"trait\":{},\"resolved\":{},\"self_param\":{},\"diverges\":{},\"local\":{}}}",
                    esc(&path), esc(&full), trait_of.map(|t| esc(&tcx.def_path_str(t))).unwrap_or("null".into()), resolved, self_param, diverges, d.is_local())
            }
            _ => format!("{{\"path\":null,\"indirect\":{}}}", self.ty(fty)),
        }
    }

    fn body(&self, owner: DefId, body: &Body<'tcx>, id: &str, kind: &str) -> String {
        let tcx = self.tcx;
        let mut s = String::new();
        let _ = write!(s, "{{\"id\":{},\"kind\":{},\"span\":{},\"argc\":{},\"locals\":[", esc(id), esc(kind), esc(&self.span(body.span)), body.arg_count);
        for (i, d) in body.local_decls.iter().enumerate() { if i > 0 { s.push(','); } s.push_str(&self.ty(d.ty)); }
        s.push_str("],\"blocks\":[");
        for (bi, bb) in body.basic_blocks.iter().enumerate() {
            if bi > 0 { s.push(','); }
            let _ = write!(s, "{{\"cleanup\":{},\"stmts\":[", bb.is_cleanup);
            let mut first = true;
            for st in &bb.statements {
                let txt = match &st.kind {
                    StatementKind::Assign(b) => Some(format!("{{\"k\":\"assign\",\"place\":{},\"rv\":{},\"span\":{},\"exp\":{}}}", self.place(body, &b.0), self.rvalue(owner, body, &b.1), esc(&self.span(st.source_info.span)), st.source_info.span.from_expansion())),
                    StatementKind::SetDiscriminant { place, variant_index } => Some(format!("{{\"k\":\"setdiscr\",\"place\":{},\"variant\":{}}}", self.place(body, place), variant_index.as_usize())),
                    StatementKind::Intrinsic(i) => Some(format!("{{\"k\":\"intrinsic\",\"txt\":{}}}", esc(&format!("{:?}", i)))),
                    _ => None,
                };
                if let Some(t) = txt { if !first { s.push(','); } first = false; s.push_str(&t); }
            }
            s.push_str("],\"term\":");
            let term = bb.terminator();
            let sp = esc(&self.span(term.source_info.span));
            let exp = term.source_info.span.from_expansion();
            let t = match &term.kind {
                TerminatorKind::Goto { target } => format!("{{\"k\":\"goto\",\"t\":{}}}", target.as_usize()),
                TerminatorKind::SwitchInt { discr, targets } => {
                    let ts: Vec<String> = targets.iter().map(|(v, b)| format!("[{},{}]", v, b.as_usize())).collect();
                    format!("{{\"k\":\"switch\",\"discr\":{},\"targets\":[{}],\"otherwise\":{},\"span\":{}}}", self.operand(owner, body, discr), ts.join(","), targets.otherwise().as_usize(), sp)
                }
                TerminatorKind::Return => "{\"k\":\"return\"}".into(),
                TerminatorKind::Unreachable => "{\"k\":\"unreachable\"}".into(),
                TerminatorKind::UnwindResume => "{\"k\":\"resume\"}".into(),
                TerminatorKind::UnwindTerminate(_) => "{\"k\":\"terminate\"}".into(),
                TerminatorKind::Drop { place, target, unwind, .. } => {
                    let pty = place.ty(&body.local_decls, tcx).ty;
                    let env = TypingEnv::post_analysis(tcx, owner);
                    format!("{{\"k\":\"drop\",\"place\":{},\"ty\":{},\"has_param\":{},\"needs_drop\":{},\"t\":{},\"unwind\":{},\"span\":{}}}", self.place(body, place), self.ty(pty), pty.has_param(), pty.needs_drop(tcx, env), target.as_usize(), self.unwind(unwind), sp)
                }
                TerminatorKind::Call { func, args, destination, target, unwind, .. } => {
                    let a: Vec<String> = args.iter().map(|o| self.operand(owner, body, &o.node)).collect();
                    format!("{{\"k\":\"call\",\"callee\":{},\"args\":[{}],\"dest\":{},\"t\":{},\"unwind\":{},\"span\":{},\"exp\":{}}}", self.callee(owner, body, func), a.join(","), self.place(body, destination), target.map(|t| t.as_usize().to_string()).unwrap_or("null".into()), self.unwind(unwind), sp, exp)
                }
                TerminatorKind::Assert { cond, expected, target, unwind, msg } => {
                    format!("{{\"k\":\"assert\",\"cond\":{},\"expected\":{},\"t\":{},\"unwind\":{},\"msg\":{},\"span\":{}}}", self.operand(owner, body, cond), expected, target.as_usize(), self.unwind(unwind), esc(&format!("{:?}", msg).chars().take(60).collect::<String>()), sp)
                }
                TerminatorKind::FalseEdge { real_target, .. } => format!("{{\"k\":\"goto\",\"t\":{}}}", real_target.as_usize()),
                TerminatorKind::FalseUnwind { real_target, .. } => format!("{{\"k\":\"goto\",\"t\":{}}}", real_target.as_usize()),
                other => format!("{{\"k\":\"other\",\"txt\":{}}}", esc(&format!("{:?}", other).chars().take(80).collect::<String>())),
            };
            s.push_str(&t);
            s.push('}');
        }
        s.push_str("]}");
        s
    }
}

struct Cb;
impl rustc_driver::Callbacks for Cb {
    fn after_analysis<'tcx>(&mut self, _c: &rustc_interface::interface::Compiler, tcx: TyCtxt<'tcx>) -> Compilation {
        let krate = tcx.crate_name(rustc_hir::def_id::LOCAL_CRATE).to_string();
        if krate != "bumpalo" { return Compilation::Continue; }
        let cx = Cx { tcx };
        let mut out = String::from("{\"bodies\":[\n");
        let mut n = 0;
        for ldid in tcx.mir_keys(()) {
            let did = ldid.to_def_id();
            let kind = tcx.def_kind(did);
            let k = match kind { DefKind::Fn => "fn", DefKind::AssocFn => "assoc_fn", DefKind::Closure => "closure", DefKind::Static { .. } => "static", _ => continue };
            if kind == (DefKind::Static { safety: rustc_hir::Safety::Safe, mutability: rustc_hir::Mutability::Not, nested: false }) || matches!(kind, DefKind::Static{..}) {
                let body = tcx.mir_for_ctfe(did);
                if n > 0 { out.push_str(",\n"); } n += 1;
                out.push_str(&cx.body(did, body, &tcx.def_path_str(did), k));
                continue;
            }
            let body = tcx.optimized_mir(did);
            if n > 0 { out.push_str(",\n"); } n += 1;
            out.push_str(&cx.body(did, body, &tcx.def_path_str(did), k));
            let promoted = tcx.promoted_mir(did);
            for (pi, pb) in promoted.iter_enumerated() {
                out.push_str(",\n"); n += 1;
                out.push_str(&cx.body(did, pb, &format!("{}::promoted[{}]", tcx.def_path_str(did), pi.as_usize()), "promoted"));
            }
        }
        out.push_str("\n]}\n");
        let path = std::env::var("BUMPSCAN_OUT").unwrap_or_else(|_| "/tmp/bumpscan.json".into());
        std::fs::write(&path, out).unwrap();
        eprintln!("bumpscan: wrote {} bodies to {}", n, path);
        Compilation::Continue
    }
}

fn main() {
    let mut args: Vec<String> = std::env::args().collect();
    if args.len() > 1 && args[1].ends_with("rustc") { args.remove(1); }
    rustc_driver::run_compiler(&args, &mut Cb);
}
