#!/usr/bin/env python3
"""tools/mutsweep.py gen <outdir> [N] [seed]      -- mechanical one-token mutants of /repo's sources (patch files)
tools/mutsweep.py test <outdir> [workers]         -- keep the ones that build and pass the crate's own tests
                                                     (default-feature suite = the pinned baseline, and the all-feature suite)

Development aid for DESIGN section 13.6: the survivors (changes the test suite cannot see) are then run through
every rule pack with tools/eqmatrix.py; the ones no pack reports are triaged by hand into "equivalent" and "blind spot".
Nothing here is part of a registered check; scratch copies live under <outdir> (use a directory under /tmp)."""
import concurrent.futures, json, os, random, re, shutil, subprocess, sys

REPO = os.environ.get('BUMPALO_REPO', '/repo')
FILES = ['src/lib.rs', 'src/alloc.rs', 'src/boxed.rs', 'src/collections/vec.rs', 'src/collections/string.rs', 'src/collections/raw_vec.rs',
         'src/collections/collect_in.rs', 'src/collections/str/lossy.rs']
FEATS = 'collections,boxed,allocator-api2,std,serde'

OPS = [
    ('rel', r' < ', ' <= '), ('rel', r' <= ', ' < '), ('rel', r' > ', ' >= '), ('rel', r' >= ', ' > '),
    ('eq', r' == ', ' != '), ('eq', r' != ', ' == '),
    ('arith', r' \+ 1\b', ''), ('arith', r' - 1\b', ''), ('arith', r' \+ ', ' - '), ('arith', r' - ', ' + '),
    ('arith', r'\+= ', '-= '), ('arith', r'-= ', '+= '),
    ('wrap', r'checked_add\(', 'wrapping_add('), ('wrap', r'checked_mul\(', 'wrapping_mul('), ('wrap', r'wrapping_sub\(', 'wrapping_add('),
    ('wrap', r'wrapping_add\(', 'wrapping_sub('), ('wrap', r'checked_sub\(', 'wrapping_sub('),
    ('bool', r' && ', ' || '), ('bool', r' \|\| ', ' && '), ('bool', r'\bif !', 'if '), ('bool', r'\btrue\b', 'false'), ('bool', r'\bfalse\b', 'true'),
    ('minmax', r'\bmax\(', 'min('), ('minmax', r'\bmin\(', 'max('),
    ('const', r'\b0\b', '1'), ('const', r'\b1\b', '2'),
    ('ptr', r'\.add\(', '.sub('), ('ptr', r'\.sub\(', '.add('),
    ('del', None, None),
]
# second operator set (MUTSWEEP_OPS=2): copy-paste slips - a sibling identifier, a flipped predicate, swapped bounds,
# a different-but-similar std method, an assignment deleted
OPS2 = [
    ('pred', r'\.is_some\(\)', '.is_none()'), ('pred', r'\.is_none\(\)', '.is_some()'), ('pred', r'\.is_ok\(\)', '.is_err()'), ('pred', r'\.is_err\(\)', '.is_ok()'),
    ('pred', r'(?<![!\w.])(\w+(?:\.\w+)*)\.is_empty\(\)', r'!\1.is_empty()'),
    ('ord', r'Ordering::Less', 'Ordering::Greater'), ('ord', r'Ordering::Greater', 'Ordering::Less'), ('ord', r'Ordering::Equal', 'Ordering::Less'),
    ('bound', r'\bIncluded\(', 'Excluded('), ('bound', r'\bExcluded\(', 'Included('), ('bound', r'\.\.=', '..'),
    ('sat', r'saturating_sub\(', 'wrapping_sub('), ('sat', r'saturating_add\(', 'wrapping_add('), ('sat', r'checked_add\(', 'checked_sub('),
    ('szal', r'size_of::<', 'align_of::<'), ('szal', r'\.size\(\)', '.align()'), ('szal', r'\.align\(\)', '.size()'),
    ('sib', r'\bold_layout\b', 'new_layout'), ('sib', r'\bnew_layout\b', 'old_layout'), ('sib', r'\bold_size\b', 'new_size'), ('sib', r'\bnew_size\b', 'old_size'),
    ('sib', r'\bstart\b', 'end'), ('sib', r'\bend\b', 'start'), ('sib', r'\bsrc\b', 'dst'), ('sib', r'\bdst\b', 'src'),
    ('sib', r'\btail_start\b', 'tail_len'), ('sib', r'\btail_len\b', 'tail_start'), ('sib', r'\bidx\b', 'del'), ('sib', r'\bdel\b', 'idx'),
    ('sib', r'\bold_len\b', 'len'), ('sib', r'\bother_len\b', 'len'), ('sib', r'\bused_cap\b', 'needed_extra_cap'), ('sib', r'\bneeded_extra_cap\b', 'used_cap'),
    ('sib', r'\bself\.len\b(?!\()', 'self.cap'), ('sib', r'\.len\(\)', '.capacity()'), ('sib', r'\.capacity\(\)', '.len()'), ('sib', r'\.cap\(\)', '.len()'),
    ('sib', r'\bnext_back\(', 'next('), ('sib', r'\bsplit_at\b', 'split_at'), ('sib', r'\.ptr\b(?!\()', '.data'), ('sib', r'\.data\b(?!\()', '.ptr'),
    ('sib', r'\bcopy_nonoverlapping\(', 'copy('), ('sib', r'ptr::copy\(', 'ptr::copy_nonoverlapping('),
    ('swap', r'\b(copy(?:_nonoverlapping)?)\(([^,()]+(?:\([^()]*\))?[^,()]*), ([^,()]+(?:\([^()]*\))?[^,()]*),', r'\1(\3, \2,'),
    ('shift', r' \* 2\b', ' * 1'), ('shift', r' / 2\b', ' / 1'), ('shift', r' << ', ' >> '), ('shift', r' >> ', ' << '),
    ('const', r'\b2\b', '3'), ('const', r'\b8\b', '4'), ('const', r'\b16\b', '8'),
    ('del', None, None),
]
if os.environ.get('MUTSWEEP_OPS') == '2':
    OPS = OPS2
DEL = re.compile(r'^\s+(self|this|ptr|mem|core|other|slot|guard|vec|string)[\w.:<>]*\(.*\);\s*$')
if os.environ.get('MUTSWEEP_OPS') == '2':
    # assignments / compound assignments (not `let`): the statement is dropped
    DEL = re.compile(r'^\s+(\*?[\w.]+(?:\[[^\]]*\])?) (=|\+=|-=) [^=].*;\s*$')


def code_lines(path):
    """(index, line) of lines that are code outside comments, attributes, doc tests and the unit-test module"""
    out = []
    in_tests = False
    with open(path) as fh:
        lines = fh.read().split('\n')
    for i, l in enumerate(lines):
        s = l.strip()
        if s.startswith('#[cfg(test)]'):
            in_tests = True
        if in_tests:
            continue
        if not s or s.startswith('//') or s.startswith('#') or s.startswith('*') or s.startswith('/*'):
            continue
        if 'debug_assert' in s or s.startswith('use ') or s.startswith('pub use '):
            continue
        code = l.split('//')[0]
        out.append((i, code, l))
    return lines, out


def gen(outdir, n, seed):
    rnd = random.Random(seed)
    cands = []
    for f in FILES:
        lines, cl = code_lines(os.path.join(REPO, f))
        for i, code, full in cl:
            for kind, pat, rep in OPS:
                if kind == 'del':
                    if DEL.match(full):
                        cands.append((f, i, kind, None, None, 0))
                    continue
                for k, m in enumerate(re.finditer(pat, code)):
                    cands.append((f, i, kind, pat, rep, k))
    rnd.shuffle(cands)
    # stratify: at most n/ len(kinds) * 2 per kind so that constants / arithmetic do not swamp the rest
    per_kind = {}
    chosen = []
    cap = max(4, 2 * n // len({o[0] for o in OPS}))
    for c in cands:
        if per_kind.get(c[2], 0) >= cap:
            continue
        per_kind[c[2]] = per_kind.get(c[2], 0) + 1
        chosen.append(c)
        if len(chosen) >= n:
            break
    os.makedirs(os.path.join(outdir, 'mutants'), exist_ok=True)
    for idx, (f, i, kind, pat, rep, k) in enumerate(chosen):
        with open(os.path.join(REPO, f)) as fh:
            lines = fh.read().split('\n')
        old = lines[i]
        if kind == 'del':
            new = None
        else:
            code = old.split('//')[0]
            ms = list(re.finditer(pat, code))
            m = ms[k]
            new = old[:m.start()] + (m.expand(rep) if '\\' in rep else rep) + old[m.end():]
        mod = lines[:i] + ([] if new is None else [new]) + lines[i + 1:]
        tmp = os.path.join(outdir, 'tmp.rs')
        with open(tmp, 'w') as fh:
            fh.write('\n'.join(mod))
        d = subprocess.run(['diff', '-u', '--label', 'a/' + f, '--label', 'b/' + f, os.path.join(REPO, f), tmp], capture_output=True, text=True).stdout
        name = 'M%03d' % idx
        with open(os.path.join(outdir, 'mutants', name + '.diff'), 'w') as fh:
            fh.write('diff --git a/%s b/%s\n' % (f, f) + d)
        with open(os.path.join(outdir, 'mutants', name + '.json'), 'w') as fh:
            json.dump({'file': f, 'line': i + 1, 'kind': kind, 'old': old.strip(), 'new': None if new is None else new.strip()}, fh)
    os.remove(os.path.join(outdir, 'tmp.rs'))
    print(len(cands), 'candidates,', len(chosen), 'written; per kind', per_kind)


def sh(cmd, cwd, env, timeout):
    # own process group: a mutant whose (doc) test never terminates must not survive the timeout as an orphan
    import signal
    p = subprocess.Popen(cmd, cwd=cwd, env=env, stdout=subprocess.PIPE, stderr=subprocess.STDOUT, text=True, start_new_session=True)
    try:
        out, _ = p.communicate(timeout=timeout)
        return p.returncode, (out or '')[-1500:]
    except subprocess.TimeoutExpired:
        try:
            os.killpg(p.pid, signal.SIGKILL)
        except ProcessLookupError:
            pass
        p.wait()
        return 124, 'timeout'


def test_one(args):
    outdir, name, w = args
    wd = os.path.join(outdir, 'w%d' % w)
    repo = os.path.join(wd, 'repo')
    if not os.path.exists(repo):
        os.makedirs(wd, exist_ok=True)
        subprocess.run(['rsync', '-a', '--exclude', 'target', '--exclude', '.git', REPO + '/', repo + '/'], check=True)
    else:
        subprocess.run(['rsync', '-a', '--delete', REPO + '/src/', repo + '/src/'], check=True)
    p = os.path.join(outdir, 'mutants', name + '.diff')
    if subprocess.run(['patch', '-p1', '-s', '-i', p], cwd=repo, capture_output=True).returncode != 0:
        return name, 'noapply', ''
    env = dict(os.environ)
    env.update({'CARGO_NET_OFFLINE': 'true', 'CARGO_TARGET_DIR': os.path.join(wd, 'target'), 'RUSTFLAGS': '-Awarnings -Adangerous_implicit_autorefs'})
    rc, out = sh(['cargo', 'build', '-j', '3', '--offline', '-q', '--features', FEATS], repo, env, 600)
    if rc != 0:
        return name, 'stillborn', out[-300:]
    rc, out = sh(['cargo', 'test', '-j', '3', '--offline', '-q', '--features', FEATS, '--lib', '--tests'], repo, env, 900)
    if rc != 0:
        return name, 'killed:tests', ''
    rc, out = sh(['cargo', 'test', '-j', '3', '--offline', '-q', '--workspace', '--no-fail-fast'], repo, env, 900)
    if rc != 0:
        return name, 'killed:baseline', ''
    rc, out = sh(['cargo', 'test', '-j', '3', '--offline', '-q', '--features', FEATS, '--doc'], repo, env, 1500)
    if rc != 0:
        return name, 'killed:doctests', ''
    return name, 'survived', ''


def test(outdir, workers):
    names = sorted(f[:-5] for f in os.listdir(os.path.join(outdir, 'mutants')) if f.endswith('.diff'))
    resf = os.path.join(outdir, 'results.json')
    res = json.load(open(resf)) if os.path.exists(resf) else {}
    todo = [n for n in names if n not in res]
    import queue
    free = queue.Queue()
    for w in range(workers):
        free.put(w)

    def run(n):
        w = free.get()
        try:
            return test_one((outdir, n, w))
        finally:
            free.put(w)
    with concurrent.futures.ThreadPoolExecutor(max_workers=workers) as ex:
        for name, verdict, tail in ex.map(run, todo):
            res[name] = verdict
            print(name, verdict, tail.replace('\n', ' ')[:200], flush=True)
            json.dump(res, open(resf, 'w'), indent=1)
    os.makedirs(os.path.join(outdir, 'survivors'), exist_ok=True)
    for n, v in res.items():
        if v == 'survived':
            shutil.copy(os.path.join(outdir, 'mutants', n + '.diff'), os.path.join(outdir, 'survivors', n + '.diff'))
    from collections import Counter
    print(Counter(res.values()))


if __name__ == '__main__':
    if sys.argv[1] == 'gen':
        gen(sys.argv[2], int(sys.argv[3]) if len(sys.argv) > 3 else 240, int(sys.argv[4]) if len(sys.argv) > 4 else 1)
    else:
        test(sys.argv[2], int(sys.argv[3]) if len(sys.argv) > 3 else 5)
