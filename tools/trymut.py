#!/usr/bin/env python3
"""tools/trymut.py <patch.diff> <ID> [<ID>...]  -- apply a seeded edit to a scratch copy of /repo and
run the named rule packs on it; prints the violation keys (development aid, not a registered check)."""
import os, shutil, subprocess, sys, tempfile
sys.path.insert(0, os.path.dirname(os.path.dirname(os.path.abspath(__file__))))
from analysis import runner, extract

def main():
    patch = os.path.abspath(sys.argv[1]); ids = sys.argv[2:]
    reverse = False
    if '-R' in ids:
        ids.remove('-R'); reverse = True
    thorough = False
    if '--thorough' in ids:
        ids.remove('--thorough'); thorough = True
    tmp = tempfile.mkdtemp(prefix='trymut.')
    try:
        repo = os.path.join(tmp, 'repo')
        subprocess.run(['rsync', '-a', '--exclude', 'target', '--exclude', '.git', extract.REPO + '/', repo + '/'], check=True)
        cmd = ['patch', '-p1', '-s', '--no-backup-if-mismatch', '-i', patch] + (['-R'] if reverse else [])
        r = subprocess.run(cmd, cwd=repo, capture_output=True, text=True)
        if r.returncode != 0:
            print('PATCH DOES NOT APPLY', r.stdout[-300:], r.stderr[-300:]); return 3
        any_fired = False
        for pid in ids:
            ctx = runner.Ctx(pid, 'quick', 0); ctx.repo = repo
            try:
                mod = runner.run_pack(ctx)
                if thorough and hasattr(mod, 'thorough'):
                    mod.thorough(ctx)
            except SystemExit as e:
                print(pid, 'EXTRACTION FAILED', e); continue
            except Exception as e:
                import traceback
                tb = traceback.format_exc().strip().splitlines()
                print('%s: CRASH %s: %s [%s]' % (pid, type(e).__name__, str(e)[:80], ' | '.join(x.strip() for x in tb[-4:-1])[:200])); any_fired = True; continue
            known = runner.load_known()
            new = [v for v in ctx.violations if (pid, v['key']) not in known]
            print('%s: %d violations' % (pid, len(new)))
            for v in new[:8]:
                print('   ', v['key'][:150], '@', v['location'])
            any_fired |= bool(new)
        return 0 if any_fired else 1
    finally:
        shutil.rmtree(tmp, ignore_errors=True)
sys.exit(main())
