#!/usr/bin/env python3
"""tools/unmodelled.py <patch.diff>...  -- std functions called by the patched tree (rel-all) that the interpreter has no model
for and that the unpatched tree does not call (development aid: an unmodelled std API is the usual reason a correct
refactoring is reported)."""
import os, shutil, subprocess, sys, tempfile
sys.path.insert(0, os.path.dirname(os.path.dirname(os.path.abspath(__file__))))
from analysis import runner, extract, stdmodel

def callees(repo):
    ctx = runner.Ctx('C01', 'quick', 0)
    if repo: ctx.repo = repo
    db = ctx.db('rel-all')
    out = {}
    for b in db.fn_bodies():
        for bi, t in db.calls(b):
            c = t['callee']
            if c.get('local'): continue
            p = c.get('path') or ''
            rp = (c.get('resolved') or {}).get('path') or ''
            out.setdefault(p, set()).add(b['id'].split('::')[-1])
            if rp and rp != p: out.setdefault(rp, set()).add(b['id'].split('::')[-1])
    return out

base = callees(None)
for patch in sys.argv[1:]:
    tmp = tempfile.mkdtemp(prefix='unm.')
    try:
        repo = os.path.join(tmp, 'repo')
        subprocess.run(['rsync', '-a', '--exclude', 'target', '--exclude', '.git', extract.REPO + '/', repo + '/'], check=True)
        if subprocess.run(['patch', '-p1', '-s', '--no-backup-if-mismatch', '-i', os.path.abspath(patch)], cwd=repo).returncode: print('noapply', patch); continue
        cs = callees(repo)
        new = sorted(p for p in cs if p not in base)
        print('==', os.path.basename(patch))
        for p in new:
            print('   %s %-90s in %s' % ('model ' if p in stdmodel.TABLE else 'OPAQUE', p, sorted(cs[p])[:4]))
    finally:
        shutil.rmtree(tmp, ignore_errors=True)
