#!/usr/bin/env python3
"""tools/confirm_seed.py <delivery dir> [--store] [--demo-cmd "<cmd>"]

Re-confirms an independently written regression (development aid, not a registered check):
the delivery dir holds patch.diff, demo/ (cargo project depending on bumpalo by path) and notes.md.
In a scratch git worktree of /repo (outside /repo and /verif, removed afterwards):
  1. patch applies with git apply to HEAD,
  2. default-feature and all-feature builds succeed,
  3. the pinned suite (cargo test --workspace --no-fail-fast --offline) passes with the patch,
  4. the demo fails with the patch and passes without it.
With --store the delivery is copied to /verif/seeded/<name>/ (demo path rewritten to /repo) with meta.json.
"""
import json, os, re, shutil, subprocess, sys, tempfile

FEATS = 'collections,boxed,std,serde,allocator-api2'

def sh(cmd, cwd, env=None, timeout=1800):
    e = dict(os.environ); e['CARGO_NET_OFFLINE'] = 'true'
    if env: e.update(env)
    r = subprocess.run(cmd, shell=True, cwd=cwd, env=e, capture_output=True, text=True, timeout=timeout)
    return r.returncode, (r.stdout + r.stderr)

def main():
    args = sys.argv[1:]
    store = '--store' in args
    if store: args.remove('--store')
    demo_cmd = None
    if '--demo-cmd' in args:
        i = args.index('--demo-cmd'); demo_cmd = args[i + 1]; del args[i:i + 2]
    d = os.path.abspath(args[0]); name = os.path.basename(d.rstrip('/'))
    pid = name.split('-')[0]
    patch = os.path.join(d, 'patch.diff')
    out = {'name': name}
    tmp = tempfile.mkdtemp(prefix='confirm.' + name + '.')
    wt = os.path.join(tmp, 'wt')
    try:
        subprocess.run(['git', '-C', '/repo', 'worktree', 'add', '--detach', wt, 'HEAD'], check=True, capture_output=True)
        head = subprocess.run(['git', '-C', '/repo', 'rev-parse', '--short', 'HEAD'], capture_output=True, text=True).stdout.strip()
        rc, o = sh('git apply --index ' + patch + ' 2>&1 || git apply ' + patch, wt)
        out['patch_applies_with_git_apply'] = rc == 0
        if rc != 0:
            print(name, 'PATCH DOES NOT APPLY', o[-400:]); return 2
        files = subprocess.run(['git', '-C', wt, 'diff', 'HEAD', '--name-only'], capture_output=True, text=True).stdout.split()
        out['files'] = files
        if any(not f.startswith('src/') for f in files):
            print(name, 'patch touches non-src files', files)
        tgt = os.path.join(tmp, 'target')
        env = {'CARGO_TARGET_DIR': tgt}
        rc1, o1 = sh('cargo build --offline', wt, env)
        rc2, o2 = sh('cargo build --offline --features ' + FEATS, wt, dict(env, RUSTFLAGS='-Adangerous_implicit_autorefs'))
        out['builds_default_and_features'] = rc1 == 0 and rc2 == 0
        if rc1 or rc2:
            print(name, 'BUILD FAILS', (o1 if rc1 else o2)[-600:]); return 2
        rc, o = sh('cargo test --workspace --no-fail-fast --offline', wt, env)
        out['pinned_suite'] = re.findall(r'test result: .*', o)
        out['pinned_suite_passes_with_patch'] = rc == 0
        if rc != 0:
            print(name, 'PINNED SUITE FAILS', '\n'.join(l for l in o.splitlines() if 'FAILED' in l or 'failed' in l)[-600:]); return 2
        rc, o = sh('cargo test --offline --features ' + FEATS, wt, dict(env, RUSTFLAGS='-Adangerous_implicit_autorefs'))
        out['feature_suite_passes_with_patch'] = rc == 0
        out['feature_suite'] = re.findall(r'test result: .*', o)
        if rc != 0:
            out['feature_suite_failures'] = [l for l in o.splitlines() if l.startswith('test ') and 'FAILED' in l][:10]
        # demo
        demo = os.path.join(tmp, 'demo'); shutil.copytree(os.path.join(d, 'demo'), demo, ignore=shutil.ignore_patterns('target'))
        ct = os.path.join(demo, 'Cargo.toml')
        s = open(ct).read()
        s2 = re.sub(r'path\s*=\s*"[^"]*"', 'path = "%s"' % wt, s)
        open(ct, 'w').write(s2)
        notes = ''
        if os.path.exists(os.path.join(d, 'notes.md')): notes = open(os.path.join(d, 'notes.md')).read()
        if demo_cmd is None:
            has_main = os.path.exists(os.path.join(demo, 'src', 'main.rs')) or os.path.isdir(os.path.join(demo, 'src', 'bin'))
            if 'miri' in notes and re.search(r'cargo \+nightly miri (run|test)', notes):
                demo_cmd = re.search(r'cargo \+nightly miri (run|test)[^\n`]*', notes).group(0)
            elif has_main: demo_cmd = 'cargo run --offline'
            else: demo_cmd = 'cargo test --offline'
            m = re.search(r'RUSTFLAGS="[^"]*"', notes)
            rel = '--release' in notes and re.search(r'cargo (run|test)[^\n`]*--release', notes)
            if rel: demo_cmd += ' --release'
        denv = {'CARGO_TARGET_DIR': os.path.join(tmp, 'dtarget'), 'RUSTFLAGS': '-Adangerous_implicit_autorefs'}
        if 'miri' in demo_cmd: denv['MIRIFLAGS'] = os.environ.get('MIRIFLAGS', '')
        rcw, ow = sh(demo_cmd, demo, denv)
        sh('git checkout -- . && git reset -q --hard HEAD', wt)
        rcn, on = sh(demo_cmd, demo, denv)
        out['demo_cmd'] = demo_cmd
        out['demo_commands_with_patch'] = [[demo_cmd, rcw]]
        out['demo_commands_without_patch'] = [[demo_cmd, rcn]]
        out['demo_fails_with_and_passes_without'] = rcw != 0 and rcn == 0
        out['demo_tail_with_patch'] = ow.strip().splitlines()[-6:]
        if not out['demo_fails_with_and_passes_without']:
            print(name, 'DEMO NOT CONFIRMED with=%s without=%s' % (rcw, rcn)); print(ow[-800:]); print('--- without'); print(on[-800:]); return 2
        print(name, 'CONFIRMED', 'feature-suite=%s' % out['feature_suite_passes_with_patch'], 'demo:', demo_cmd, 'files:', files)
        if store:
            dst = os.path.join('/verif/seeded', name)
            if os.path.exists(dst): shutil.rmtree(dst)
            os.makedirs(dst)
            shutil.copy(patch, os.path.join(dst, 'patch.diff'))
            if notes: open(os.path.join(dst, 'notes.md'), 'w').write(notes)
            shutil.copytree(os.path.join(d, 'demo'), os.path.join(dst, 'demo'), ignore=shutil.ignore_patterns('target'))
            ct = os.path.join(dst, 'demo', 'Cargo.toml')
            open(ct, 'w').write(re.sub(r'path\s*=\s*"[^"]*"', 'path = "/repo"', open(ct).read()))
            title = ''
            for l in open('/verif/properties.jsonl'):
                p = json.loads(l)
                if p['id'] == pid: title = p['title']
            meta = {'property': pid, 'property_title': title, 'round': int(os.environ.get('SEED_ROUND', '6')),
                    'origin': 'independent sub-agent given only the property text, a list of the already known regressions to avoid, and a scratch worktree; theme: ' + os.environ.get('SEED_THEME', 'mutK = two cooperating sites, mutL = unusual configuration or long history'),
                    'needs_to_manifest': 'see notes.md',
                    'confirmed_by_me': dict(out, base_commit=head + ' (scratch worktree of /repo)'),
                    'demo_note': 'demo projects depend on bumpalo by path /repo: apply patch.diff to /repo (git -C /repo apply ...), run the demo command, then git -C /repo checkout -- .'}
            json.dump(meta, open(os.path.join(dst, 'meta.json'), 'w'), indent=1)
        return 0
    finally:
        subprocess.run(['git', '-C', '/repo', 'worktree', 'remove', '--force', wt], capture_output=True)
        shutil.rmtree(tmp, ignore_errors=True)

sys.exit(main())
