#!/usr/bin/env python3
"""tools/eqmatrix.py '<glob of patch.diff files>' <out.json>  -- run every rule pack on a scratch copy of /repo with each
behaviour-preserving refactoring applied; a pack that reports anything, or crashes, is an ALARM (development aid for DESIGN 13.4).
Run it from a frozen snapshot of /verif (VERIF_SNAPSHOT=<dir>) when /verif is being edited."""
import concurrent.futures, glob, json, os, subprocess, sys
VERIF = os.environ.get('VERIF_SNAPSHOT') or os.path.dirname(os.path.dirname(os.path.abspath(__file__)))
IDS = ['C%02d' % i for i in range(1, 21)]

def one(p):
    name = '/'.join(p.split('/')[-3:-1]) if p.endswith('patch.diff') else os.path.basename(p)[:-5]
    r = subprocess.run([sys.executable, os.path.join(VERIF, 'tools', 'trymut.py'), p] + IDS, capture_output=True, text=True)
    hits, keys, seen, cur = [], [], set(), None
    for l in r.stdout.splitlines():
        if l[:3] in IDS and 'violations' in l:
            cur = l.split(':')[0]
            seen.add(cur)
            if not l.endswith(': 0 violations'):
                hits.append(cur)
        elif l.startswith('    ') and cur:
            keys.append(l.strip()[:160])
        if l[:3] in IDS and ': CRASH ' in l:
            seen.add(l[:3]); hits.append('CRASH:' + l[:3]); keys.append(l[:200])
        if 'EXTRACTION FAILED' in l or 'PATCH DOES NOT APPLY' in l:
            keys.append(l)
            hits.append('ERROR')
    missing = [i for i in IDS if i not in seen]
    if missing and 'PATCH DOES NOT APPLY' not in r.stdout:
        # trymut died in the first of these packs (an exception in a rule): that is an alarm, not silence
        hits.append('CRASH:' + missing[0])
        keys.append((r.stderr or '').strip().splitlines()[-1][:160] if r.stderr.strip() else 'no output')
    return name, hits, keys

def main():
    ps = sorted(glob.glob(sys.argv[1]))
    out = {}
    with concurrent.futures.ThreadPoolExecutor(max_workers=int(os.environ.get('MATRIX_WORKERS', '6'))) as ex:
        for name, hits, keys in ex.map(one, ps):
            print(name, 'ALARMS' if hits else 'silent', ','.join(hits), flush=True)
            for k in keys[:12]:
                print('      ', k, flush=True)
            out[name] = {'hits': hits, 'keys': keys}
    json.dump(out, open(sys.argv[2], 'w'), indent=1)
main()
