#!/usr/bin/env python3
"""tools/matrix.py [<seeded dir name>...]  -- run every rule pack (quick tier) on a scratch copy of /repo with each seeded
change applied; prints which packs report a new violation (development aid for DESIGN section 13)."""
import concurrent.futures, glob, json, os, subprocess, sys
VERIF = os.path.dirname(os.path.dirname(os.path.abspath(__file__)))
IDS = ['C%02d' % i for i in range(1, 21)]
KEYS = {}
WORKERS = int(os.environ.get('MATRIX_WORKERS', '5'))
OUT = os.environ.get('MATRIX_OUT', '/tmp/matrix-result.json')

def one(d):
    name = os.path.basename(d)
    r = subprocess.run([sys.executable, os.path.join(VERIF, 'tools', 'trymut.py'), os.path.join(d, 'patch.diff')] + IDS, capture_output=True, text=True)
    hits = []
    keys = {}
    cur = None
    for l in r.stdout.splitlines():
        if l[:3] in IDS and 'violations' in l:
            cur = l.split(':')[0]
            if not l.endswith(': 0 violations'):
                hits.append(cur)
        elif l.startswith('    ') and cur:
            keys.setdefault(cur, []).append(l.strip()[:160])
    # a pack whose only reports are floor counts did not decide anything about the change
    hits = [h for h in hits if not keys.get(h) or any('<floor>' not in k for k in keys[h])]
    KEYS[name] = keys
    return name, hits, r.stdout[-400:] if not hits else ''

def main():
    names = sys.argv[1:]
    dirs = sorted(glob.glob(os.path.join(VERIF, 'seeded', '*')))
    if names:
        dirs = [d for d in dirs if os.path.basename(d) in names]
    out = {}
    with concurrent.futures.ThreadPoolExecutor(max_workers=WORKERS) as ex:
        for name, hits, tail in ex.map(one, dirs):
            own = name.split('-')[0]
            print('%-10s own=%s caught_by=%s%s' % (name, 'yes' if own in hits else 'NO', ','.join(hits) or '-', ('  ' + tail.replace('\n', ' | ')) if tail else ''), flush=True)
            out[name] = hits
    json.dump(out, open(OUT, 'w'), indent=1)
    json.dump(KEYS, open(OUT.replace('.json', '-keys.json'), 'w'), indent=1)
main()
