#!/usr/bin/env python3
"""Regenerate MANIFEST.json from the table below (keeps it schema-valid at all times)."""
import json, os
V = os.path.dirname(os.path.dirname(os.path.abspath(__file__)))
props = [json.loads(l) for l in open(os.path.join(V, 'properties.jsonl'))]

TRUSTED = ("Trusted base: rustc's MIR construction and trait resolution on the installed nightly (facts are extracted from the type-checked program, release-like flags, "
           "mir-opt-level=0); the bumpscan extractor; the TermFlow std-function table (analysis/stdmodel.py); the lemma library (analysis/prover.py) and its stated assumptions "
           "A1-A4/J/U which are themselves obligations of other rules. Incomplete by design: an exotic but correct rewrite can yield 'cannot establish' (fail closed).")

CLAIMS = {
 'C01': dict(tech='abstract interpretation of MIR (symbolic terms + must-facts) with a fixed lemma library; who-may-call inventory',
   text='Decides the bump-pointer discipline for every history: each of the ways a chunk finger can change (classified BUMP/RECLAIM/SAVED/EMPTY over all inlined entry points) has its in-bounds, ordering, alignment and gating obligations discharged, the footer of every new chunk is proved to lie inside and at the end of the block obtained from the global allocator and to fit the request, and only one function each may call the global alloc/dealloc. This is a necessary condition of non-overlap/in-bounds that holds for all inputs and MIN_ALIGN values (MIN_ALIGN is symbolic); whole-history disjointness itself is the induction over these per-operation facts and is argued, not computed.',
   ref='DESIGN.md section 4 C01, section 3'),
 'C03': dict(tech='who-may-call inventory + term-identity pairing + CFG/dataflow path rules over inlined entry points',
   text='Decides for every path: chunks are acquired by one function and released by one function; what the footer records is exactly what was passed to/returned by the global alloc, and dealloc gets exactly the recorded pair of one footer; the sentinel is excluded at every dealloc; nothing touches a chunk after it is freed in the releaser loop; the releaser is only called from Drop (whole list, every path) and from &mut self methods after detaching the tail; no path drops a successfully acquired chunk before publishing it. Fault sequences of the global allocator beyond the null check are not explored.',
   ref='DESIGN.md section 4 C03'),
 'C04': dict(tech='abstract interpretation of MIR with alignment lemmas; must-fact gating of constructors; rustc type-layout facts',
   text='Proves for symbolic MIN_ALIGN and symbolic layouts: every value stored into a bump finger is MIN_ALIGN-aligned; every success value returned by try_alloc_layout, Alloc::{alloc,realloc} and Allocator::{allocate,shrink,grow,grow_zeroed} is aligned to the requested and the minimum alignment on each return alternative; chunks are requested with an alignment divisible by CHUNK_ALIGN, MIN_ALIGN and the request alignment; every constructed arena passed both MIN_ALIGN assertions; the static empty chunk is CHUNK_ALIGN-aligned.',
   ref='DESIGN.md section 4 C04'),
 'C06': dict(tech='CFG must-pass-through + TermFlow store classification on Bump::reset; who-may-write inventory',
   text='Decides for every path through reset(): the only no-op path is the is_empty(current chunk) early return and nothing is stored or released before that test; every other path detaches the tail (cur.prev := sentinel), hands exactly that tail to the releaser, stores the footer address (EMPTY class = full usable capacity) into the kept chunk\'s finger and re-establishes allocated_bytes; reset writes no field of Bump, and allocation_limit is written only by constructors and set_allocation_limit. Capacity served after reset for arbitrary later requests is C01/C18 arithmetic, not re-derived here.',
   ref='DESIGN.md section 4 C06'),
 'C08': dict(tech='TermFlow linear-term equalities at every store of the accounting field; accessor term checks',
   text='Proves the accounting invariant J4 at each of the three places the counter is written (new chunk: prev.allocated_bytes + (layout.size - FOOTER_SIZE) with prev the footer stored in .prev; reset: layout.size - FOOTER_SIZE with prev just set to the sentinel; sentinel: 0), that only chunk-acquiring/releasing functions write it, that allocated_bytes() loads the current footer\'s counter and that allocated_bytes_including_metadata() adds count(raw chunk iterator from the current footer) * size_of::<ChunkFooter>(). With/without-footer sizes are distinct terms, so a wrong constant or a padded size is reported. Agreement with an external allocator ledger is implied (with C01.J3, C03.R2), not observed.',
   ref='DESIGN.md section 4 C08'),
 'C20': dict(tech='effect analysis: static/shared-state inventory + must-fact guard at every footer store (TermFlow) + auto-trait impl inventory',
   text='Decides absence of shared mutable state, which is what every schedule and interleaving depends on: no mutable or interior-mutable static other than the empty-chunk sentinel, no atomics/thread-locals/locks anywhere in the crate, and every store to any chunk-footer field in every inlined arena entry point is dominated by the false edge of is_empty(F) for the same footer (or targets a footer created in the same call), so the sentinel shared by all chunk-less arenas on all threads is never written; Bump is Send for every MIN_ALIGN, has no Sync impl and has Cell fields. Schedules themselves are not explored.',
   ref='DESIGN.md section 4 C20'),
 'C07': dict(tech='abstract interpretation of MIR with a symbolic allocation limit; who-may-read inventory',
   text='Proves the limit property in its semantic form for every path: each arena entry point that can reach the acquirer is analysed with allocation_limit = Some(LIMIT) for a symbolic LIMIT, and at every call of the global alloc the facts of the path must entail n <= saturating_sub(LIMIT, allocated_bytes), n being exactly what the acquirer adds to the counter for that chunk and allocated_bytes the counter of the arena being extended (so n == 0 or held + n <= LIMIT); with limit = None the acquirer is still reached. The fast path, dealloc, shrink and grow never read the limit; set_allocation_limit/allocation_limit agree on the field. Which candidate size is chosen under the small-limit bypass is not decided.',
   ref='DESIGN.md section 4 C07'),
 'C10': dict(tech='TermFlow term identities on the iterator code + finger-store classification and exact-bump obligations',
   text='Decides the structural content of the property: the per-chunk item is exactly (finger, footer - finger); the raw iterator starts at the current chunk, stops only at the sentinel, advances along prev; the safe iterator yields the same pairs and needs &mut self; no finger store can make iteration report never-allocated bytes or hide live ones (no FULL/OTHER store, reclaim bounded by the released block), and every bump lowers the finger by exactly the rounded size below the aligned old finger, which is the per-step fact behind no-padding for uniform histories. The inductive statement over whole histories is argued from these, not computed.',
   ref='DESIGN.md section 4 C10'),
 'C11': dict(tech='TermFlow with the user callback as an opaque havocking call: must-fact gating, term identity, store classification',
   text='Decides for every path of alloc_try_with / try_alloc_try_with / alloc_slice_try_fill_with: the initialiser is only called under the success fact of the reservation; the error is moved out of the slot by exactly one ptr::read and is the value returned; the Err arm rewinds with a SAVED store (finger loaded before the reservation, same chunk) or an EMPTY store (footer address, fresh chunk), both gated by is_last_allocation(result) and re-establishing the chunk invariant; the slice variant releases exactly the pointer/layout it reserved, only on the callback Err edge, and returns the callback error. That the next identical request is served without the global allocator follows from these plus C01/C18 and is not separately observed.',
   ref='DESIGN.md section 4 C11'),
 'C12': dict(tech='TermFlow on the Allocator/Alloc impls: argument/term identity, alignment lemmas, copy-discipline proofs (fresh block or halving lemma), CFG error-path rule',
   text='Decides the glue and the per-operation obligations of the allocator contract for symbolic layouts and MIN_ALIGN: forwarded arguments and returned slice lengths, zero-fill of exactly [old.size..], realloc dispatch; returned blocks aligned to the new layout and MIN_ALIGN; chunk invariant at every finger store including deallocate (never reclaims past the released block); in-place grow requested with the right size/alignment under the right gate; copy counts equal min(old,new); every copy_nonoverlapping has a disjointness proof, otherwise it must be ptr::copy; no store/copy precedes an Err return. That std collections over the allocator behave identically is not decided.',
   ref='DESIGN.md section 4 C12'),
 'C09': dict(tech='TermFlow feasible-panic-site inventory against a justified table; must-fact failure atomicity; sibling comparison; termination measure on the retry generator',
   text='Decides for all 15 public try_* methods: the panic/abort/unreachable sites that remain feasible after inlining and path-fact pruning are exactly the five justified ones; every store to the arena or an existing footer on the slow path is under the acquirer\'s success fact and no acquired chunk is dropped on a failing path (so Err leaves the arena holding what it held); each infallible sibling differs only by the out-of-memory panic on the failure edge of the same core; the candidate generator of the halving retry strictly decreases a lexicographic (flag, size) measure on every Some path, so the retry terminates under any refusal pattern. Debug-build-only assertion panics are inventoried in the thorough tier, not discharged; abort-freedom of std/global allocator is assumed.',
   ref='DESIGN.md section 4 C09'),
 'C18': dict(tech='TermFlow formulas: strict-refusal edge facts, term identities for capacity/growth expressions',
   text='Decides the formulas the property rests on: the bumping function refuses only under capacity < need strictly (exact fits are served; capacity is finger - data, the same term chunk_capacity() returns); the capacity constructor sizes its chunk for round_up(capacity, MIN_ALIGN) and starts it empty; the slow path starts from max(2 * usable size of the current chunk, request, default) and only halves, and each chunk is at least its candidate; RawVec grows to max(2*cap, used+extra) with a checked sum; with_capacity_in records the requested capacity and push reserves only when len == cap. The logarithmic request count and constant-factor overhead are asymptotic consequences that are not computed.',
   ref='DESIGN.md section 4 C18'),
 'C05': dict(tech='compile-fail/compile-pass witnesses decided by rustc (borrow checker, trait solver) + signature region rule over fn_sig + call-graph Send/Sync audit',
   text='The oracle is the compiler: a generated matrix of client programs (every public lifetime-carrying value kind x outlive / use-after-reset / move-away / across-iteration / thread-sharing misuse, plus Send/Sync bound probes) is type-checked against the crate built from the current tree; each misuse must be rejected with the expected error code while its legal twin compiles, and the ordinary patterns must compile. Beyond the finite matrix, two rules quantify over the whole public API: every region in a safe public function\'s return type occurs in a parameter type (no caller-chosen lifetime), and every public type rustc accepts as Send/Sync has no self-taking entry point (incl. Drop) that reaches an arena entry point in the call graph.',
   ref='DESIGN.md section 4 C05'),
 'C16': dict(tech='panic-safety typestate (Rudra-style) over CFGs with TermFlow-classified commit/hole operations and a transitive may-call-user summary',
   text='Decides, for every function of the collections, Box and the arena fill/initialiser methods and for every site where user code may run and unwind (269 sites on the reference tree): no length or cursor has been advanced without an initialised/processed slot behind it, the slot being destroyed is already outside the length, and no moved-out or duplicated slot is exposed unless the length was zeroed first or a guard whose Drop restores the length covers it. These ordering facts are necessary conditions for no-double-drop / valid-UTF-8 after unwinding; they hold per loop iteration for all inputs. The full crash-point x follow-up enumeration is not performed, and guards are trusted to compute their length from fields that obey the ordering.',
   ref='DESIGN.md section 4 C16'),
 'C15': dict(tech='drop-elaboration inventory on MIR (Drop terminators) + panic-safety typestate evaluated at normal returns + dominance rules',
   text='Decides destructor-responsibility pairing: every function that takes a container by value and lets its contents flow into the result has no Drop of that argument on a normal path (forgotten, ManuallyDrop or moved); every function that moves out, drops or duplicates a buffer slot commits a length/cursor change before it returns normally (so the slot cannot be dropped again or stay reachable); Drop for Vec drops exactly (ptr, len); the iterator/drain/box types have Drop impls; a Splice writes into its vector only after exhausting its Drain; RawVec and arena reset/drop reach no element destructor. Exact drop counts for arbitrary programs (the drop ledger) are not computed.',
   ref='DESIGN.md section 4 C15'),
 'C17': dict(tech='must-fact gating via TermFlow, syntactic+resolved forwarding check over trait impls, call inventory, stale-pointer term comparison',
   text='Decides: downcast reinterprets only under is::<T>() and the array conversion only under len(slice) == N, Err arms return the original box; all 33 forwarding trait methods on Box call the same-named method of the same trait with parameters in order (one tabled exception: Iterator::last via fold); Box::new_in allocates through the arena, no Box code calls an arena deallocation entry, Drop for Box is drop_in_place of the pointee; the pointer handed out by Vec -> slice/Box conversions is the buffer pointer at the moment the vector is forgotten. Value equality with std::boxed::Box for all programs is not decided.',
   ref='DESIGN.md section 4 C17'),
 'C19': dict(tech='integer-overflow discipline: TermFlow term decomposition at size sinks with path no-overflow facts, a justified invariant table, and a reserve postcondition proof',
   text='Decides for every function (standalone, symbolic arguments) that each size reaching a sink — unchecked Layout construction, arena allocation layouts, set_len / len / cap stores, from_raw_parts lengths, copy counts, reserve amounts — contains no unchecked add/mul/shl/sum that is not justified by a checked-operation success fact on that path, by a preceding reserve on the same container, or by a tabled invariant; public arena methods allocate only with validated layouts; the RawVec reserve family\'s successful returns entail used + extra <= capacity with wrapping arithmetic kept apart from checked arithmetic; the bumping function keeps the pointer inside the chunk for every Layout. 32-bit alloc_guard behaviour is outside what can be decided here.',
   ref='DESIGN.md section 4 C19'),
 'C02': dict(tech='TermFlow term identities (extent/index agreement), copy-discipline proofs, gating of finger-raising stores',
   text='Decides the structural part: for the seven slice methods the element count reserved, the count initialised (copy count or loop bound) and the count returned are one term, writes go to reserved_base + i*size_of::<T>() with i exactly the index given to the single callback whose result is the value written (or index/value of one enumerate item); value methods write f() once at the reserved pointer; grow/shrink/realloc copy min(old,new) bytes and never copy_nonoverlapping without a disjointness proof; the default realloc copies min(old,new); every store that raises a bump finger is gated by is_last_allocation and bounded by the released block, so no live block is handed out again. Read-back equality of contents as such is a runtime-value statement and is not decided.',
   ref='DESIGN.md section 4 C02'),
 'C13': dict(tech="std's algorithms encoded as term equalities checked by TermFlow; strict/non-strict facts on panic edges; panic-safety typestate",
   text="Decides necessary conditions of agreement with std::vec::Vec that hold for all inputs: insert/remove/split_off/drain panic exactly on std's conditions (the edge into the panic carries exactly that fact); insert, remove, push, pop, swap_remove, split_off, append, extend_from_slice_copy, the drain constructor and into_iter perform exactly std's reads, writes, memmove/memcpy (source, destination, count) and length updates in std's order (49 formula clauses compared after linear normalisation over BASE + i*size_of::<T>()); reserve* forward (len, additional); every RawVec (re)allocation stores the returned pointer; the length is consistent wherever user code can unwind. Equality of results with std for every program (contents after arbitrary sequences) is a runtime-value statement and is not decided.",
   ref='DESIGN.md section 4 C13'),
 'C14': dict(tech='must-fact boundary gating, justified-class inventory of unchecked UTF-8 views, table comparison (rustc-evaluated static + HIR match patterns), byte-shift term equalities, panic-safety typestate',
   text="Decides the structural clauses behind 'always UTF-8' and agreement with std: every byte-level mutation at a caller index in truncate/remove/insert/insert_str/split_off/drain/replace_range is dominated by is_char_boundary(idx) or a checked slicing at idx; every from_utf8_unchecked / String{vec} site in safe code falls in a justified class; the width table equals RFC 3629 and the lossy decoder's arm tables equal Unicode Table 3-7 (all 65 536 byte pairs compared), with four continuation checks and U+FFFD pushed exactly for non-empty broken parts; pop/remove/insert_bytes shift exactly std's byte ranges; range bounds use checked arithmetic; the byte vector is consistent wherever user code can unwind. Equality of text with std::string::String for all programs and exhaustive decoder equivalence on all byte strings are not decided (the tables are the necessary condition).",
   ref='DESIGN.md section 4 C14'),
}

NOT_YET = 'check not built yet (build in progress, see DESIGN.md section 9)'
NA = {}

def main():
    checks = []
    for p in props:
        pid = p['id']
        if pid in CLAIMS:
            c = CLAIMS[pid]
            checks.append({
                'property_id': pid,
                'quick_cmd': './check %s quick' % pid,
                'thorough_cmd': './check %s thorough' % pid,
                'evidence_file': '/verif/evidence/%s.json' % pid,
                'replay_cmd_template': './check %s quick --replay {path}' % pid,
                'engine': 'bumpscan+termflow',
                'level_claimed': {'category': 'other', 'text': c['text'], 'design_ref': c['ref']},
                'level_note': TRUSTED,
                'technique': c['tech'],
            })
    na = [{'property_id': p['id'], 'reason': NA.get(p['id'], NOT_YET)} for p in props if p['id'] not in CLAIMS]
    m = {
        'version': 1,
        'setup_cmd': './setup.sh',
        'hooks': {'guard': 'bumpalo_verif', 'enable': "no hooks are needed: the analysis reads rustc's own view of /repo's working tree (the cfg name bumpalo_verif is reserved and unused)",
                  'baseline_off_cmd': 'cd /repo && cargo test --workspace --no-fail-fast --offline', 'source_commits': [], 'add_only': True},
        'engines': [
            {'name': 'bumpscan', 'path': 'driver/', 'serves_properties': sorted(CLAIMS), 'kind_free_text': 'rustc_private driver that dumps MIR bodies, resolved callees and type facts of the current /repo tree as JSON'},
            {'name': 'termflow', 'path': 'analysis/', 'serves_properties': sorted(CLAIMS), 'kind_free_text': 'python abstract interpreter over the MIR facts (symbolic terms, must-facts, lemma prover) and rule packs analysis/rules/cNN.py'},
        ],
        'checks': checks,
        'notes': 'Static analysis only. Genuine defects found were repaired by fix: commits in /repo and are listed in known_findings.txt (fixed: entries suppress nothing).',
        'not_applicable': na,
    }
    json.dump(m, open(os.path.join(V, 'MANIFEST.json'), 'w'), indent=1)
    print('claimed', sorted(CLAIMS), 'not claimed', len(na))
main()
