use bumpalo::{collections::String, Bump};
use std::panic::{catch_unwind, AssertUnwindSafe};
fn main() {
    let b = Bump::new();
    let mut s = String::with_capacity_in(3, &b);
    s.push_str("aXb");
    // exhaust: forbid any further chunk and fill the current one
    b.set_allocation_limit(Some(b.allocated_bytes()));
    while b.try_alloc(0u8).is_ok() {}
    let r = catch_unwind(AssertUnwindSafe(|| s.replace_range(1..2, "é")));
    println!("panicked: {}", r.is_err());
    let bytes = s.as_bytes().to_vec();
    println!("bytes: {:x?} valid utf8: {}", bytes, std::str::from_utf8(&bytes).is_ok());
    std::process::exit(if std::str::from_utf8(&bytes).is_ok() { 0 } else { 1 });
}
