"""Symbolic terms for TermFlow (hash-consed by Python tuple equality).

Value terms
  ('c', n)                      integer constant (bools are 0/1)
  ('sym', name)                 symbolic constant (generic const param MIN_ALIGN, sizeof(T), ...)
  ('param', i)                  i-th parameter of the analysed entry function (1-based, MIR numbering)
  ('app', f, a...)              pure function application (add/sub/mul/.../round_up/round_down/max/min/npot/...)
  ('cmp', op, a, b)             boolean; op in lt le eq ne   (gt/ge are normalised by swapping)
  ('not', b)                    boolean negation
  ('ite', c, a, b)              conditional value
  ('agg', name, variant, ((field, term), ...))   struct / enum variant / tuple / closure value
  ('layout', size, align)       a core::alloc::Layout with known parts
  ('discr', t)                  discriminant (variant *name*) of t
  ('ordcmp', a, b)              core::cmp::Ordering value of a.cmp(b)
  ('load', lv, epoch)           value read from memory location lv at memory epoch
  ('addr', lv)                  address of (pointer/reference to) lvalue lv
  ('phi', pid, ((pred, term), ...))   merge of values; pid = (frame, block, key)
  ('opaque', n, desc)           unknown value
  ('call', path, (args...), n)  result of an un-modelled call
  ('fn', path)                  function item
  ('unit',)  ('never',)  ('undef',)

Lvalues
  ('local', frame, i)  ('deref', term)  ('fld', lv, 'Adt.field')  ('variant', lv, name)
  ('idx', lv, term)    ('static', path)
"""

import itertools

WORD = 1 << 64


def C(n):
    return ('c', n)


TRUE = C(1)
FALSE = C(0)
UNIT = ('unit',)


def is_c(t):
    return isinstance(t, tuple) and t and t[0] == 'c'


def sym(n):
    return ('sym', n)


# ------------------------------------------------------------------ linear normal form

def lin(t):
    """t as (dict atom->coef, const).  add/sub/mul-by-const are interpreted, everything else is an atom."""
    if t[0] == 'c':
        return {}, t[1]
    if t[0] == 'app':
        f = t[1]
        if f in ('add', 'sub'):
            a, ca = lin(t[2])
            b, cb = lin(t[3])
            s = 1 if f == 'add' else -1
            r = dict(a)
            for k, v in b.items():
                nv = r.get(k, 0) + s * v
                if nv == 0:
                    r.pop(k, None)
                else:
                    r[k] = nv
            return r, ca + s * cb
        if f == 'mul':
            x, y = t[2], t[3]
            if is_c(x):
                x, y = y, x
            if is_c(y):
                a, ca = lin(x)
                return {k: v * y[1] for k, v in a.items() if v * y[1] != 0}, ca * y[1]
            # (a + b + c) * S  with S a symbolic atom (size_of::<T>()): distribute
            for lhs, s_ in ((x, y), (y, x)):
                if s_[0] == 'sym' and lhs[0] == 'app' and lhs[1] in ('add', 'sub'):
                    a, ca = lin(lhs)
                    r = {}
                    for k, v in a.items():
                        kk = ('app', 'mul', k, s_)
                        r[kk] = r.get(kk, 0) + v
                    if ca:
                        r[s_] = r.get(s_, 0) + ca
                    return {k: v for k, v in r.items() if v != 0}, 0
    return {t: 1}, 0


def from_lin(d, c):
    items = sorted(d.items(), key=lambda kv: repr(kv[0]))
    pos = [(k, v) for k, v in items if v > 0]
    neg = [(k, v) for k, v in items if v < 0]
    t = None

    def scaled(k, v):
        return k if v == 1 else ('app', 'mul', k, C(v))
    for k, v in pos:
        t = scaled(k, v) if t is None else ('app', 'add', t, scaled(k, v))
    if t is None:
        if not neg:
            return C(c)
        t = C(c)
        c = 0
    for k, v in neg:
        t = ('app', 'sub', t, scaled(k, -v))
    if c > 0:
        t = ('app', 'add', t, C(c))
    elif c < 0:
        t = ('app', 'sub', t, C(-c))
    return t


def pred_of(p):
    """if p == d - 1 return d   (divisors are powers of two >= 1: assumption A2/A3, so the
    wrapping form `d.wrapping_sub(1)` / release-mode `d - 1` is the same value)"""
    if p[0] == 'app' and p[1] == 'wsub' and p[3] == C(1):
        return p[2]
    d, c = lin(p)
    if c == -1 and len(d) == 1 and list(d.values()) == [1]:
        return list(d.keys())[0]
    if p[0] == 'c' and p[1] >= 0 and ((p[1] + 1) & p[1]) == 0:
        return C(p[1] + 1)
    return None


def mask_of(m):
    """if m == !(d-1) return d"""
    if m[0] == 'app' and m[1] == 'not':
        return pred_of(m[2])
    if m[0] == 'c':
        inv = (~m[1]) & (WORD - 1)
        if ((inv + 1) & inv) == 0:
            return C(inv + 1)
    return None


def app(f, *a):
    return simplify(('app', f) + tuple(a))


def simplify(t):
    if t[0] != 'app':
        return t
    f = t[1]
    a = t[2:]
    if f == 'proj' and len(a) == 2 and isinstance(a[0], tuple) and a[0] and a[0][0] == 'agg' and isinstance(a[1], str):
        # projection of a freshly built aggregate: the component itself
        want = a[1].split('.')[-1]
        for k, v in a[0][3]:
            if k == want:
                return v
    if f in ('round_down', 'round_up') and len(a) == 2 and a[1] == C(1):
        return a[0]
    if f == 'mod' and len(a) == 2 and a[1] == C(1):
        return C(0)
    if f in ('add', 'sub'):
        if all(is_c(x) for x in a):
            v = a[0][1] + a[1][1] if f == 'add' else a[0][1] - a[1][1]
            return C(v)
        # p + (round_up(p,d) - p)  ==> round_up(p,d)   falls out of the linear form
        d, c = lin(t)
        return from_lin(d, c)
    if f == 'mul':
        if is_c(a[0]) and is_c(a[1]):
            return C(a[0][1] * a[1][1])
        if is_c(a[0]) and a[0][1] == 1:
            return a[1]
        if is_c(a[1]) and a[1][1] == 1:
            return a[0]
        if (is_c(a[0]) and a[0][1] == 0) or (is_c(a[1]) and a[1][1] == 0):
            return C(0)
        if is_c(a[0]) and not is_c(a[1]):
            return ('app', 'mul', a[1], a[0])
        return t
    if f == 'div':
        if is_c(a[0]) and is_c(a[1]) and a[1][1] != 0:
            return C(a[0][1] // a[1][1])
        if is_c(a[1]) and a[1][1] == 1:
            return a[0]
        if is_c(a[1]) and a[1][1] == 2:
            return ('app', 'div2', a[0])
        return t
    if f == 'shr' and is_c(a[1]) and a[1][1] == 1:
        return ('app', 'div2', a[0])
    if f == 'shl' and is_c(a[0]) and is_c(a[1]):
        return C(a[0][1] << a[1][1])
    if f == 'and':
        if a[0] == C(0) or a[1] == C(0):
            return C(0)
        if a[0] == C(WORD - 1):
            return a[1]
        if a[1] == C(WORD - 1):
            return a[0]
        for x, m in ((a[0], a[1]), (a[1], a[0])):
            d = mask_of(m)
            if d is not None:
                # (n + (d-1)) & !(d-1)  -> round_up(n, d)
                dd, c = lin(x)
                hit = None
                for k, v in dd.items():
                    if v == 1 and k[0] == 'app' and k[1] == 'wsub' and k[3] == C(1) and k[2] == d:
                        hit = k
                if hit is not None:
                    rest = dict(dd)
                    del rest[hit]
                    return ('app', 'round_up', from_lin(rest, c), d)
                if d[0] == 'c':
                    # (y + (d-1)) & !(d-1) == round_up(y, d) for every y (absent overflow)
                    if d[1] > 1 and c >= d[1] - 1 and dd:
                        return ('app', 'round_up', from_lin(dd, c - (d[1] - 1)), d)
                else:
                    if c == -1 and dd.get(d) == 1:
                        rest = dict(dd)
                        del rest[d]
                        return ('app', 'round_up', from_lin(rest, 0), d)
                if x[0] == 'app' and x[1] == 'payload' and x[2][0] == 'app' and x[2][1] == 'checked_add':
                    n, q = x[2][2], x[2][3]
                    if pred_of(q) == d:
                        return ('app', 'round_up', n, d)
                if d == C(1):
                    return x
                return ('app', 'round_down', x, d)
            d = pred_of(m)
            if d is not None and not is_c(x):
                if d == C(1):
                    return C(0)
                return ('app', 'mod', x, d)
        if is_c(a[0]) and is_c(a[1]):
            return C(a[0][1] & a[1][1])
        return t
    if f == 'rem':
        if is_c(a[0]) and is_c(a[1]) and a[1][1] != 0:
            return C(a[0][1] % a[1][1])
        if a[1] == C(1):
            return C(0)
        return ('app', 'mod', a[0], a[1])
    if f == 'not' and is_c(a[0]):
        return C((~a[0][1]) & (WORD - 1))
    if f in ('max', 'min'):
        if is_c(a[0]) and is_c(a[1]):
            return C(max(a[0][1], a[1][1]) if f == 'max' else min(a[0][1], a[1][1]))
        if a[0] == a[1]:
            return a[0]
        # canonical operand order, flatten nested max
        ops = []
        for x in a:
            if x[0] == 'app' and x[1] == f:
                ops.extend(x[2:])
            else:
                ops.append(x)
        cs = [x for x in ops if is_c(x)]
        rest = sorted(set(x for x in ops if not is_c(x)), key=repr)
        if cs:
            v = max(c[1] for c in cs) if f == 'max' else min(c[1] for c in cs)
            rest = rest + [C(v)]
        if len(rest) == 1:
            return rest[0]
        return ('app', f) + tuple(rest)
    if f == 'wsub':  # wrapping_sub(x, y)
        x, y = a
        if y[0] == 'app' and y[1] == 'mod' and y[2] == x:
            return ('app', 'round_down', x, y[3])
        if is_c(x) and is_c(y) and x[1] >= y[1]:
            return C(x[1] - y[1])
        if is_c(y) and y[1] == 0:
            return x
        if x == y:
            return C(0)
        # kept distinct from `sub`: it equals x - y only where y <= x is provable (prover.norm)
        return t
    if f == 'npot' and is_c(a[0]):
        n = a[0][1]
        p = 1
        while p < n:
            p <<= 1
        return C(p)
    if f in ('round_up', 'round_down') and is_c(a[0]) and is_c(a[1]) and a[1][1] > 0:
        n, d = a[0][1], a[1][1]
        return C(((n + d - 1) // d) * d if f == 'round_up' else (n // d) * d)
    if f == 'size' and a[0][0] == 'layout':
        return a[0][1]
    if f == 'align' and a[0][0] == 'layout':
        return a[0][2]
    return t


# ------------------------------------------------------------------ booleans

_SWAP = {'gt': 'lt', 'ge': 'le'}
_NEG = {'lt': 'le', 'le': 'lt', 'eq': 'ne', 'ne': 'eq'}


def cmp(op, a, b):
    op = op.lower()
    if op in _SWAP:
        op, a, b = _SWAP[op], b, a
    if is_c(a) and is_c(b):
        r = {'lt': a[1] < b[1], 'le': a[1] <= b[1], 'eq': a[1] == b[1], 'ne': a[1] != b[1]}[op]
        return TRUE if r else FALSE
    if a == b:
        return TRUE if op in ('le', 'eq') else FALSE
    if op in ('eq', 'ne') and repr(b) < repr(a):
        a, b = b, a
    return ('cmp', op, a, b)


def neg(b):
    if is_c(b):
        return FALSE if b[1] else TRUE
    if b[0] == 'not':
        return b[1]
    if b[0] == 'cmp':
        op = b[1]
        if op in ('lt', 'le'):
            return ('cmp', _NEG[op], b[3], b[2])
        return ('cmp', _NEG[op], b[2], b[3])
    return ('not', b)


def ite(c, a, b):
    if is_c(c):
        return a if c[1] else b
    if a == b:
        return a
    return ('ite', c, a, b)


# ------------------------------------------------------------------ aggregates

def agg(name, variant, fields):
    return ('agg', name, variant, tuple(fields))


def some(x):
    return agg('Option', 'Some', (('0', x),))


NONE = agg('Option', 'None', ())


def ok(x):
    return agg('Result', 'Ok', (('0', x),))


def err(x):
    return agg('Result', 'Err', (('0', x),))


def variant_of(t):
    """variant name if statically known, else None"""
    if t[0] == 'agg':
        return t[2]
    return None


def field_of(t, name):
    if t[0] == 'agg':
        for k, v in t[3]:
            if k == name:
                return v
    return None


# ------------------------------------------------------------------ traversal

def subterms(t, seen=None):
    if seen is None:
        seen = set()
    if not isinstance(t, tuple) or t in seen:
        return seen
    seen.add(t)
    for x in t:
        if isinstance(x, tuple):
            subterms(x, seen)
    return seen


def mentions(t, pred):
    return any(pred(x) for x in subterms(t))


def subst(t, m):
    if not isinstance(t, tuple):
        return t
    if t in m:
        return m[t]
    r = tuple(subst(x, m) if isinstance(x, tuple) else x for x in t)
    if r and r[0] == 'app':
        return simplify(r)
    if r and r[0] == 'cmp':
        return cmp(r[1], r[2], r[3])
    return r


# ------------------------------------------------------------------ printing

_INFIX = {'add': '+', 'sub': '-', 'mul': '*'}


def show(t, depth=0):
    if not isinstance(t, tuple):
        return str(t)
    if depth > 14:
        return '…'
    k = t[0] if t else ''
    d = depth + 1
    if k == 'c':
        return str(t[1]) if t[1] < 4096 else hex(t[1])
    if k == 'sym':
        return t[1]
    if k == 'param':
        return 'arg%d' % t[1]
    if k == 'app':
        if t[1] in _INFIX and len(t) == 4:
            return '(%s %s %s)' % (show(t[2], d), _INFIX[t[1]], show(t[3], d))
        return '%s(%s)' % (t[1], ', '.join(show(x, d) for x in t[2:]))
    if k == 'cmp':
        return '(%s %s %s)' % (show(t[2], d), {'lt': '<', 'le': '<=', 'eq': '==', 'ne': '!='}[t[1]], show(t[3], d))
    if k == 'not':
        return '!%s' % show(t[1], d)
    if k == 'ite':
        return 'ite(%s ? %s : %s)' % (show(t[1], d), show(t[2], d), show(t[3], d))
    if k == 'agg':
        nm = t[1].split('::')[-1]
        if t[2] and t[2] != nm:
            nm = t[2] if nm in ('Option', 'Result', 'ControlFlow') else nm + '::' + t[2]
        if not t[3]:
            return nm
        return '%s{%s}' % (nm, ', '.join('%s: %s' % (f, show(v, d)) for f, v in t[3]))
    if k == 'layout':
        return 'Layout(size=%s, align=%s)' % (show(t[1], d), show(t[2], d))
    if k == 'discr':
        return 'discr(%s)' % show(t[1], d)
    if k == 'ordcmp':
        return 'cmp(%s, %s)' % (show(t[1], d), show(t[2], d))
    if k == 'load':
        return 'load[%s]@%s' % (show_lv(t[1], d), t[2])
    if k == 'addr':
        return '&%s' % show_lv(t[1], d)
    if k == 'phi':
        return 'phi@%s(%s)' % (t[1][1], ' | '.join('bb%s: %s' % (p, show(x, d)) for p, x in t[2]))
    if k == 'opaque':
        return '?%s%s' % (t[1], (':' + t[2]) if len(t) > 2 and t[2] else '')
    if k == 'call':
        return '%s(%s)#%s' % (t[1].split('::')[-1], ', '.join(show(x, d) for x in t[2]), t[3])
    if k == 'fn':
        return 'fn:' + t[1]
    if k in ('local', 'deref', 'fld', 'variant', 'idx', 'static'):
        return show_lv(t, d)
    return str(t)


def show_lv(lv, depth=0):
    if not isinstance(lv, tuple):
        return str(lv)
    k = lv[0]
    d = depth + 1
    if k == 'local':
        return '_%s' % lv[2] if not lv[1] else '_%s@%s' % (lv[2], len(lv[1]))
    if k == 'deref':
        return '*(%s)' % show(lv[1], d)
    if k == 'fld':
        return '%s.%s' % (show_lv(lv[1], d), lv[2].split('.')[-1])
    if k == 'variant':
        return '(%s as %s)' % (show_lv(lv[1], d), lv[2])
    if k == 'idx':
        return '%s[%s]' % (show_lv(lv[1], d), show(lv[2], d))
    if k == 'static':
        return 'static:' + lv[1]
    return show(lv, d)
