"""Arena state is written only where the per-store obligations see it.

All obligations on the bump finger, the chunk list and the counters (C01 classification / bounds / gating, C04 alignment,
C20 sentinel exclusion ..) are evaluated at the store events TermFlow meets while interpreting the arena's entry points
along their *normal* paths.  A store that lives in a body no entry point reaches that way -- typically the Drop impl of a
scope guard that is forgotten on success and runs only while a user callback unwinds -- is judged by none of them.  This rule
takes the inventory from the other side: every MIR body that can write a ChunkFooter / Bump field (takes a reference to such a
field and calls Cell::set / replace / swap / take, or assigns it directly) must be one the interpreter entered from some arena
entry point; a writer outside that set is reported (fail closed: the arena may be left in an unjudged state after a panic)."""
from .. import arena
from ..facts import loc

STATE_ADTS = ('ChunkFooter', 'Bump')
CELL_WRITERS = ('Cell::<T>::set', 'Cell::<T>::replace', 'Cell::<T>::swap', 'Cell::<T>::take', 'cell::Cell::<T>::set', 'cell::Cell::<T>::replace')


def writer_bodies(db):
    """{body id: [(field, span)]} for bodies that may write arena state"""
    out = {}
    for b in db.raw['bodies']:
        if b['kind'] not in ('fn', 'assoc_fn', 'closure'):
            continue
        refs = []
        direct = []
        for bl in b['blocks']:
            for st in bl['stmts']:
                if st.get('k') != 'assign':
                    continue
                pl = st['place']
                for e in pl['proj']:
                    if e['k'] == 'field' and (e.get('adt') or '').split('::')[-1] in STATE_ADTS:
                        if any(x['k'] == 'deref' for x in pl['proj']):
                            direct.append(('%s.%s' % (e['adt'].split('::')[-1], e['name']), st.get('span')))
                rv = st['rv']
                if rv.get('k') in ('ref', 'addr', 'rawptr', 'addr_of', 'raw') and isinstance(rv.get('place'), dict):
                    for e in rv['place']['proj']:
                        if e['k'] == 'field' and (e.get('adt') or '').split('::')[-1] in STATE_ADTS and 'Cell<' in (e.get('ty') or ''):
                            refs.append(('%s.%s' % (e['adt'].split('::')[-1], e['name']), st.get('span')))
        calls_writer = False
        for bl in b['blocks']:
            t = bl['term']
            if t['k'] == 'call':
                p = t['callee'].get('path') or ''
                if p.startswith('core::cell::Cell') and p.split('::')[-1] in ('set', 'replace', 'swap', 'take'):
                    calls_writer = True
        sites = direct + (refs if calls_writer else [])
        if sites:
            out[b['id']] = sites
    return out


def visited_bodies(A):
    seen = set()
    for key, val in A.items():
        if val is None:
            continue
        I, r, b = val
        seen.add(b['id'])
        for e in r.events:
            for fr in e.stack:
                seen.add(fr[0])
            if e.fn:
                seen.add(e.fn)
    return seen


def check(ctx, db, A, rule):
    writers = writer_bodies(db)
    seen = visited_bodies(A)
    n = 0
    for bid, sites in sorted(writers.items()):
        body = db.bodies.get(bid)
        if body is not None and body['kind'] != 'closure' and (body['meta'].get('impl_adt') == 'Bump' and body['meta'].get('name') in ('drop',)):
            # Drop for Bump itself: analysed as the releaser's caller by C03.R4
            pass
        n += 1
        if bid in seen:
            ctx.ok(rule, '%s writes %s on analysed paths' % (arena.short(bid), sorted({f for f, _ in sites})), 'entered by TermFlow from an arena entry point')
        else:
            f, span = sites[0]
            ctx.violation(rule, arena.short(bid), 'state-write-outside-analysed-paths:%s' % f,
                          '%s can write %s but no arena entry point reaches it along a normal path (a destructor or closure that only runs while unwinding?): the store is subject to none of the finger / chunk-list obligations, so the arena may be left inconsistent after a panic' % (arena.short(bid), sorted({x for x, _ in sites})), loc(span))
    ctx.floor(rule, n, 8, 'bodies that can write ChunkFooter / Bump fields, each required to be on analysed paths')
