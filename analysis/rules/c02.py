"""C02 — allocation contents are initialised as specified and stay intact (extent agreement + copy discipline)."""
from .. import arena, prover
from ..terms import *
from ..facts import loc
from . import c01, c04, c12

EXPLANATION = ("TermFlow term identities on the value/slice/str allocation methods: (R1) reserved extent == initialised extent == returned extent — the element count in the "
               "layout handed to the arena, the copy count / loop bound, and the length of the returned slice are the same term; (R2) index agreement — every element write targets "
               "reserved_base + i * size_of::<T>() where i is exactly the index handed to the callback (or produced by enumerate), the value written is that callback's result, one "
               "callback per slot and it precedes the write; (R3) copy discipline of grow/shrink/realloc (min(old,new) bytes, copy_nonoverlapping only with a disjointness proof) and "
               "the default Alloc::realloc copying min(old,new); (R5) no later arena operation hands a live block out again: every finger store that raises the finger (reclaim / "
               "rewind) is gated by the is_last_allocation equality and bounded by the released block."
               ' (R6) inventory: every public arena method returning a mutable reference is either one of the analysed initialisers or a thin forward to one with no raw operation of its own (fill_iter reserves exactly iter.len() slots).')
RULE = "rule instance = (rule, method, site); distinct by (rule, method, site)"

SLICE_METHODS = ['alloc_slice_copy', 'try_alloc_slice_copy', 'alloc_slice_clone', 'try_alloc_slice_clone', 'alloc_slice_fill_with', 'try_alloc_slice_fill_with', 'alloc_slice_try_fill_with']
VALUE_METHODS = ['alloc_with', 'try_alloc_with']


def count_of_layout(L):
    """element count N of a layout term Layout(N * size_of T, ..) / payload(layout_array(N, T))"""
    if L[0] == 'layout':
        sz = L[1]
        if sz[0] == 'app' and sz[1] == 'mul':
            return sz[2] if not (sz[2][0] == 'sym' and sz[2][1].startswith('sizeof')) else sz[3]
        if L[2] == C(1):
            return sz           # byte elements: the size is the count
        return None
    if L[0] == 'app' and L[1] in ('payload', 'vproj') and L[2][0] == 'app' and L[2][1] == 'layout_array':
        return L[2][2]
    return None


def split_write_target(I, t):
    """(base, index) of a write target base + index * size_of::<T>()"""
    d, c = lin(t)
    idx = None
    base = {}
    for k, v in d.items():
        if k[0] == 'app' and k[1] == 'mul' and (k[3][0] == 'sym' and str(k[3][1]).startswith('sizeof')):
            idx = k[2] if v == 1 else None
        else:
            base[k] = v
    if idx is None:
        return None, None
    return from_lin(base, c), idx


def cursor_write(I, r, b, w, base_ptr):
    """the write target is a loop-carried cursor: initial value the reserved base, step + size_of::<T>() on every back edge"""
    tgt = w.args[0]
    for (bid, h), rec in r.loops.items():
        if bid != b['id']:
            continue
        for l, symv in rec['sym'].items():
            if symv == tgt and rec['init'].get(l) == base_ptr and rec['step']:
                steps = [st['env'].get(l) for st in rec['step']]
                if all(sv is not None and sv[0] == 'app' and sv[1] == 'add' and symv in sv[2:] and any(x[0] == 'sym' and str(x[1]).startswith('sizeof') for x in sv[2:]) for sv in steps):
                    return True
    return False


def range_item(t):
    """t is the item of a `for i in 0..n` iteration (Some payload of Range::next)"""
    return isinstance(t, tuple) and t and t[0] == 'app' and t[1] in ('vproj', 'payload') and t[2][0] == 'call' and t[2][1].endswith('::next')


def user_iter_item(v):
    """v is the item of one `next()` call on a (caller-supplied) iterator: `it.next().expect(..)` / `.unwrap()` / the Some payload"""
    if isinstance(v, tuple) and v[:1] == ('app',) and v[1] == 'vproj' and len(v) == 5 and v[3] == 'Ok' and user_iter_item(v[2]):
        return True       # the Ok payload of a Result item (try_fill flavours)
    return isinstance(v, tuple) and v[:1] == ('app',) and v[1] in ('payload', 'vproj') and isinstance(v[2], tuple) and v[2][:1] == ('call',) and v[2][1].endswith('Iterator::next')


def own_value_init(I, r, want_value=None):
    """the method initialises one value itself: one reservation with the layout of T, one ptr::write of the value at the
    reserved pointer, that pointer returned.  Returns the value term written, or None."""
    own = [e for e in r.events if e.is_own()]
    resv = [e for e in own if e.kind == 'call' and e.callee and 'NonNull<u8>' in ((I.db.by_path.get(e.callee) or {}).get('meta', {}).get('output') or '') and len(e.args) > 1]
    ws = [e for e in own if e.kind == 'call' and e.callee == 'core::ptr::write']
    if len(resv) != 1 or len(ws) != 1 or [e for e in own if e.kind in ('copy', 'slice')]:
        return None
    lay = resv[0].args[1]
    if not (lay[0] == 'layout' and 'sizeof(T)' in show(lay) and 'alignof(T)' in show(lay)):
        return None
    base = resv[0].ret if not (resv[0].ret[0] == 'phi' and I.variants_in(resv[0].ret) & {'Ok'}) else I.project_variant(None, resv[0].ret, 'Ok', '0')
    if ws[0].args[0] != base or r.events.index(resv[0]) > r.events.index(ws[0]):
        return None
    if r.ret is None:
        return None
    if not (r.ret == base or base in subterms(r.ret)):
        # Result / Option returning methods: every success payload is the reserved pointer
        rets = [t for t, _ in arena.success_payloads(I, r)]
        if not rets or not all(base in subterms(t) or t == base for t in rets):
            return None
    v = ws[0].args[1]
    if want_value is not None and v != want_value:
        return None
    return v


def view_fill(ctx, I, r, b, own, slices, base_ptr, nret, fn, name):
    """the fill written through a slice view of the reserved block: `for (i, slot) in view.iter_mut().enumerate() { *slot = f(i) }`
    (view = from_raw_parts_mut(reserved base, n), typically of MaybeUninit<T>).  Returns True if it recognised (and judged) the form."""
    im = [e for e in own if e.kind == 'call' and (e.callee or '').endswith('<impl [T]>::iter_mut') and e.args and e.args[0][0] == 'agg' and e.args[0][1] == 'slice']
    en = [e for e in own if e.kind == 'call' and (e.callee or '').endswith('Iterator::enumerate')]
    nx = [e for e in own if e.kind == 'call' and 'Enumerate<' in (e.callee or '') and (e.callee or '').endswith('Iterator>::next')]
    if len(im) != 1 or len(en) != 1 or len(nx) != 1 or en[0].args[0] != im[0].ret:
        return False
    item = ('app', 'vproj', nx[0].ret, 'Some', '0')
    idx = ('app', 'proj', item, 'tuple.0')
    slot = ('app', 'proj', item, 'tuple.1')
    sts = [e for e in own if e.kind == 'store' and e.lv == ('deref', slot)]
    if len(sts) != 1:
        return False
    view = im[0].args[0]
    if field_of(view, 'ptr') == base_ptr and field_of(view, 'len') == nret:
        ctx.ok('R1', '%s: the fill runs over a view of exactly the reserved block (base, %s)' % (fn, show(nret)[:30]), 'slice view + enumerate')
    else:
        ctx.violation('R1', fn, 'loop-bound', 'the view the fill iterates (%s) is not (reserved base, returned length)' % show(view)[:80], im[0].span)
    uc = [e for e in r.events if e.kind == 'usercall']
    val = sts[0].val
    if name == 'alloc_slice_try_fill_with':
        valok = any(isinstance(t, tuple) and t and t[0] == 'call' and t[1] == '<callable>' for t in subterms(val))
    else:
        valok = val[0] == 'call' and val[1] == '<callable>' and val[2] == (idx,)
    agree = len(uc) == 1 and uc[0].args and uc[0].args[0] == idx and r.events.index(uc[0]) < r.events.index(sts[0]) and arena.foreach_loop(I, r, b, nx[0], sts[0], early_exit_ok=(name == 'alloc_slice_try_fill_with'))
    if agree and valok:
        ctx.ok('R2', '%s: slot i of the view receives f(i): index and slot come from the same enumerate item; one callback per slot, before the store' % fn, show(idx)[:50])
    else:
        ctx.violation('R2', fn, 'index-agreement', 'the view slot is written with %s while the callback was given %s' % (show(val)[:60], show(uc[0].args[0])[:40] if uc and uc[0].args else '?'), sts[0].span)
    return True


def forwarded_initialiser(ctx, db, I, r, b, name, targets, config):
    """One of the analysed slice initialisers has become a thin forward to another one (`alloc_slice_clone(src)` =
    `alloc_slice_fill_with(src.len(), |i| src[i].clone())`): extent and indices are then decided by the callee's clauses; what
    is judged here is the count handed over, the per-index generator and that the callee's slice is what is returned.
    Returns None when the method is not of that form, else (ok, detail)."""
    P1, P2_, P3_ = ('param', 1), ('param', 2), ('param', 3)
    own = [e for e in r.events if e.is_own()]
    fw = [e for e in own if e.kind == 'call' and 'Bump::<MIN_ALIGN>::' in (e.callee or '') and '{closure' not in e.callee and e.callee.split('::')[-1] in targets and e.callee.split('::')[-1] != name]
    if len(fw) != 1 or any(e.kind in ('copy', 'slice') or (e.kind == 'call' and e.callee in ('core::ptr::write', 'core::ptr::write_bytes')) for e in own):
        return None
    f = fw[0]
    callee = f.callee.split('::')[-1]
    if not (len(f.args) == 3 and f.args[0] == P1 and callee.endswith('fill_with')):
        return None
    ret_ok = r.ret == f.ret or (f.ret is not None and f.ret[0] in ('phi', 'agg') and 'Ok' in I.variants_in(f.ret) and r.ret == I.project_variant(None, f.ret, 'Ok', '0'))
    gen = f.args[2]
    if not (gen[0] == 'agg' and gen[1].startswith('closure:')):
        return (False, 'the generator handed to %s is not a closure of this method' % callee)
    cid = gen[1][len('closure:'):]
    ups = dict(gen[3])
    I2, r2 = arena.run_fn(ctx, cid, config)
    idx = ('param', 2)

    def upv(k):
        return ('load', ('fld', ('deref', ('param', 1)), 'closure:%s.upvar%d' % (cid, k)), 0)
    if name.endswith('slice_clone') or name.endswith('slice_copy'):
        srck = [int(k[5:]) for k, v in ups.items() if v in (P2_, ('addr', ('local',) + P2_[1:]))]
        srck = srck or [int(k[5:]) for k, v in ups.items() if P2_ in subterms(v)]
        cnt_ok = f.args[1] == app('len', P2_)
        el = ('idx', ('deref', upv(srck[0])), idx) if len(srck) == 1 else None
        if name.endswith('slice_clone'):
            val_ok = el is not None and r2.ret is not None and r2.ret[0] == 'call' and r2.ret[1].endswith('Clone::clone') and r2.ret[2] == (('addr', el),)
        else:
            val_ok = el is not None and r2.ret == ('load', el, 0) or (r2.ret is not None and r2.ret[0] == 'load' and r2.ret[1] == el)
        what = 'src.len() slots, slot i = src[i]%s' % ('.clone()' if name.endswith('slice_clone') else '')
    elif name.endswith('slice_fill_with'):
        cnt_ok = f.args[1] == P2_
        ucs = [e for e in r2.events if e.kind == 'usercall']
        v = r2.ret
        if v is not None and v[0] == 'agg' and v[1] == 'Result' and v[2] == 'Ok':
            v = field_of(v, '0')
        val_ok = len(ucs) == 1 and ucs[0].args and ucs[0].args[0] == idx and v is not None and v[0] == 'call' and v[1] == '<callable>' and v[2] == (idx,)
        what = 'len slots, slot i = f(i)'
    else:
        return None
    okv = bool(ret_ok and cnt_ok and val_ok)
    return (okv, '%s through %s (%s)%s' % (what, callee, 'count, generator and returned slice agree' if okv else 'count ok=%s generator ok=%s returned ok=%s' % (cnt_ok, bool(val_ok), bool(ret_ok)), ''))


def run(ctx, config='rel-all'):
    db = ctx.db(config)
    A = arena.analyse(ctx, config)
    ctx.assume("that bytes of a live block are never written by a later operation follows from the C01 discipline (disjoint blocks) plus R5 here; it is not independently observed",
               "closure call counts under panics are C16's concern")
    n1 = 0
    # the analysed initialisers: the seven known ones plus any other public slice/str-returning arena method that performs raw
    # initialisation in its own frame (or in a helper extracted from it) -- e.g. after an inlining refactor
    targets = list(SLICE_METHODS)
    for b0 in db.fn_bodies():
        m0 = b0['meta']
        out0 = m0.get('output') or ''
        if b0['kind'] == 'assoc_fn' and m0.get('impl_adt') == 'Bump' and m0.get('pub') and not m0.get('impl_trait') and '&' in out0 and 'mut' in out0 and ('[' in out0 or 'str' in out0) and m0['name'] not in targets:
            I0, r0 = arena.run_fn(ctx, b0['id'], config)
            if any(e.is_own() and (e.kind == 'copy' or (e.kind == 'call' and e.callee in ('core::ptr::write', 'core::ptr::write_bytes'))) for e in r0.events):
                targets.append(m0['name'])
    for name in targets:
        b = arena.bump_method(db, name)
        if b is None:
            ctx.anchor_missing('R1', 'Bump::' + name)
            continue
        I, r = arena.run_fn(ctx, b['id'], config)
        fn = 'Bump::' + name
        own = [e for e in r.events if e.is_own()]
        resv = [e for e in own if e.kind == 'call' and e.callee and 'NonNull<u8>' in ((I.db.by_path.get(e.callee) or {}).get('meta', {}).get('output') or '') and len(e.args) > 1]
        slices = [e for e in own if e.kind == 'slice']
        if not resv or not slices:
            fwd = forwarded_initialiser(ctx, db, I, r, b, name, targets, config)
            if fwd is None:
                ctx.violation('R1', fn, 'shape', 'no reservation / returned slice found in %s' % fn, b.get('span'))
            elif fwd[0]:
                n1 += 1
                ctx.ok('R1', '%s forwards to another analysed initialiser: %s' % (fn, fwd[1]), 'forward clause')
            else:
                ctx.violation('R1', fn, 'forward', '%s forwards to another initialiser but not with the slots it promises: %s' % (fn, fwd[1]), b.get('span'))
            continue
        n1 += 1
        res = resv[0]
        nres = count_of_layout(res.args[1])
        base_ptr = res.ret if not (res.ret[0] == 'phi' and I.variants_in(res.ret) & {'Ok'}) else I.project_variant(None, res.ret, 'Ok', '0')
        nret = slices[-1].args[1]
        if nres is not None and nres == nret:
            ctx.ok('R1', '%s: reserved count == returned slice length (%s)' % (fn, show(nret)[:40]), 'term identity')
        else:
            ctx.violation('R1', fn, 'reserved!=returned', 'the layout reserves %s elements but the returned slice claims %s' % (show(nres)[:60] if nres else '?', show(nret)[:60]), slices[-1].span)
        if slices[-1].args[0] != base_ptr:
            ctx.violation('R1', fn, 'returned-base', 'the returned slice does not start at the reserved block', slices[-1].span)
        copies = [e for e in own if e.kind == 'copy']
        writes = [e for e in own if e.kind == 'call' and e.callee == 'core::ptr::write']
        if copies:
            cp = copies[0]
            okc = cp.args[2] == nret and cp.args[1] == base_ptr and cp.callee == 'copy_nonoverlapping'
            if okc:
                ctx.ok('R1', '%s: copies exactly the returned number of elements into the reserved block' % fn, 'copy_nonoverlapping(src, reserved, n): fresh block')
            else:
                ctx.violation('R1', fn, 'copy-extent', 'copy of %s elements into %s does not match the returned extent %s / reserved block' % (show(cp.args[2])[:50], show(cp.args[1])[:50], show(nret)[:50]), cp.span)
        elif writes:
            w = writes[0]
            base, idx = split_write_target(I, w.args[0])
            ucs = [e for e in r.events if e.kind == 'usercall' or (e.kind == 'call' and e.callee and e.callee.endswith('Iterator>::next') and 'Enumerate' in e.callee)]
            # loop bound
            bound_ok = False
            for e in own:
                if e.kind == 'call' and e.callee and e.callee.endswith('IntoIterator>::into_iter') and e.args and e.args[0][0] == 'agg' and e.args[0][1].endswith('Range'):
                    bound_ok = field_of(e.args[0], 'start') == C(0) and field_of(e.args[0], 'end') == nret
                if e.kind == 'call' and e.callee and e.callee.endswith('<impl [T]>::iter') and e.args and app('len', e.args[0]) == nret:
                    bound_ok = True
                # internal iteration: (0..n).for_each(..) / try_for_each(..)
                if e.kind == 'call' and e.callee and e.callee.split('::')[-1] in ('for_each', 'try_for_each') and e.args:
                    rg = e.args[0]
                    if rg[0] == 'addr' and rg[1][0] == 'local':
                        rg = e.state.env.get((rg[1][1], rg[1][2])) or rg       # try_for_each takes &mut self
                    if rg[0] == 'agg' and rg[1].endswith('Range'):
                        bound_ok = field_of(rg, 'start') == C(0) and field_of(rg, 'end') == nret
                # `for x in slice` (IntoIterator for &[T]): one iteration per element of a slice whose length is the returned length
                if e.kind == 'call' and e.callee and 'IntoIterator for &' in e.callee and e.callee.endswith('[T]>::into_iter') and e.args and app('len', e.args[0]) == nret:
                    bound_ok = True
            if not bound_ok:
                # counter loop `while i < len { .. i += 1 }`: the written index is a loop counter (0, +1) and the write happens under i < len
                Ls = [v for (bid, h), v in r.loops.items()]
                for rec in Ls:
                    for l, symv in rec['sym'].items():
                        if rec['init'].get(l) == C(0) and rec['step'] and all(st_['env'].get(l) == app('add', symv, C(1)) for st_ in rec['step']):
                            if any(f in (('lt', symv, nret),) for f in w.state.facts):
                                bound_ok = True
            if bound_ok:
                ctx.ok('R1', '%s: the fill loop runs over exactly 0..%s' % (fn, show(nret)[:30]), 'loop bound term')
            else:
                ctx.violation('R1', fn, 'loop-bound', 'the initialising loop of %s is not bounded by the returned length' % fn, b.get('span'))
            # R2 index agreement
            if base is not None and base == base_ptr and idx is not None:
                val = w.args[1]
                uc = [e for e in r.events if e.kind == 'usercall']
                if uc:
                    agree = len(uc) == 1 and uc[0].args and uc[0].args[0] == idx and r.events.index(uc[0]) < r.events.index(w)
                    if name == 'alloc_slice_try_fill_with':
                        valok = any(isinstance(t, tuple) and t and t[0] == 'call' and t[1] == '<callable>' for t in subterms(val))
                    else:
                        valok = val[0] == 'call' and val[1] == '<callable>' and val[2] == (idx,)
                    if agree and valok:
                        ctx.ok('R2', '%s: slot i receives f(i): callback argument, write offset and value agree; one callback per slot, before the write' % fn, show(idx)[:50])
                    else:
                        ctx.violation('R2', fn, 'index-agreement', 'slot %s is written with %s while the callback was given %s (or is called %d times per slot)' % (show(idx)[:40], show(val)[:60], show(uc[0].args[0])[:40] if uc[0].args else '?', len(uc)), w.span)
                else:
                    # enumerate: index and value are fields 0 / 1 of the same next() item
                    src_item = None
                    if idx[0] == 'app' and idx[1] == 'proj' and idx[3].endswith('.0'):
                        src_item = idx[2]
                    v = w.args[1]
                    if src_item is not None and v == ('app', 'proj', src_item, idx[3][:-1] + '1'):
                        ctx.ok('R2', '%s: slot i receives the i-th cloned element (index and value from the same enumerate item)' % fn, show(idx)[:60])
                    elif v[0] == 'param':
                        ctx.ok('R2', '%s: every slot receives the value the caller passed (a Copy parameter)' % fn, show(v))
                    elif user_iter_item(v) and len([e for e in own if e.kind == 'call' and (e.callee or '').endswith('Iterator::next') and e.ret is not None and e.ret in subterms(v)]) == 1:
                        ctx.ok('R2', "%s: slot i receives the next item of the caller's iterator (one next() per slot, in slot order)" % fn, show(v)[:60])
                    elif v[0] == 'call' and v[1].endswith('Clone::clone') and idx in subterms(v) and ('param', 2) in subterms(v):
                        ctx.ok('R2', '%s: slot i receives a clone of src[i] (the write offset is the index used to read the source)' % fn, show(idx)[:60])
                    else:
                        ctx.violation('R2', fn, 'index-agreement', 'write offset %s and value %s do not come from the same enumerate() item' % (show(idx)[:50], show(v)[:50]), w.span)
            elif cursor_write(I, r, b, w, base_ptr):
                # cursor form: `slot` starts at the reserved base and advances by one element per iteration of the loop over 0..n;
                # by induction iteration k writes base + k * size_of::<T>() and the callback of that iteration gets k
                uc = [e for e in r.events if e.kind == 'usercall']
                val = w.args[1]
                okc = len(uc) == 1 and r.events.index(uc[0]) < r.events.index(w) and any(isinstance(t, tuple) and t and t[0] == 'call' and t[1] == '<callable>' for t in subterms(val)) \
                    and range_item(uc[0].args[0] if uc[0].args else None)
                # ... or the k-th slot receives (a clone of) the k-th item of the source slice: cursor and slice iterator advance
                # together, one `next` and one write per iteration
                nxs = [e for e in own if e.kind == 'call' and (e.callee or '').endswith('Iterator>::next') and 'slice::iter::Iter<' in (e.callee or '')]
                item_ok = not uc and len(nxs) == 1 and len(writes) == 1 and r.events.index(nxs[0]) < r.events.index(w) and \
                    (val == ('app', 'vproj', nxs[0].ret, 'Some', '0') or (val[0] == 'call' and val[1].endswith('Clone::clone') and val[2] == (('app', 'vproj', nxs[0].ret, 'Some', '0'),))) and \
                    arena.foreach_loop(I, r, b, nxs[0], w)
                if item_ok:
                    ctx.ok('R2', '%s: cursor and source iterator advance together; slot k receives (a clone of) the k-th element of the source' % fn, 'one next() and one write per iteration, cursor step = one element')
                elif okc:
                    ctx.ok('R2', '%s: a cursor starting at the reserved base advances one element per iteration of 0..n; slot k receives f(k)' % fn, 'loop init / step of the cursor')
                else:
                    ctx.violation('R2', fn, 'index-agreement', 'the cursor-based fill does not pass the iteration index of 0..n to the callback once per slot', w.span)
            else:
                ctx.violation('R2', fn, 'write-target', 'element writes do not target reserved_base + i * size_of::<T>() (%s)' % show(w.args[0])[:80], w.span)
        elif view_fill(ctx, I, r, b, own, slices, base_ptr, nret, fn, name):
            pass
        else:
            ctx.violation('R1', fn, 'no-initialisation', '%s neither copies nor writes the elements it returns' % fn, b.get('span'))
    ctx.floor('R1', n1, 7, 'slice allocation methods')
    # ---- R6 inventory: every public arena method that returns a mutable reference either is one of the analysed initialisers
    # (raw writes checked by R1/R2) or is a thin forward to one of them with no raw operation of its own; a method that starts
    # to initialise memory itself is outside what R1/R2 decided and is reported
    CORE = set(SLICE_METHODS) | set(VALUE_METHODS)
    n6 = 0
    # what counts as "an arena initialiser" in a forward: any method of this inventory, or the raw reservation entry points
    INV = {x['meta']['name'] for x in db.fn_bodies() if x['kind'] == 'assoc_fn' and x['meta'].get('impl_adt') == 'Bump' and x['meta'].get('pub') and not x['meta'].get('impl_trait')
           and '&' in (x['meta'].get('output') or '') and 'mut' in (x['meta'].get('output') or '')} | {'alloc_layout', 'try_alloc_layout'}
    for b in db.fn_bodies():
        m = b['meta']
        out = m.get('output') or ''
        if not (b['kind'] == 'assoc_fn' and m.get('impl_adt') == 'Bump' and m.get('pub') and not m.get('impl_trait') and '&' in out and 'mut' in out):
            continue
        name = m['name']
        I, r = arena.run_fn(ctx, b['id'], config)
        own = [e for e in r.events if e.is_own()]
        raw = [e for e in own if e.kind in ('slice', 'copy') or (e.kind == 'call' and e.callee in ('core::ptr::write', 'core::ptr::write_bytes'))]
        n6 += 1
        if name in CORE or name in targets:
            ctx.ok('R6', 'Bump::%s is an analysed initialiser' % name, 'R1/R2')
            continue
        fw = [e for e in own if e.kind == 'call' and 'Bump::<MIN_ALIGN>::' in (e.callee or '') and e.callee.split('::')[-1] in INV and '{closure' not in e.callee]
        if raw and '[' not in out and 'str' not in out and own_value_init(I, r) is not None:
            ctx.ok('R6', 'Bump::%s initialises one value itself: Layout::new::<T>() reserved, one write at the reserved pointer, that pointer returned' % name, 'own reservation + single ptr::write')
        elif raw:
            ctx.violation('R6', 'Bump::' + name, 'raw-initialisation', 'Bump::%s performs raw initialisation itself (%s) but is not among the initialisers whose extents and indices are checked; only forwards to %s are expected here' % (name, sorted({e.kind if e.kind != 'call' else e.callee.split('::')[-1] for e in raw}), sorted(CORE)[:4]), raw[0].span)
        elif len(fw) != 1:
            ctx.violation('R6', 'Bump::' + name, 'forward', 'Bump::%s must forward to exactly one arena initialiser; it calls %s' % (name, [e.callee.split('::')[-1] for e in fw]), b.get('span'))
        else:
            okv = True
            if name.endswith('_fill_iter'):
                # the count is the length the ExactSizeIterator reports, the elements are its items
                a = fw[0].args[1] if len(fw[0].args) > 1 else None
                okv = a is not None and a[0] == 'call' and 'ExactSizeIterator' in a[1] and a[1].endswith('::len')
            if okv:
                ctx.ok('R6', 'Bump::%s forwards to %s' % (name, fw[0].callee.split('::')[-1]), 'single arena call, no raw operation in its own frame')
            else:
                ctx.violation('R6', 'Bump::' + name, 'forward-count', 'Bump::%s must reserve exactly iter.len() slots' % name, b.get('span'))
    ctx.floor('R6', n6, 24, 'public arena methods returning a mutable reference')
    # ---- R7 what the thin forwards put into the slots: the generator closure they hand to the analysed initialiser yields the
    # caller's value (copy), a clone of it, T::default(), or the iterator's next item -- and the count / source is the caller's
    n7 = 0
    P1, P2_, P3_ = ('param', 1), ('param', 2), ('param', 3)
    for pre in ('', 'try_'):
        for kind in ('copy', 'clone', 'default', 'iter'):
            name = '%salloc_slice_fill_%s' % (pre, kind)
            if pre == 'try_' and kind == 'iter':
                name = 'try_alloc_slice_fill_iter'
            b = arena.bump_method(db, name)
            if b is None:
                ctx.anchor_missing('R7', 'Bump::' + name)
                continue
            I, r = arena.run_fn(ctx, b['id'], config)
            fw = [e for e in r.events if e.is_own() and e.kind == 'call' and (e.callee or '').endswith('alloc_slice_fill_with')]
            cl = [x for x in db.fn_bodies() if x['kind'] == 'closure' and x['id'].startswith(b['id'] + '::{closure')]
            if fw and not cl and len(fw[0].args) > 2 and fw[0].args[2][0] == 'fn':
                # the generator is a named (nested) fn instead of a closure
                gb = db.by_path.get(fw[0].args[2][1]) or db.bodies.get(fw[0].args[2][1])
                cl = [gb] if gb is not None else []
            sib = [e for e in r.events if e.is_own() and e.kind == 'call' and 'Bump::<' in (e.callee or '') and (e.callee or '').split('::')[-1] == 'try_' + name]
            if not fw and len(sib) == 1 and sib[0].args == [('param', k + 1) for k in range(len(sib[0].args))] and not pre:
                # the panicking flavour delegates to its try_ twin with the same arguments: the twin's clause decides what the slots get
                n7 += 1
                ctx.ok('R7', 'Bump::%s: every slot receives what Bump::try_%s gives it (same arguments, forwarded in order)' % (name, name), 'forward to the fallible twin')
                continue
            okv = len(fw) == 1 and fw[0].args[0] == P1 and len(cl) >= 1
            if okv and kind != 'iter':
                okv = fw[0].args[1] == P2_
            inlined = False
            if not fw and name in targets:
                # the worker was inlined into this method: it is one of the analysed initialisers now (extent, indices: R1/R2);
                # what is left to state here is the value every slot gets
                ws = [e for e in r.events if e.is_own() and e.kind == 'call' and e.callee == 'core::ptr::write']
                want_v = {'copy': lambda v: v == P3_, 'clone': lambda v: v[0] == 'call' and v[1].endswith('Clone::clone') and P3_ in subterms(v),
                          'default': lambda v: v[0] == 'call' and v[1].endswith('Default::default'), 'iter': user_iter_item}[kind]
                inlined = len(ws) == 1 and want_v(ws[0].args[1])
            if okv:
                I2, r2 = arena.run_fn(ctx, cl[0]['id'], config)
                isup = lambda t: isinstance(t, tuple) and len(t) == 3 and t[0] == 'load' and t[1][0] == 'fld' and t[1][1] == ('deref', P1) and t[1][2].endswith('.upvar0')
                up = None
                if kind == 'copy':
                    okv = r2.ret is not None and r2.ret[0] == 'load' and r2.ret[1][0] == 'deref' and isup(r2.ret[1][1])
                elif kind == 'clone':
                    okv = r2.ret is not None and r2.ret[0] == 'call' and r2.ret[1].endswith('Clone::clone') and len(r2.ret[2]) == 1 and isup(r2.ret[2][0])
                elif kind == 'default':
                    okv = r2.ret is not None and r2.ret[0] == 'call' and r2.ret[1].endswith('Default::default')
                else:
                    okv = r2.ret is not None and r2.ret[0] == 'app' and r2.ret[1] in ('payload', 'vproj') and r2.ret[2][0] == 'call' and r2.ret[2][1].endswith('::next') and len(r2.ret[2][2]) == 1 and isup(r2.ret[2][2][0])
            n7 += 1
            what = {'copy': 'the value itself', 'clone': 'value.clone()', 'default': 'T::default()', 'iter': 'the next item of the iterator (one per slot)'}[kind]
            if inlined:
                ctx.ok('R7', 'Bump::%s: every slot receives %s' % (name, what), 'value operand of the single element write (worker inlined)')
            elif okv:
                ctx.ok('R7', 'Bump::%s: every slot receives %s' % (name, what), 'return term of the generator closure')
            else:
                ctx.violation('R7', 'Bump::' + name, 'generator', 'Bump::%s must fill every slot with %s, for exactly the requested number of slots' % (name, what), b.get('span'))
    for name, core in (('alloc_str', 'alloc_slice_copy'), ('try_alloc_str', 'try_alloc_slice_copy')):
        b = arena.bump_method(db, name)
        if b is None:
            ctx.anchor_missing('R7', 'Bump::' + name)
            continue
        I, r = arena.run_fn(ctx, b['id'], config)
        fw = [e for e in r.events if e.is_own() and e.kind == 'call' and (e.callee or '').endswith('::' + core)]
        n7 += 1
        if len(fw) == 1 and fw[0].args == [P1, P2_]:
            ctx.ok('R7', 'Bump::%s copies exactly the bytes of the source string' % name, 'forward to %s(self, src.as_bytes())' % core)
        elif name in targets and any(e.is_own() and e.kind == 'copy' and e.args[0] == P2_ and e.args[2] == app('len', P2_) for e in r.events):
            ctx.ok('R7', 'Bump::%s copies exactly the bytes of the source string' % name, 'own memcpy of src.len() bytes from src (extent checked by R1)')
        else:
            ctx.violation('R7', 'Bump::' + name, 'bytes', 'Bump::%s must copy exactly src.as_bytes() through %s' % (name, core), b.get('span'))
    for name, core in (('alloc', 'alloc_with'), ('try_alloc', 'try_alloc_with')):
        b = arena.bump_method(db, name)
        if b is None:
            ctx.anchor_missing('R7', 'Bump::' + name)
            continue
        I, r = arena.run_fn(ctx, b['id'], config)
        fw = [e for e in r.events if e.is_own() and e.kind == 'call' and (e.callee or '').endswith('::' + core)]
        cl = [x for x in db.fn_bodies() if x['kind'] == 'closure' and x['id'].startswith(b['id'] + '::{closure')]
        okv = len(fw) == 1 and fw[0].args[0] == P1 and len(cl) == 1
        if okv:
            I2, r2 = arena.run_fn(ctx, cl[0]['id'], config)
            okv = r2.ret is not None and ((r2.ret[0] == 'app' and r2.ret[1] == 'proj' and r2.ret[2] == P1 and r2.ret[3].endswith('.upvar0')) or (r2.ret[0] == 'load' and r2.ret[1][0] == 'fld' and r2.ret[1][2].endswith('.upvar0')))
        n7 += 1
        if not okv and not fw and own_value_init(I, r, P2_) is not None:
            okv = True      # alloc_with spelled out in place: the value written is the parameter itself
        if okv:
            ctx.ok('R7', 'Bump::%s stores the given value' % name, 'generator closure returns its captured value')
        else:
            ctx.violation('R7', 'Bump::' + name, 'value', 'Bump::%s must store exactly the value it was given' % name, b.get('span'))
    ctx.floor('R7', n7, 12, 'thin forwards checked for what they put into the slots')
    # ---- R8 the crate's own clients of the arena keep the allocation contract (a stale capacity / pointer / short reserve
    # makes a collection write into its neighbours)
    from . import clients
    clients.check(ctx, config, 'R8')
    # ---- R9 grow_zeroed zero-fills the tail of the block it returns (C12.R6), not memory next to it; R10 the growing primitives
    # of the arena Vec write only the slots they reserved (C13 formula clauses for push / insert / extend_with / append / ..)
    from .. import runner as _runner
    from . import c12 as _c12
    _c12.run(_runner.Sub(ctx, 'R9', 'C12', only={'R6', 'R8'}), config)
    if config != 'rel-default':
        from . import c13 as _c13
        _c13.run(_runner.Sub(ctx, 'R10', 'C13', only={'O2'}, match=_c13.growing_clause), config)
    # ---- R12 (requirement side, every allocating method incl. ones added later): whatever reference / slice / pointer a public
    # `alloc*` / `try_alloc*` method returns on success points into a reservation made in that very call - never at a dangling or
    # static address chosen by a shortcut (`if src.is_empty() { return &mut [] }`, a zero-sized fast path): such a result is not
    # aligned to MIN_ALIGN, was never initialised by the caller's initialiser, and is not inside the arena
    returned_points_into_reservation(ctx, db, config, 'R12')
    # value methods: the value is written exactly at the reserved pointer, once
    for name in VALUE_METHODS:
        b = arena.bump_method(db, name)
        if b is None:
            ctx.anchor_missing('R2', 'Bump::' + name)
            continue
        I, r = arena.run_fn(ctx, b['id'], config)
        fn = 'Bump::' + name
        resv = [e for e in r.events if e.is_own() and e.kind == 'call' and e.callee and 'NonNull<u8>' in ((I.db.by_path.get(e.callee) or {}).get('meta', {}).get('output') or '')]
        ws = [e for e in r.events if e.kind == 'call' and e.callee == 'core::ptr::write' and not (e.args[1][0] == 'agg' and e.args[1][1] == 'ChunkFooter')]
        ucs = [e for e in r.events if e.kind == 'usercall']
        base_ptr = None
        if resv:
            base_ptr = resv[0].ret if not (resv[0].ret[0] == 'phi' and I.variants_in(resv[0].ret) & {'Ok'}) else I.project_variant(None, resv[0].ret, 'Ok', '0')
        at_reserved = base_ptr is not None and len(ws) == 1 and (ws[0].args[0] == base_ptr or arena.is_reserved_pointer(I, ws[0].args[0], resv))
        if len(ws) == 1 and len(ucs) == 1 and at_reserved and ws[0].args[1][0] == 'call' and ws[0].args[1][1] == '<callable>':
            ctx.ok('R2', '%s: f() is called once and its result is written at the reserved pointer' % fn, 'term identity')
        else:
            ctx.violation('R2', fn, 'value-write', '%s does not write the initialiser result exactly once at the reserved pointer' % fn, b.get('span'))
    # ---- R3 copy discipline (shared with C12) + default realloc
    if config != 'rel-default':
        roles = c12.discover_roles(A)
        c12.copy_discipline(ctx, A, roles, c04.entry_specs(), 'R3', 7)
    dr = [b for b in db.fn_bodies() if b['meta'].get('name') == 'realloc' and (b['meta'].get('in_trait') or '').endswith('alloc::Alloc')]
    for b in dr:
        I, r = arena.run_fn(ctx, b['id'], config)
        cps = [e for e in r.events if e.kind == 'copy']
        want = app('min', app('size', ('param', 3)), ('param', 4))
        if len(cps) == 1 and cps[0].args[2] == want:
            ctx.ok('R3', 'default Alloc::realloc copies min(old_size, new_size) bytes', show(want))
        else:
            ctx.violation('R3', 'alloc::Alloc::realloc', 'copy-count', 'the default realloc copies %s, not min(old, new)' % [show(c.args[2])[:50] for c in cps], b.get('span'))
    # ---- R5 no live block is handed out again: gating of every finger-raising store
    n5 = 0
    for key, val in A.items():
        if val is None:
            continue
        I, res, body = val
        ords = c01.ordinal_keys([e for e in res.events if e.kind == 'store'])
        for e in res.events:
            if e.kind == 'store' and arena.footer_field(e) and arena.footer_field(e)[1] == 'ptr':
                cls = arena.classify_finger_store(I, res, e)
                if cls in ('RECLAIM', 'SAVED', 'EMPTY', 'FULL', 'OTHER') or cls.startswith('MIXED'):
                    if cls == 'EMPTY' and c01.creator_or_exclusive(I, e):
                        continue
                    n5 += 1
                    fn = arena.short(arena.innermost(e))
                    c01.check_finger_store(ctx, key, I, res, e, fn, ords.get((fn, e.block, e.span), 0), loc(e.span), set(c01.ENTRY_AXIOMS.get(key, ())), rules={'R1': 'R5', 'O2': 'R5', 'R3': 'R5'})
    ctx.floor('R5', n5, 8, 'finger-raising stores (reclaim / rewind) over the entry points')



def returned_points_into_reservation(ctx, db, config, rule):
    n = 0
    for b in db.fn_bodies():
        m = b['meta']
        if b['kind'] != 'assoc_fn' or m.get('impl_adt') != 'Bump' or m.get('impl_trait') or not m.get('pub'):
            continue
        nm = m.get('name') or ''
        if not (nm.startswith('alloc') or nm.startswith('try_alloc')) or nm in ('allocated_bytes', 'allocated_bytes_including_metadata', 'allocation_limit', 'allocation_limit_remaining'):
            continue
        out = m.get('output') or ''
        if not ('&' in out or 'NonNull' in out):
            continue
        I, r = arena.run_fn(ctx, b['id'], config)
        resv = [e.ret for e in r.events if e.kind == 'call' and e.callee and 'Bump' in e.callee and e.callee.split('::')[-1] in ('try_alloc_layout', 'alloc_layout', 'try_alloc_layout_fast', 'alloc_layout_slow') and e.ret is not None]
        if nm in ('alloc_layout', 'try_alloc_layout'):
            continue        # the reservation primitives themselves: C01 / C04
        pays = arena.success_payloads(I, r)
        if not pays:
            continue
        n += 1
        def leaves(t, depth=0):
            # every value a (merged, Option / Result wrapped) reservation result can stand for
            if depth > 12 or not isinstance(t, tuple) or not t:
                return [t]
            if t[0] == 'phi':
                return [y for _, v in t[2] for y in leaves(v, depth + 1)]
            if t[0] == 'agg' and t[1] in ('Option', 'Result'):
                return leaves(field_of(t, '0'), depth + 1) if t[2] in ('Some', 'Ok') else []
            return [t]
        rleaves = set()
        for rv in resv:
            rleaves.update(leaves(rv))
            rleaves.add(rv)
        bad = None
        for t, fs in pays:
            for x in arena.phi_leaves(arena.pointer_of(t)):
                if not any(rv == x or rv in subterms(x) for rv in rleaves if isinstance(rv, tuple) and rv and rv[0] not in ('c',)):
                    bad = x
        if bad is None:
            ctx.ok(rule, 'Bump::%s: every value it returns points into a reservation made in the call' % nm, '%d return alternatives, %d reservation calls' % (len(pays), len(resv)))
        else:
            ctx.violation(rule, 'Bump::' + nm, 'returns-unreserved', 'Bump::%s can return %s, which does not derive from any reservation made in the call (a dangling / static address from a shortcut path): not MIN_ALIGN-aligned, not in the arena, not filled by the initialiser' % (nm, show(bad)[:90]), b.get('span'))
    ctx.floor(rule, n, 20, 'allocating methods of Bump checked for what they return')
