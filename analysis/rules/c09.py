"""C09 — fallible methods never panic; failure changes nothing."""
from .. import arena, prover
from ..terms import *
from ..facts import loc
from . import c01

EXPLANATION = ("TermFlow over every public try_* method of Bump (callees inlined, user callbacks opaque): (R1) the set of panic / abort / unreachable sites that remain feasible "
               "(diverging calls, Option/Result unwraps whose failure variant is not excluded by the path facts, Assert terminators with a non-constant condition) must equal a small "
               "justified table (MIN_ALIGN constructor assertions required by C04; allocation_size_overflow and unreachable_unchecked guarded by the Layout invariant; the "
               "ExactSizeIterator 'too few elements' expect) — any other site is a violation; (R2) failure atomicity: every store to the arena or to an existing footer on the slow "
               "path happens under the success fact of the acquirer, the acquirer only writes into the block it just obtained; (R3) each infallible method and its try_ sibling have "
               "the same feasible panic sites except for the out-of-memory helper, which the infallible one calls only on the Err/None edge of the shared core; (O4) termination of "
               "the halving retry: on every path of the candidate generator that yields Some, the captured size is replaced by size/2 and either size > 0 holds or a captured flag is "
               "set to (size == 0) whose truth forces None on the next call — a lexicographic measure strictly decreases."
               ' (R5) exact refusal of the bumping function (shared with C18.O6); (R6) every Layout::from_size_align_unchecked site in the arena is justified (an invalid Layout aborts debug builds).')
RULE = "rule instance = (rule, entry point, site); distinct by (rule, entry, site)"

# (where, what) -> reason.   `where` = crate function that owns the site (closures attributed to their parent fn)
JUSTIFIED = {
    ('Bump::with_min_align', 'panic_fmt'): 'constructor assertions on MIN_ALIGN (power of two, <= CHUNK_ALIGN) are required behaviour (C04)',
    ('Bump::try_with_min_align_and_capacity', 'panic_fmt'): 'constructor assertions on MIN_ALIGN (power of two, <= CHUNK_ALIGN) are required behaviour (C04)',
    ('Bump::new_chunk_memory_details', 'allocation_size_overflow'): 'round_up(size, align<=2^63) and nswf+FOOTER_SIZE cannot overflow usize for a valid Layout (size <= isize::MAX; nswf is a rounded value minus OVERHEAD > FOOTER_SIZE)',
    ('round_up_to_unchecked', 'unreachable_unchecked'): 'round_up(size(L), align(L)) cannot overflow: Layout invariant A2',
    ('Bump::try_alloc_slice_fill_iter', 'Option::expect'): "'Iterator supplied too few elements': the caller's ExactSizeIterator lied about its length",
}


def owner(I, e):
    """(function that owns the panic site, what)"""
    st = [s[0] for s in e.stack]
    what = (e.callee or e.kind).split('::')[-1] if e.kind != 'panic' else e.callee
    # zero-argument local panic helpers (oom(), allocation_size_overflow()) name the site
    last = I.bodies.get(st[-1])
    if last is not None and last['argc'] == 0 and len(st) >= 2 and last['kind'] != 'closure':
        what = arena.short(st[-1]).split('::')[-1].split('<')[0]
        st = st[:-1]
    b = I.bodies.get(st[-1])
    fn = (b['meta'].get('parent_fn') if b is not None else None) or st[-1]
    return arena.short(fn), what


def panic_sites(I, res):
    out = {}
    for e in res.events:
        if e.kind == 'diverge' or e.kind == 'panic':
            k = owner(I, e)
            out.setdefault(k, []).append(e)
        elif e.kind == 'assert':
            if is_c(e.val):
                continue
            k = owner(I, e)
            out.setdefault((k[0], 'assert:' + str(e.extra.get('msg'))[:30]), []).append(e)
        elif e.kind == 'call' and e.callee and any(e.callee.endswith(x) for x in MAY_PANIC):
            k = owner(I, e)
            out.setdefault((k[0], e.callee.split('::')[-2] + '::' + e.callee.split('::')[-1]), []).append(e)
    return out


def short_user_iterator(e):
    """the site is `it.next().expect(..)` / `.unwrap()` on the item of a caller-supplied iterator: it fires only when that
    iterator yields fewer items than its ExactSizeIterator::len promised (documented panic of the *_fill_iter methods),
    wherever the expression sits (in the method, its closure, or a helper it was moved into)"""
    if e.kind == 'call' and (e.callee or '').split('::')[-1] in ('expect', 'unwrap') and 'Option' in (e.callee or '') and e.args:
        a = e.args[0]
        return isinstance(a, tuple) and a and a[0] == 'call' and a[1].endswith('Iterator::next') and not a[1].startswith('<')
    if e.kind in ('diverge', 'panic'):
        return any(f[0] == 'is' and f[2] == 'None' and isinstance(f[1], tuple) and f[1] and f[1][0] == 'call' and f[1][1].endswith('Iterator::next') and not f[1][1].startswith('<') for f in e.state.facts)
    return False


def size_was_validated(e):
    """the rounding / padding whose overflow edge leads to this panic operates on the size of a Layout value, or on an integer
    that a validating Layout constructor accepted on this very path (so it is <= isize::MAX and the additions cannot wrap)"""
    facts = e.state.facts
    validated = [f[1] for f in facts if f[0] == 'is' and f[2] in ('Ok', 'Some') and isinstance(f[1], tuple) and f[1][:1] == ('app',) and f[1][1] in ('layout_result', 'layout_array', 'layout_new', 'layout_for_value')]
    val_args = set()
    for v in validated:
        for a in v[2:]:
            if isinstance(a, tuple):
                val_args.add(a)
    nones = [f[1] for f in facts if f[0] == 'is' and f[2] == 'None' and isinstance(f[1], tuple) and f[1][:2] == ('app', 'checked_add')]

    def existing_value_size(x):
        # size_of::<T>(), len(existing slice / str) * size_of::<T>(): the size of a value that exists (<= isize::MAX)
        if not isinstance(x, tuple):
            return False
        if x[0] == 'c':
            return True
        if x[0] == 'sym' and str(x[1]).startswith(('sizeof(', 'alignof(')):
            return True
        if x[0] == 'app' and x[1] in ('sizeof', 'alignof'):
            return True
        if x[0] == 'app' and x[1] == 'len' and len(x) == 3 and isinstance(x[2], tuple) and x[2][0] in ('param', 'call', 'load'):
            return True
        if x[0] == 'app' and x[1] == 'mul' and len(x) == 4:
            return existing_value_size(x[2]) and existing_value_size(x[3])
        return False

    def bounded(x):
        if any(isinstance(t, tuple) and t[:2] == ('app', 'size') for t in subterms(x)):
            return True
        if existing_value_size(x):
            return True
        # an already rounded / padded value: bounded when the request inside every rounding is
        inner = [t[2] for t in subterms(x) if isinstance(t, tuple) and t[:2] == ('app', 'round_up') and len(t) > 3 and t is not x]
        innermost = [q for q in inner if not any(isinstance(t, tuple) and t[:2] == ('app', 'round_up') for t in subterms(q) if t is not q)]
        if innermost and all(bounded(q) for q in innermost):
            return True
        return any(a in subterms(x) or x == a for a in val_args)
    if nones:
        return all(bounded(n[2]) for n in nones)
    # the later addition (+ OVERHEAD / + FOOTER_SIZE on an already rounded value): the request it derives from must be bounded
    if bool(validated) or any(isinstance(t, tuple) and t[:2] == ('app', 'size') for f in facts for t in subterms(f)):
        return True
    # the request inside the rounded value
    reqs = [t[2] for f in facts for t in subterms(f) if isinstance(t, tuple) and t[:2] == ('app', 'round_up') and len(t) > 3]
    return bool(reqs) and all(bounded(q) for q in reqs)


def min_align_validation(e):
    """the must-facts of the panic site say that the const parameter MIN_ALIGN is not a supported alignment"""
    M = sym('MIN_ALIGN')
    for f in e.state.facts:
        if f[0] == 'lt' and len(f) == 3 and is_c(f[1]) and f[2] == M:
            return True
        if f[0] == 'nottrue' and isinstance(f[1], tuple) and f[1] == ('app', 'is_pow2', M):
            return True
        if f[0] == 'nottrue' and isinstance(f[1], tuple) and f[1][0] == 'call' and f[1][1].endswith('is_power_of_two') and f[1][2] == (M,):
            return True
    return False


MAY_PANIC = ('Result::<T, E>::unwrap_err', 'Result::<T, E>::expect_err', 'Index::index', 'IndexMut::index_mut', '::copy_from_slice', '::split_at', '::split_at_mut',
             'slice::index::<impl core::ops::index::Index<I> for [T]>::index', 'slice::index::<impl core::ops::index::IndexMut<I> for [T]>::index_mut')


def try_entries(db):
    return [b for b in db.fn_bodies() if b['kind'] == 'assoc_fn' and b['meta'].get('impl_adt') == 'Bump' and b['meta'].get('pub') and not b['meta'].get('impl_trait') and b['meta']['name'].startswith('try_')]


def run(ctx, config='rel-all'):
    db = ctx.db(config)
    ctx.assume("A2 Layout invariant", "abort-freedom inside std and the global allocator is not analysed", "user callbacks (closures, iterators, Clone/Default) may panic: not counted",
               "release-like MIR (debug assertions off) in the quick tier; the thorough tier repeats R1 with debug assertions and overflow checks on")
    entries = try_entries(db)
    ctx.floor('R1', len(entries), 15, 'public try_* methods of Bump')
    sites_by_name = {}
    for b in entries:
        I, r = arena.run_fn(ctx, b['id'], config)
        sites = panic_sites(I, r)
        sites_by_name[b['meta']['name']] = (I, r, sites)
        for k, evs in sorted(sites.items()):
            if k in JUSTIFIED and k[1] == 'allocation_size_overflow' and not all(size_was_validated(e) for e in evs):
                # the table entry rests on "the request is a valid Layout": that has to be visible on the path, not assumed
                bad = [e for e in evs if not size_was_validated(e)][0]
                ctx.violation('R1', b['meta']['name'], 'panic:%s:%s:unvalidated-size' % k, 'try_ method %s reaches the size-overflow panic in %s with a size that no Layout constructor has validated on that path (a caller-supplied usize near usize::MAX panics instead of returning Err)' % (b['meta']['name'], k[0]), bad.span)
            elif k in JUSTIFIED:
                ctx.ok('R1', '%s: reachable %s in %s' % (b['meta']['name'], k[1], k[0]), 'justified: ' + JUSTIFIED[k])
            elif k[1] in ('Option::expect', 'Option::unwrap', 'expect', 'unwrap') and all(short_user_iterator(e) for e in evs):
                ctx.ok('R1', '%s: reachable %s in %s' % (b['meta']['name'], k[1], k[0]), "justified: fires only when the caller's iterator yields fewer items than its len() promised (documented)")
            elif all(min_align_validation(e) for e in evs):
                # wherever the two constructor assertions sit (inline, or in a helper they were extracted into): the panic is
                # reachable only for an unsupported MIN_ALIGN, which C04 requires to be refused with a panic
                ctx.ok('R1', '%s: reachable %s in %s' % (b['meta']['name'], k[1], k[0]), 'justified: panics only under !is_power_of_two(MIN_ALIGN) or MIN_ALIGN > CHUNK_ALIGN (required constructor validation, C04)')
            elif k[1].startswith('assert:') and all(e.kind == 'assert' and I.refute(e.state, I.truth(e.state, e.val, not bool(e.extra.get('expected')))) for e in evs):
                # a compiler-inserted check (bounds, overflow, ..) whose failing edge contradicts the path facts: not a feasible panic
                ctx.ok('R1', '%s: %s in %s cannot fail' % (b['meta']['name'], k[1], k[0]), 'refuted: ' + str(I.refute(evs[0].state, I.truth(evs[0].state, evs[0].val, not bool(evs[0].extra.get('expected')))))[:80])
            else:
                ctx.violation('R1', k[0], 'panic:%s' % k[1], 'a panic/abort site (%s in %s) is feasible from the fallible method %s [%s]' % (k[1], k[0], b['meta']['name'], ' > '.join(arena.short(s[0]) for s in evs[0].stack)), evs[0].span)
        if not sites:
            ctx.ok('R1', '%s: no feasible panic site' % b['meta']['name'], '%d events' % len(r.events))
        # ---- R2 failure atomicity on the slow path
        gall = [e for e in r.events if e.kind == 'galloc']
        for e in r.events:
            if e.kind != 'store':
                continue
            bf = arena.bump_field(e)
            ff = arena.footer_field(e)
            fa = arena.footer_agg(e)
            if fa:
                g = field_of(fa[1], 'data')
                if g is not None and g in subterms(fa[0]):
                    ctx.ok('R2', '%s: the acquirer writes the footer inside the block it just obtained' % b['meta']['name'], 'address term contains the alloc result')
                else:
                    ctx.violation('R2', arena.short(arena.innermost(e)), 'footer-outside-fresh-block', 'a ChunkFooter is written at %s, which is not inside the freshly obtained block' % show(fa[0])[:80], e.span)
            elif bf and bf[1] == 'current_chunk_footer':
                okv = any(f[0] == 'is' and f[2] in ('Some', 'Continue', 'Ok') and any(isinstance(t, tuple) and t and t[0] == 'app' and t[1] == 'galloc' for t in subterms(f[1])) for f in e.state.facts)
                if okv:
                    ctx.ok('R2', '%s: current_chunk_footer is replaced only under the success fact of the acquirer' % b['meta']['name'], 'must-fact is(.. galloc .., Some)')
                else:
                    ctx.violation('R2', arena.short(arena.innermost(e)), 'publish-before-success', 'current_chunk_footer is overwritten on a path where the new chunk is not known to have been acquired', e.span)
            elif ff and ff[1] != 'ptr':
                Fp = ff[0]
                fresh = any(isinstance(t, tuple) and t and t[0] == 'app' and t[1] == 'galloc' for t in subterms(Fp))
                if not fresh:
                    ctx.violation('R2', arena.short(arena.innermost(e)), 'store(existing footer.%s)' % ff[1], 'a fallible allocation writes %s of an existing chunk' % ff[1], e.span)
    # a failed call holds exactly the memory it held before: no acquired chunk is dropped on the way (shared with C03.R5)
    from . import c03
    A = arena.analyse(ctx, config)
    c03.check_no_leak(ctx, {k: v for k, v in A.items() if k in ('try_alloc_layout', 'alloc_layout', 'try_with_min_align_and_capacity')}, 'R2', 2)
    # ---- R3 sibling agreement
    npairs = 0
    allb = {b['meta']['name']: b for b in db.fn_bodies() if b['kind'] == 'assoc_fn' and b['meta'].get('impl_adt') == 'Bump' and b['meta'].get('pub') and not b['meta'].get('impl_trait')}
    for tname, (I, r, tsites) in sorted(sites_by_name.items()):
        base = tname[4:]
        cands = [base, base.replace('try_', '')]
        sib = None
        for c in (tname.replace('try_', '', 1), ):
            if c in allb:
                sib = allb[c]
        if tname == 'try_alloc_try_with':
            sib = allb.get('alloc_try_with')
        if sib is None:
            ctx.violation('R3', 'Bump::' + tname, 'no-sibling', 'fallible method %s has no infallible sibling' % tname)
            continue
        npairs += 1
        I2, r2 = arena.run_fn(ctx, sib['id'], config)
        s2 = panic_sites(I2, r2)
        # a site inside the method's own body / closures is the same site in the sibling's own body / closures
        tn, sn = arena.short(db.bodies[allb[tname]['id']]['id']) if tname in allb else 'Bump::' + tname, arena.short(sib['id'])
        extra = {k: v for k, v in s2.items() if k not in tsites and not (k[0] == sn and (tn, k[1]) in tsites)}
        missing = {k: v for k, v in tsites.items() if k not in s2 and not (k[0] == tn and (sn, k[1]) in s2)}
        bad = False
        for k, evs in extra.items():
            if k[1] == 'oom' or k[1].endswith('oom'):
                # must be on the failure edge of the shared core
                for e in evs:
                    onerr = any(f[0] == 'is' and f[2] in ('Err', 'None', 'Break') for f in e.state.facts)
                    if not onerr:
                        bad = True
                        ctx.violation('R3', arena.short(sib['id']), 'oom-not-on-failure-edge', 'the out-of-memory panic of %s is not confined to the Err/None edge of the fallible core' % sib['meta']['name'], e.span)
            else:
                bad = True
                ctx.violation('R3', arena.short(sib['id']), 'extra-panic:%s' % k[1], '%s can panic at %s in %s where %s cannot: the two must differ only by the out-of-memory panic' % (sib['meta']['name'], k[1], k[0], tname), evs[0].span)
        for k in missing:
            if k in JUSTIFIED:
                continue
        can_fail = any(t[0] == 'agg' and t[2] in ('Err', 'None') for t, _ in arena.alternatives(I, r.ret, set())) if r.ret is not None else True
        if not can_fail:
            ctx.ok('R3', '%s / %s: the fallible method has no failure return at all (nothing to agree on)' % (sib['meta']['name'], tname), 'return alternatives')
            continue
        if not any(k[1].endswith('oom') for k in extra):
            bad = True
            ctx.violation('R3', arena.short(sib['id']), 'no-oom', '%s never reaches the out-of-memory panic: it cannot be "panics exactly where %s returns Err"' % (sib['meta']['name'], tname))
        # both go through the same fallible core
        core_t = {e.callee for e in r.events if e.kind == 'call' and e.callee and e.callee.endswith('::try_alloc_layout')} | ({'ctor'} if any(e.kind == 'galloc' for e in r.events) and 'with' in tname or 'new' in tname else set())
        core_s = {e.callee for e in r2.events if e.kind == 'call' and e.callee and e.callee.endswith('::try_alloc_layout')} | ({'ctor'} if any(e.kind == 'galloc' for e in r2.events) and ('with' in tname or 'new' in tname) else set())
        if tname != 'try_alloc_layout' and not (core_t and core_t & core_s or (any(e.kind == 'galloc' for e in r.events) and any(e.kind == 'galloc' for e in r2.events))):
            bad = True
            ctx.violation('R3', arena.short(sib['id']), 'different-core', '%s and %s do not share the same fallible core' % (sib['meta']['name'], tname))
        if not bad:
            ctx.ok('R3', '%s / %s: same feasible panic sites except oom on the failure edge' % (sib['meta']['name'], tname), '%d vs %d sites' % (len(s2), len(tsites)))
    ctx.floor('R3', npairs, 15, 'fallible/infallible pairs')
    # ---- O4 termination of the halving retry
    check_termination(ctx, db, config)
    # ---- R5 'a later request that fits still succeeds' / Err only when the memory is not there: the bumping function refuses
    # only requests strictly larger than the space left (shared with C18.O6) -- otherwise the slow path acquires a chunk
    # sized exactly for the request and the retry is refused again (debug_assert / spurious Err with the chunk kept)
    from . import c18, c19
    c18.check_exact_refusal(ctx, arena.analyse(ctx, config), config, 'R5')
    # ---- R6 no abort: unchecked Layout construction in the arena is justified (an invalid Layout is a non-unwinding
    # precondition panic in debug builds and undefined behaviour in release builds); shared with C19.R5
    c19.check_unchecked_layouts(ctx, db, config, 'R6', lambda sp: sp.startswith('src/lib.rs') or sp.startswith('src/alloc.rs'))
    # ---- R7 'when it returns Err ... its live blocks are intact': the Err arms of the fallible initialiser methods rewind only
    # what they reserved (the obligations of C11)
    from .. import runner
    from . import c11
    c11.run(runner.Sub(ctx, 'R7', 'C11'), config)
    # ---- R8 'infallible methods panic, never abort': nothing in the crate calls an aborting primitive (std's handle_alloc_error,
    # process::abort, intrinsics::abort); the crate's own handle_alloc_error must stay a panic
    ABORTS = ('alloc::alloc::handle_alloc_error', 'std::process::abort', 'core::intrinsics::abort', 'std::alloc::handle_alloc_error', 'core::panicking::panic_nounwind', 'core::panicking::panic_cannot_unwind')
    nab = 0
    for b in db.fn_bodies():
        for bi, t in db.calls(b):
            c = t['callee']
            p_ = c.get('path') or ''
            if not c.get('local') and any(p_ == a or p_.endswith('::' + a.split('::')[-1]) and a.split('::')[-1] in ('abort',) and 'process' in p_ for a in ABORTS) or (not c.get('local') and p_ in ABORTS):
                nab += 1
                ctx.violation('R8', arena.short(b['id']), 'aborts:' + p_.split('::')[-1], '%s calls %s, which aborts the process instead of unwinding: an infallible method would abort where its fallible twin returns Err' % (arena.short(b['id']), p_), t.get('span'))
    if not nab:
        ctx.ok('R8', 'no function of the crate calls an aborting primitive', 'call inventory over %d bodies' % len(db.fn_bodies()))
    hb = [b for b in db.fn_bodies() if b['kind'] == 'fn' and b['meta'].get('name') == 'handle_alloc_error' and (b.get('span') or '').startswith('src/alloc.rs')]
    if hb:
        Ih, rh = arena.run_fn(ctx, hb[0]['id'], config)
        pan = [e for e in rh.events if e.kind in ('diverge', 'panic') and 'panic' in (e.callee or '')]
        if pan and rh.ret in (None, ('never',)) or pan:
            ctx.ok('R8', "the crate's handle_alloc_error panics (unwinds)", 'diverges through core::panicking')
        else:
            ctx.violation('R8', 'alloc::handle_alloc_error', 'not-a-panic', "the crate's handle_alloc_error no longer panics: allocation failure in an infallible collection method must unwind", hb[0].get('span'))
    elif config != 'rel-default':
        ctx.anchor_missing('R8', 'alloc::handle_alloc_error')
    # ---- R4 debug builds
    if config == 'rel-all':
        check_debug(ctx)


def check_termination(ctx, db, config):
    val = arena.analyse(ctx, config).get('try_alloc_layout')
    if not val:
        return
    I, res, body = val
    gens = [e for e in res.events if e.kind == 'call' and e.callee == 'core::iter::sources::from_fn::from_fn']
    hl = [] if gens else arena.halving_loops(res)
    ctx.floor('O4', len(gens) + len(hl), 1, 'candidate searches (iter::from_fn generator, or a halving loop) on the slow path')
    for key, rec, l in hl:
        # the search written as a plain loop: the measure is the candidate size itself; every back edge halves it and is
        # taken only while it is > 0 (so size / 2 < size)
        sym = rec['sym'][l]
        okp = True
        for st in rec['step']:
            P = prover.Prover(I, st['facts'], use_J=False)
            okp = okp and P.lt(C(0), sym)
        fnn = arena.short(key[0])
        if okp:
            ctx.ok('O4', '%s: the retry loop halves the candidate size on every back edge and continues only while it is > 0' % fnn, 'measure size decreases (%d back edge(s))' % len(rec['step']))
        else:
            ctx.violation('O4', fnn, 'no-progress', 'a back edge of the retry loop is taken without size > 0 being established (size/2 < size): the retry loop need not terminate when the global allocator keeps refusing', body.get('span'))
    if not gens and not hl:
        # every loop of the slow path must have a decreasing measure; none was found for these
        for key, rec in res.loops.items():
            if key[0].endswith('alloc_layout_slow'):
                ctx.violation('O4', arena.short(key[0]), 'no-halving', 'the retry loop of the slow path carries no size that every back edge halves', body.get('span'))
    from ..stdmodel import _mutated_upvars
    for ge in gens:
        clo = ge.args[0]
        if clo[0] != 'agg':
            ctx.violation('O4', 'slow path', 'generator-shape', 'the candidate generator is not a closure')
            continue
        cid = clo[1][len('closure:'):]
        mut = sorted(_mutated_upvars(I, cid))
        J, r = arena.run_fn(ctx, cid, config)
        env = ('param', 1)
        fnn = arena.short(cid)

        def up_lv(k):
            return ('deref', ('load', ('fld', ('deref', env), 'closure:%s.upvar%d' % (cid, k)), 0))
        stores = {}
        for e in r.events:
            if e.kind == 'store' and len(e.stack) == 1:
                for k in mut:
                    if e.lv == up_lv(k):
                        stores.setdefault(k, []).append(e)
        size_k = [k for k in mut if any(s.val[0] == 'app' and s.val[1] == 'div2' for s in stores.get(k, []))]
        if len(size_k) != 1:
            ctx.violation('O4', fnn, 'no-halving', 'no captured size is halved by the candidate generator (mutated captures: %s)' % mut, ge.span)
            continue
        ks = size_k[0]
        B0 = ('load', up_lv(ks), 0)
        hs = stores[ks]
        if not all(s.val == ('app', 'div2', B0) for s in hs):
            ctx.violation('O4', fnn, 'halving-term', 'the captured size is not replaced by exactly size/2: %s' % [show(s.val)[:40] for s in hs], hs[0].span)
            continue
        flags = [k for k in mut if k != ks]
        # Some-return alternatives
        alts = arena.alternatives(J, r.ret, set(r.ret_state.facts) if r.ret_state else set())
        somes = [(t, f) for t, f in alts if not (t[0] == 'agg' and t[2] == 'None')]
        nsome = 0
        okall = True
        for t, facts in somes:
            nsome += 1
            P = prover.Prover(J, facts, use_J=False)
            progress = P.lt(C(0), B0)
            via_flag = None
            for kf in flags:
                E0 = ('load', up_lv(kf), 0)
                fst = stores.get(kf, [])
                sets_on_zero = any(s.val == cmp('eq', B0, C(0)) or s.val == cmp('eq', C(0), B0) for s in fst)
                was_false = any((f[0] in ('nottrue',) and f[1] == E0) or (f[0] == 'eq' and E0 in f[1:] and C(0) in f[1:]) for f in facts)
                if sets_on_zero and was_false:
                    via_flag = kf
            if progress or via_flag is not None:
                ctx.ok('O4', '%s: a Some path halves the size and %s' % (fnn, 'size > 0 holds' if progress else 'sets flag upvar%d := (size == 0), which was false on entry' % via_flag), 'lexicographic measure (flag, size) decreases')
            else:
                okall = False
        # all stores of the size happen on Some paths: every Some path passes a halving store (must-pass-through)
        g = J.cfg(db.bodies[cid])
        hb = {s.block for s in hs}
        if not okall:
            ctx.violation('O4', fnn, 'no-progress', 'a path of the candidate generator yields Some without making progress: neither size > 0 (so size/2 < size) nor an exhaustion flag set on size == 0 is established; the retry loop need not terminate when the global allocator keeps refusing', ge.span)
        if flags:
            # the flag must force None: no Some alternative under flag == true
            for kf in flags:
                E0 = ('load', up_lv(kf), 0)
                leak = [1 for t, facts in somes if any(f[0] == 'true' and f[1] == E0 for f in facts)]
                if leak:
                    ctx.violation('O4', fnn, 'flag-ignored', 'the generator can still yield Some after its exhaustion flag was set', ge.span)
        ctx.floor('O4.some', nsome, 1, 'Some-returning paths of the generator')


DEBUG_JUSTIFIED = [
    # (owner function, regex on the condition shape, why the debug-only check cannot fire on a try_* path although the lemma library cannot show it)
    ('Bump::new_chunk_memory_details', r'Assert\(Overflow\(Add', 'chunk sizing adds OVERHEAD/FOOTER_SIZE to values bounded by the Layout invariant and by 2x the current chunk (A1, tabled in C19)'),
    ('Bump::new_chunk', r'Assert\(Overflow\(Add', 'allocated_bytes accumulates sizes of live blocks: bounded by the address space'),
    ('Bump::alloc_layout_slow', r'mod\(load\[\*\(.{0,60}?(iter_any|galloc\()', 'the new chunk was requested with an alignment the request alignment divides (C04.O3, A4)'),
    ('Bump::alloc_layout_slow', r'is_some\(phi', 'the retry on the fresh chunk succeeds because the chunk was sized for the request (C01.O5); for align > 16 this needs number theory outside the lemma set (stated as not decided)'),
    (r'Bump::(try_)?alloc_slice_\w+', r'eq\(&, &\)', 'Layout::for_value(result) == Layout::array::<T>(len): same element type and count (the owner is a regex: the worker may be inlined into its callers)'),
    (r'Bump::try_alloc(_try)?(_with)?', r'Assert\((Null|Misaligned)PointerDerefer', 'rustc UB check on &mut *p for p returned by try_alloc_layout(Layout::new::<T>()): non-null and aligned to align_of::<T>() (C04.O2, C01.O2); the owner is a regex: the value methods may or may not delegate to each other'),
    ('Bump::try_with_min_align_and_capacity', r"\('lt', '16', 'MIN_ALIGN'\)", 'the required constructor assertion MIN_ALIGN <= CHUNK_ALIGN (C04)'),
    ('Bump::with_min_align', r"\('lt', '16', 'MIN_ALIGN'\)", 'the required constructor assertion MIN_ALIGN <= CHUNK_ALIGN (C04)'),
    ('round_up_to_unchecked', r'.*', 'round_up(size(L), align(L)) cannot overflow: Layout invariant A2 (also in the release table)'),
    ('Bump::new_chunk_memory_details', r'allocation_size_overflow', 'as in the release table'),
]


def debug_sites(ctx, config='dbg-all'):
    """(discharged, open) debug-build panic edges reachable from the try_* methods, keyed by owner + condition shape"""
    import re
    db = ctx.db(config)
    norm = re.compile(r'(@\d+|#\d+|\?\d+:|loop\d+:|_\d+@\d+)')
    done, opened = {}, {}
    for b in try_entries(db):
        I = arena.ArenaInterp(db, refute_panic_edges=True)
        r = I.run_entry(b['id'])
        for e in r.events:
            if e.kind in ('assert_open', 'assert_discharged'):
                # the tested condition itself first, facts derived from it (through the alternatives of a phi) after
                shape = sorted(((f[0],) + tuple(norm.sub('', show(x))[:70] for x in f[1:]) for f in e.extra['added'] if f[0] in ('lt', 'le', 'eq', 'ne', 'true', 'nottrue')),
                               key=lambda f: (f[0] not in ('true', 'nottrue'), f))
                k = (owner(I, e)[0], str(shape[:2]))
                (done if e.kind == 'assert_discharged' else opened).setdefault(k, []).append((b['meta']['name'], e))
            elif e.kind == 'assert' and not is_c(e.val):
                k = (owner(I, e)[0], 'Assert(%s) %s' % (str(e.extra.get('msg'))[:24], norm.sub('', show(e.val))[:70]))
                (done if e.extra.get('why') else opened).setdefault(k, []).append((b['meta']['name'], e))
    return done, opened


def check_debug(ctx):
    """R4: repeat the panic analysis with debug assertions and overflow checks on: every debug-only panic edge reachable
    from a try_* method must be refuted by the prover or be in the justified table"""
    db = ctx.db('dbg-all')
    n = 0
    und = []
    for b in try_entries(db):
        I, r = arena.run_fn(ctx, b['id'], 'dbg-all')
        for k, evs in panic_sites(I, r).items():
            n += 1
            if k not in JUSTIFIED:
                und.append((b['meta']['name'], k, loc(evs[0].span)))
    ctx.extra['debug_build_panic_sites'] = {'entries': len(try_entries(db)), 'sites': n, 'not_in_release_table': sorted({'%s in %s' % (k[1], k[0]) for _, k, _ in und})[:60]}
    done, opened = debug_sites(ctx)
    ctx.extra['debug_assertions'] = {'discharged_shapes': len(done), 'open_shapes': len(opened), 'open': sorted('%s: %s' % k for k in opened)[:80]}
    import re
    for k, lst in sorted(done.items()):
        ctx.ok('R4', 'debug build: %s cannot fail: %s' % k, (lst[0][1].extra.get('why') or '') + ' (%d contexts)' % len(lst))
    for k, lst in sorted(opened.items()):
        just = None
        for own, rx, why in DEBUG_JUSTIFIED:
            if (k[0] == own or re.fullmatch(own, k[0])) and re.search(rx, k[1]):
                just = why
        if just:
            ctx.ok('R4', 'debug build: %s, %s' % k, 'not discharged by the lemma library; tabled: ' + just)
        else:
            e = lst[0][1]
            ctx.violation('R4', k[0], 'debug-assert:' + k[1][:70], 'in a debug build the fallible method %s can panic at a debug assertion / overflow check in %s whose condition is neither provable from the path facts and the chunk invariant nor tabled: %s' % (lst[0][0], k[0], k[1][:160]), e.span)
    ctx.floor('R4', len(done), 100, 'debug-build assertion shapes discharged')
