"""C04 — returned pointers honour the requested and the minimum alignment."""
from .. import arena, prover
from ..terms import *
from ..facts import loc
from . import c01

EXPLANATION = ("TermFlow over the arena entry points: (O1) every value stored into a chunk's bump finger is proved aligned to MIN_ALIGN; "
               "(O2) every success value returned by try_alloc_layout / Alloc::{alloc,realloc} / Allocator::{allocate,shrink,grow,grow_zeroed} is proved aligned to the "
               "requested layout's alignment and to MIN_ALIGN, per return alternative under the facts of its path; (O3) every chunk is requested from the global allocator with an "
               "alignment that CHUNK_ALIGN, MIN_ALIGN and the request's alignment all divide; (R4) every path of every public constructor that returns an arena passed the "
               "is_power_of_two(MIN_ALIGN) and MIN_ALIGN <= CHUNK_ALIGN assertions; (R5) type facts: the static empty chunk (finger of a chunk-less arena) is aligned to CHUNK_ALIGN.")
RULE = "rule instance = (rule, entry point, store site or return alternative); distinct by (rule, entry, site)"

# entry -> (index of requested-layout parameter, axioms about the incoming block)
def entry_specs():
    p = lambda i: ('param', i)
    blk = lambda ptr, old: [('aligned', p(ptr), app('align', p(old))), ('aligned', p(ptr), arena.MIN)]
    return {
        'try_alloc_layout': (p(2), []),
        'alloc_layout': (p(2), []),
        'Alloc::alloc': (p(2), []),
        'Allocator::allocate': (p(2), []),
        'Allocator::shrink': (p(4), blk(2, 3) + [('le', app('size', p(4)), app('size', p(3)))]),
        'Allocator::grow': (p(4), blk(2, 3)),
        'Allocator::grow_zeroed': (p(4), blk(2, 3)),
        'Alloc::realloc': (('layout', p(4), app('align', p(3))), blk(2, 3)),
    }


def run(ctx, config='rel-all'):
    A = arena.analyse(ctx, config)
    db = ctx.db(config)
    ctx.assume("A1 unchecked add/mul do not overflow", "A2 Layout invariant", "A3 is what rule R4 establishes for every constructed arena",
               "A4 global allocator honours layout.align()", "J chunk invariant at footer loads (guaranteed by C01/C04 store obligations)",
               "U blocks passed to shrink/grow/realloc were returned by this arena for the given old layout (aligned to align(old) and MIN_ALIGN)")
    n_sites = set()
    specs = entry_specs()
    for key, val in A.items():
        if val is None:
            if not (config != 'rel-all' and key.startswith('Allocator::')):
                ctx.anchor_missing('R0', 'arena entry point ' + key)
            continue
        I, res, body = val
        axioms = set(specs.get(key, (None, []))[1])
        axioms |= set(c01.ENTRY_AXIOMS.get(key, ()))
        st_events = [e for e in res.events if e.kind == 'store']
        ords = c01.ordinal_keys(st_events)
        for e in st_events:
            fn = arena.short(arena.innermost(e))
            o = ords.get((fn, e.block, e.span), 0)
            ff = arena.footer_field(e)
            fa = arena.footer_agg(e)
            if ff and ff[1] == 'ptr':
                P = arena.mk_prover(I, e, res, axioms | arena.reclaim_precondition(I, e, ff[0]))
                site = 'store#%d(ChunkFooter.ptr)' % o
                n_sites.add((fn, o))
                if P.aligned(e.val, arena.MIN):
                    ctx.ok('O1', '%s %s via %s' % (fn, site, key), 'aligned(%s, MIN_ALIGN)' % show(e.val)[:80])
                else:
                    ctx.violation('O1', fn, site, 'cannot establish that the value stored into the bump finger is aligned to MIN_ALIGN: %s [%s]' % (show(e.val)[:160], arena.stack_str(e)), e.span)
            elif fa:
                P = arena.mk_prover(I, e, res, axioms)
                ptr = field_of(fa[1], 'ptr')
                n_sites.add((fn, 'agg%d' % o))
                if ptr is not None and P.aligned(ptr, arena.MIN):
                    ctx.ok('O1', '%s write#%d(ChunkFooter{..}).ptr via %s' % (fn, o, key), 'initial finger aligned to MIN_ALIGN')
                else:
                    ctx.violation('O1', fn, 'write#%d(ChunkFooter{..}).ptr' % o, 'initial finger of a new chunk not provably aligned to MIN_ALIGN', e.span)
        # O3: alignment of chunk requests
        for e in res.events:
            if e.kind == 'galloc':
                L = e.args[0]
                fn = arena.short(arena.innermost(e))
                al = L[2] if L[0] == 'layout' else app('align', L)
                P = arena.mk_prover(I, e, res, axioms)
                req = c01.request_layout(I, e)
                wants = [('CHUNK_ALIGN', C(16)), ('MIN_ALIGN', arena.MIN)]
                if req is not None:
                    wants.append(('align(request)', app('align', req)))
                else:
                    ctx.violation('O3', fn, 'call(global alloc):request', 'request layout of the acquiring entry not found', e.span)
                for nm, d in wants:
                    if P.divides(d, al):
                        ctx.ok('O3', '%s global alloc via %s: %s divides %s' % (fn, key, nm, show(al)[:60]), 'L4 max lower bounds')
                    else:
                        ctx.violation('O3', fn, 'call(global alloc):' + nm, 'chunk requested with alignment %s, which %s is not known to divide [%s]' % (show(al)[:80], nm, arena.stack_str(e)), e.span)
        # O2: returned pointers
        if key in specs:
            req, _ = specs[key]
            pays = arena.success_payloads(I, res)
            if not pays:
                ctx.violation('O2', arena.short(body['id']), 'return', 'no success return value found for entry ' + key)
            for i, (t, facts) in enumerate(pays):
                ptr = arena.pointer_of(t)
                ax = set(axioms)
                for e in res.events:
                    if e.kind == 'store':
                        bf = arena.bump_field(e)
                        if bf and bf[1] == 'current_chunk_footer':
                            ax.add(('footer', e.val))
                P = prover.Prover(I, facts, extra_axioms=ax)
                for nm, d in (('requested alignment', app('align', req)), ('MIN_ALIGN', arena.MIN)):
                    if P.aligned(ptr, d):
                        ctx.ok('O2', '%s return alternative %d: aligned to %s' % (key, i, nm), show(ptr)[:100])
                    else:
                        ctx.violation('O2', arena.short(body['id']), 'return:%s' % nm.replace(' ', '_'),
                                      'cannot establish that the pointer returned on success (alternative %d: %s) is aligned to the %s' % (i, show(ptr)[:200], nm), body.get('span'))
    ctx.floor('O1', len(n_sites), 9, 'finger store sites with an alignment obligation')
    check_constructors(ctx, config)
    check_sentinel(ctx, config)
    # ---- R7 every reference / slice a public alloc* method returns derives from a reservation made in that call (the aligned
    # pointer O2 speaks about), never from a shortcut that answers with a dangling address (`&mut []` is aligned for T, not for
    # MIN_ALIGN): C02.R12 evaluated here
    from . import c02
    c02.returned_points_into_reservation(ctx, ctx.db(config), config, 'R7')


def contains_bump_agg(t, depth=0):
    if not isinstance(t, tuple) or depth > 8:
        return False
    if t and t[0] == 'agg' and t[1] == 'Bump':
        return True
    return any(contains_bump_agg(x, depth + 1) for x in t if isinstance(x, tuple))


def check_constructors(ctx, config):
    db = ctx.db(config)
    ctors = []
    for b in db.fn_bodies():
        m = b['meta']
        if b['kind'] not in ('fn', 'assoc_fn') or not m.get('pub'):
            continue
        out = m.get('output') or ''
        if ('Bump' in (m.get('impl_self') or '')) and (out.startswith('Bump<') or out == 'Bump' or 'Result<Bump' in out):
            ctors.append(b)
    ctx.floor('R4', len(ctors), 8, 'public constructors returning an arena')
    for b in ctors:
        I, r = arena.run_fn(ctx, b['id'], config)
        alts = []
        for bi, st, v in r.returns:
            for t, facts in arena.alternatives(I, v, set(st.facts)):
                if contains_bump_agg(t):
                    alts.append((t, facts))
        if not alts:
            ctx.violation('R4', arena.short(b['id']), 'no-arena-return', 'constructor has no analysable return of an arena value')
            continue
        for i, (t, facts) in enumerate(alts):
            P = prover.Prover(I, facts, use_J=False)
            pow2 = any(f[0] == 'true' and f[1][0] == 'app' and f[1][1] == 'is_pow2' and f[1][2] == arena.MIN for f in facts) or is_c(arena.MIN)
            m = b['meta']
            generic = any(g == 'const:MIN_ALIGN' for g in m.get('generics', []))
            if not generic:
                # Bump<1> only: MIN_ALIGN is the literal 1 in this impl; the callee it delegates to is checked generically
                ctx.ok('R4', '%s (non-generic, delegates)' % arena.short(b['id']), 'constructs through a generic constructor that is itself checked')
                continue
            le16 = P.le(arena.MIN, C(16)) if any(f[0] in ('le', 'lt') and arena.MIN in f for f in facts) else False
            # ... and not more than that: every supported minimum alignment reaches this return (a validation that is
            # too strict refuses an arena the property promises)
            refused = []
            for v in (1, 2, 4, 8, 16):
                for f in facts:
                    if f[0] in ('lt', 'le', 'eq', 'ne') and len(f) == 3 and all(x == arena.MIN or is_c(x) for x in f[1:]) and arena.MIN in f[1:]:
                        a_, b_ = [(v if x == arena.MIN else x[1]) for x in f[1:]]
                        holds = {'lt': a_ < b_, 'le': a_ <= b_, 'eq': a_ == b_, 'ne': a_ != b_}[f[0]]
                        if not holds:
                            refused.append(v)
            if refused:
                ctx.violation('R4', arena.short(b['id']), 'return:refuses-supported', 'the validation on the way to this return refuses the supported minimum alignment(s) %s' % sorted(set(refused)), b.get('span'))
            else:
                ctx.ok('R4', '%s return alternative %d: every supported MIN_ALIGN (1, 2, 4, 8, 16) passes the validation' % (arena.short(b['id']), i), 'the must-facts about MIN_ALIGN evaluated at each supported value')
            for nm, okv in (('is_power_of_two(MIN_ALIGN)', pow2), ('MIN_ALIGN <= CHUNK_ALIGN', le16)):
                if okv:
                    ctx.ok('R4', '%s return alternative %d: %s' % (arena.short(b['id']), i, nm), 'must-fact on every path to this return (failing edge is a panic exit)')
                else:
                    ctx.violation('R4', arena.short(b['id']), 'return:' + nm, 'an arena is constructed on a path that has not asserted %s' % nm, b.get('span'))


def check_sentinel(ctx, config):
    db = ctx.db(config)
    chunk_align = db.consts.get('CHUNK_ALIGN')
    if chunk_align is None:
        ctx.anchor_missing('R5', 'const CHUNK_ALIGN')
        return
    foot = [s for s in db.statics if s['ty'].endswith('EmptyChunkFooter')]
    ctx.floor('R5', len(foot), 1, 'static empty chunk')
    for s in foot:
        al = (s.get('layout') or {}).get('align', 0)
        if al >= chunk_align and al % chunk_align == 0:
            ctx.ok('R5', 'static %s: align %d >= CHUNK_ALIGN %d' % (s['path'], al, chunk_align), 'type layout computed by rustc')
        else:
            ctx.violation('R5', s['path'], 'align', 'the static empty chunk is %d-aligned but its address is the bump finger of a chunk-less arena and must satisfy every MIN_ALIGN up to CHUNK_ALIGN=%d' % (al, chunk_align), s.get('span'))
    fa = db.adt.get('ChunkFooter')
    if fa and fa.get('layout'):
        al = fa['layout']['align']
        if al <= chunk_align and chunk_align % al == 0:
            ctx.ok('R5', 'align_of::<ChunkFooter>() = %d divides CHUNK_ALIGN' % al, 'footers are placed at CHUNK_ALIGN-aligned addresses')
        else:
            ctx.violation('R5', 'ChunkFooter', 'align', 'ChunkFooter requires alignment %d > CHUNK_ALIGN' % al)
    else:
        ctx.anchor_missing('R5', 'struct ChunkFooter layout')


    # ---- R6 the rounding helpers every alignment argument rests on compute what their names say (standalone, symbolic operands)
    a1, a2 = ('param', 1), ('param', 2)
    WANT = {
        'round_up_to': lambda t, alts: set(map(repr, alts)) == {repr(NONE), repr(some(('app', 'round_up', a1, a2)))},
        'round_down_to': lambda t, alts: t == ('app', 'round_down', a1, a2),
        'round_up_to_unchecked': lambda t, alts: t == ('app', 'round_up', a1, a2),
        'round_mut_ptr_down_to': lambda t, alts: t == ('app', 'round_down', a1, a2),
        'round_mut_ptr_up_to_unchecked': lambda t, alts: lin(t) == lin(app('add', ('app', 'wsub', ('app', 'round_up', a1, a2), a1), a1)) or t == ('app', 'round_up', a1, a2),
        'is_pointer_aligned_to': lambda t, alts: t in (('cmp', 'eq', ('app', 'round_down', a1, a2), a1), ('cmp', 'eq', a1, ('app', 'round_down', a1, a2)), ('cmp', 'eq', ('app', 'mod', a1, a2), C(0)), ('cmp', 'eq', C(0), ('app', 'mod', a1, a2))),
    }
    n6 = 0
    for name, okf in WANT.items():
        bs = [x for x in db.fn_bodies() if x['kind'] == 'fn' and x['meta'].get('name') == name and (x.get('span') or '').startswith('src/lib.rs')]
        if not bs:
            # inlined at its call sites: the arithmetic is then part of the finger-store / return obligations (O1, O2), which are
            # evaluated on the actual terms; the floor below still requires most of the helpers to exist
            ctx.note('rounding helper %s does not exist as a function (inlined?)' % name)
            continue
        I6, r6 = arena.run_fn(ctx, bs[0]['id'], config)
        alts = [t for t, _ in arena.alternatives(I6, r6.ret, set())] if r6.ret is not None else []
        n6 += 1
        if r6.ret is not None and okf(r6.ret, alts):
            ctx.ok('R6', '%s computes the rounding its name says' % name, show(r6.ret)[:80])
        else:
            ctx.violation('R6', name, 'formula', '%s returns %s' % (name, show(r6.ret)[:120] if r6.ret is not None else None), bs[0].get('span'))
    ctx.floor('R6', n6, 6, 'rounding / alignment helpers')
