"""Clauses on the client-side expansion of the exported macros (C13.R10 `vec!`, C14.R8 `format!`), analysed on the probe
crate of analysis/macroprobe.py.  std's `vec![elem; n]` yields n elements (n - 1 clones and the original), `vec![a, b, c]`
pushes its operands in order, `format!` writes the formatted arguments once into a new empty string."""
from .. import arena, macroprobe
from ..terms import *


def returned_local(body):
    """local whose value is moved into the return place"""
    for blk in body['blocks']:
        for s in blk['stmts']:
            if s['k'] == 'assign' and s['place']['l'] == 0 and not s['place']['proj'] and s['rv']['k'] in ('use',) :
                op = s['rv'].get('o') or s['rv'].get('op') or {}
                if op.get('k') in ('move', 'copy') and not op['place']['proj']:
                    return op['place']['l']
    return None


def recv_local(e):
    a = e.args[0] if e.args else None
    if a is not None and a[0] == 'addr' and a[1][0] == 'local':
        return a[1][2]
    return None


def run_probe(ctx, F, name):
    b = F.by_path.get(name) or next((x for x in F.fn_bodies() if x['id'] == name), None)
    if b is None:
        return None, None, None
    I = arena.ArenaInterp(F)
    r = I.run_entry(b['id'])
    return b, I, r


def own(r, suffix):
    return [e for e in r.events if len(e.stack) == 1 and e.kind == 'call' and (e.callee or '').endswith(suffix)]


def check_vec(ctx, rule):
    try:
        F = macroprobe.probe_facts(ctx.repo)
    except SystemExit as e:
        ctx.violation(rule, 'vec!', 'expansion', 'the macro probe does not compile: %s' % str(e)[:300])
        return
    n = [0]

    def check(fn, clause, okv, detail=''):
        n[0] += 1
        if okv:
            ctx.ok(rule, '%s: %s' % (fn, clause), 'TermFlow on the expansion in the probe crate')
        else:
            ctx.violation(rule, fn, 'macro:' + clause.replace(' ', '_')[:60], '%s deviates from std: %s %s' % (fn, clause, detail))
    # vec![in b; elem; n]
    b, I, r = run_probe(ctx, F, 'vec_elem')
    if b is None:
        ctx.anchor_missing(rule, 'probe vec_elem')
    else:
        B, E, N = ('param', 1), ('param', 2), ('param', 3)
        wc = own(r, '::with_capacity_in')
        pu = own(r, "Vec::<'bump, T>::push")
        cl = own(r, 'Clone::clone')
        check('vec![in b; elem; n]', 'the vector is created with_capacity_in(n, bump)', len(wc) == 1 and wc[0].args == [N, B])
        L = [v for (bid, h), v in r.loops.items() if bid == b['id']]
        rng = [t for v in (L[0]['init'].values() if L else []) for t in subterms(v) if isinstance(t, tuple) and t and t[0] == 'agg' and t[1].endswith('Range')]
        okr = len(L) == 1 and any(field_of(t, 'start') == C(0) and field_of(t, 'end') in (('app', 'wsub', N, C(1)), app('sub', N, C(1))) for t in rng)
        check('vec![in b; elem; n]', 'n - 1 clones are pushed (loop over 0..n - 1)', okr and len(cl) == 1 and len(pu) == 2 and pu[0].args[1] == cl[0].ret)
        check('vec![in b; elem; n]', 'then the original element, and nothing at all when n == 0', len(pu) == 2 and pu[1].args[1] == E and all(('lt', C(0), N) in e.state.facts for e in pu) and r.events.index(pu[0]) < r.events.index(pu[1]))
        rl = returned_local(b)
        check('vec![in b; elem; n]', 'the vector that was filled is returned', rl is not None and all(recv_local(e) == rl for e in pu))
    b, I, r = run_probe(ctx, F, 'vec_empty')
    if b is not None:
        nw = own(r, '::new_in')
        check('vec![in b]', 'new_in(bump)', len(nw) == 1 and nw[0].args == [('param', 1)] and r.ret == nw[0].ret)
    for name, k in (('vec_list', 3), ('vec_list_trailing', 2)):
        b, I, r = run_probe(ctx, F, name)
        if b is None:
            ctx.anchor_missing(rule, 'probe ' + name)
            continue
        nw = own(r, '::new_in')
        pu = own(r, "Vec::<'bump, T>::push")
        rl = returned_local(b)
        okv = len(nw) == 1 and nw[0].args == [('param', 1)] and [e.args[1] for e in pu] == [('param', i) for i in range(2, 2 + k)] and rl is not None and all(recv_local(e) == rl for e in pu) \
            and all(r.events.index(pu[i]) < r.events.index(pu[i + 1]) for i in range(len(pu) - 1))
        check('vec![in b; a, b, ..%s]' % (',' if 'trailing' in name else ''), 'new_in(bump), operands pushed once each in order, that vector returned', okv)
    ctx.floor(rule, n[0], 7, 'clauses on the expansion of vec!')


def check_format(ctx, rule):
    try:
        F = macroprobe.probe_facts(ctx.repo)
    except SystemExit as e:
        ctx.violation(rule, 'format!', 'expansion', 'the macro probe does not compile: %s' % str(e)[:300])
        return
    n = 0
    for name, nargs in (('format_two', 2), ('format_trailing', 1)):
        b, I, r = run_probe(ctx, F, name)
        if b is None:
            ctx.anchor_missing(rule, 'probe ' + name)
            continue
        nw = own(r, "String::<'bump>::new_in")
        wf = [e for e in r.events if len(e.stack) == 1 and e.kind == 'call' and (e.extra.get('trait_path') or e.callee or '').endswith('Write::write_fmt')]
        an = own(r, 'Arguments::<\'a>::new') + own(r, 'Arguments::new')
        disp = [e for e in r.events if len(e.stack) == 1 and e.kind == 'call' and 'Argument' in (e.callee or '') and 'new_display' in (e.callee or '')]
        rl = returned_local(b)
        okv = len(nw) == 1 and nw[0].args == [('param', 1)] and len(wf) == 1 and recv_local(wf[0]) is not None and len(disp) == nargs \
            and [recv_local(e) for e in disp] == list(range(2, 2 + nargs)) and rl is not None and recv_local(wf[0]) is not None
        # the string written to is the one created and the one returned
        s_local = None
        for blk in b['blocks']:
            t = blk['term']
            if t['k'] == 'call' and (t['callee'].get('path') or '').endswith('::new_in'):
                s_local = t['dest']['l']
        okv = okv and s_local is not None and rl == s_local
        n += 1
        fn = 'format!(in b, "..", %d arg%s%s)' % (nargs, 's' if nargs > 1 else '', ',' if 'trailing' in name else '')
        if okv:
            ctx.ok(rule, '%s: new_in(bump), one write_fmt of the arguments in order, that string returned' % fn, 'TermFlow on the expansion in the probe crate')
        else:
            ctx.violation(rule, fn, 'macro:format', '%s deviates from std: expected String::new_in(bump), exactly one write_fmt with the arguments in order, and the same string returned' % fn)
    ctx.floor(rule, n, 2, 'clauses on the expansion of format!')
