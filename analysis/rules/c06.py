"""C06 — reset() recycles the arena completely (must-pass-through facts about one &mut self method)."""
from .. import arena, prover
from ..terms import *
from ..facts import loc
from . import c01

EXPLANATION = ("TermFlow + CFG path rules on Bump::reset (callees inlined): the only way to return without doing the work is the true edge of is_empty(current chunk); on every other "
               "path to the return the tail is detached (cur.prev := EMPTY) and handed to the releaser, the finger of the kept chunk is stored with an EMPTY-class value (the footer "
               "address: full usable capacity again) and allocated_bytes is re-established; reset writes neither allocation_limit nor current_chunk_footer, and allocation_limit "
               "is only written by constructors and set_allocation_limit."
               ' (R5) the counter reset re-establishes satisfies the accounting invariant J4 (shared with C08); (R6) the releaser reset calls obeys the pairing / sentinel / use-after-free obligations of C03.')
RULE = "rule instance = (rule, required effect or frame condition); distinct by (rule, effect)"


def run(ctx, config='rel-all', shares=True):
    A = arena.analyse(ctx, config)
    db = ctx.db(config)
    val = A.get('reset')
    if not val:
        ctx.anchor_missing('R0', 'Bump::reset')
        return
    I, res, body = val
    fn = arena.short(body['id'])
    ins = body['meta'].get('inputs') or []
    if ins and ins[0].startswith('&mut '):
        ctx.ok('R0', 'reset takes %s' % ins[0], 'signature')
    else:
        ctx.violation('R0', fn, 'receiver', 'reset does not take &mut self')
    g = I.cfg(body)
    rets = g.returns()
    own = [e for e in res.events if len(e.stack) == 1]
    F = None
    # the early-return edge: a branch in reset's own frame that adds eq(&*cur, &EMPTY)
    early_edges = []
    for e in own:
        if e.kind == 'branch':
            for f in e.extra['added']:
                if f[0] == 'eq' and len(f) == 3 and any(x[0] == 'addr' and prover.root_static(x[1]) == 'EMPTY_CHUNK' for x in f[1:] if isinstance(x, tuple)):
                    other = [x for x in f[1:] if not (x[0] == 'addr' and prover.root_static(x[1]) == 'EMPTY_CHUNK')]
                    if other:
                        Fc = other[0][1][1] if (other[0][0] == 'addr' and other[0][1][0] == 'deref') else other[0]
                        if Fc[0] == 'load' and Fc[1][0] == 'fld' and Fc[1][2].endswith('.current_chunk_footer'):
                            early_edges.append((e.block, e.extra['target']))
                            F = Fc
    if not early_edges:
        ctx.violation('R1', fn, 'no-empty-check', 'reset has no branch on is_empty(current chunk): resetting a chunk-less arena would write to / free the sentinel')
    # required effects, by event
    def first(pred):
        for e in res.events:
            if pred(e):
                return e
        return None
    cut = first(lambda e: e.kind == 'store' and arena.footer_field(e) and arena.footer_field(e)[1] == 'prev' and e.val[0] == 'addr' and prover.root_static(e.val[1]) == 'EMPTY_CHUNK')
    rel_fns = sorted({f for f, _ in c01.global_alloc_callers(db).get('dealloc', [])})
    release = first(lambda e: e.kind == 'call' and e.callee in rel_fns and len(e.stack) == 1)
    finger = first(lambda e: e.kind == 'store' and arena.footer_field(e) and arena.footer_field(e)[1] == 'ptr')
    acct = first(lambda e: e.kind == 'store' and arena.footer_field(e) and arena.footer_field(e)[1] == 'allocated_bytes')
    required = [('cur.prev := EMPTY (tail detached)', cut), ('releaser called', release), ('finger of the kept chunk stored', finger), ('allocated_bytes re-established', acct)]
    for name, ev in required:
        if ev is None:
            ctx.violation('R2', fn, 'missing:' + name.split(' (')[0], 'reset never performs: ' + name)
            continue
        if len(ev.stack) != 1:
            blk = [c for c in res.events if c.kind == 'call' and c.stack == ev.stack[:1] and c.block == ev.stack[1][1]]
            b = ev.stack[1][1]
        else:
            b = ev.block
        # every path entry -> return that avoids the early edges must pass through b
        r = g.reach([0], avoid_blocks=[b], avoid_edges=early_edges)
        if set(rets) & r:
            ctx.violation('R2', fn, 'path-skips:' + name.split(' (')[0], 'a path through reset that is not the empty-arena early return skips: ' + name, ev.span)
        else:
            ctx.ok('R2', '%s: %s on every non-early path' % (fn, name), 'must-pass-through bb%d avoiding early edges %s' % (b, early_edges))
    if F is not None and cut is not None and arena.footer_field(cut)[0] != F:
        ctx.violation('R2', fn, 'cut-wrong-chunk', 'the prev link that is cut belongs to %s, not to the current chunk' % show(arena.footer_field(cut)[0])[:80], cut.span)
    if finger is not None:
        Ff = arena.footer_field(finger)[0]
        cls = arena.classify_finger_store(I, res, finger)
        if cls == 'EMPTY' and (F is None or Ff == F):
            ctx.ok('R2', '%s: finger of the current chunk := footer address (class EMPTY: whole chunk usable again)' % fn, 'store classification')
        else:
            ctx.violation('R2', fn, 'finger-class:' + cls, 'reset stores a %s value (%s) into the finger of %s; only the footer address makes the full capacity available again' % (cls, show(finger.val)[:80], show(Ff)[:60]), finger.span)
    if release is not None and cut is not None:
        arg = release.args[0]
        old_prev_ok = arg[0] == 'load' and arg[1][0] == 'fld' and arg[1][2] == 'ChunkFooter.prev' and arg[1][1][1] == arena.footer_field(cut)[0]
        if old_prev_ok and res.events.index(cut) < res.events.index(release):
            ctx.ok('R2', '%s: the releaser gets the old prev link after it was cut' % fn, show(arg)[:80])
        else:
            ctx.violation('R2', fn, 'release-arg', 'the releaser is called with %s, not with the detached tail' % show(arg)[:100], release.span)
    # the early path does nothing: no effect may precede (reach) the early-return branch
    for e in res.events:
        eff_block = e.block if len(e.stack) == 1 else e.stack[1][1]
        if e.kind in ('store', 'gdealloc') or (e.kind == 'call' and e.callee in rel_fns):
            for (src, t) in early_edges:
                if g.can_reach(eff_block, src) and eff_block != src or (eff_block == src and e.kind != 'call'):
                    ctx.violation('R1', fn, 'effect-before-empty-check:' + e.kind, 'reset performs a %s before it has checked that the arena owns a chunk (the empty-arena case must be a no-op)' % e.kind, e.span)
    ctx.ok('R1', '%s: early return only under is_empty(current chunk) and without effects' % fn, 'branch facts + reachability')
    # ---- R4 'full usable capacity again': with the finger at the footer, a request is refused only if it
    # is strictly larger than finger - data (shared with C18.O6)
    from . import c18
    c18.check_exact_refusal(ctx, A, config, 'R4')
    if not shares:
        return finish_core(ctx, A, db, res, fn)
    # ---- R5 'keeps its limit ... for any history after it': the counter reset() re-establishes is the usable size of the kept
    # chunk (J4, shared with C08.O1) -- a wrong constant makes the arena refuse or exceed its limit after a reset
    from .. import runner
    from . import c08, c03
    fsz = arena.ArenaInterp(db).size_of('ChunkFooter')
    if is_c(fsz):
        c08.check_j4(ctx, A, db, fsz, 'R5')
    # ---- R6 'exactly the other chunks were released': the releaser reset() calls gives each chunk back with the pair recorded
    # in that chunk's own footer, stops at the sentinel and touches nothing after freeing it (the obligations of C03)
    c03.run(runner.Sub(ctx, 'R6', 'C03'), config, shares=False)
    finish_core(ctx, A, db, res, fn)


def finish_core(ctx, A, db, res, fn):
    # ---- R3 frame
    for e in res.events:
        if e.kind == 'store':
            bf = arena.bump_field(e)
            if bf:
                ctx.violation('R3', fn, 'store(Bump.%s)' % bf[1], 'reset writes Bump.%s (the limit and the current chunk must survive a reset)' % bf[1], e.span)
    ctx.ok('R3', '%s writes no field of Bump' % fn, '%d store events' % len([e for e in res.events if e.kind == 'store']))
    writers = set()
    for key, v in A.items():
        if v is None:
            continue
        for e in v[1].events:
            if e.kind == 'store':
                bf = arena.bump_field(e)
                if bf and bf[1] == 'allocation_limit':
                    writers.add(arena.short(arena.innermost(e)))
    for b in db.fn_bodies():
        for blk in b['blocks']:
            for s in blk['stmts']:
                if s['k'] == 'assign' and s['rv']['k'] == 'agg' and s['rv'].get('name') == 'Bump':
                    writers.add(arena.short(b['id']) + ' (constructor aggregate)')
    allowed = lambda w: 'set_allocation_limit' in w or 'constructor aggregate' in w
    for w in sorted(writers):
        if allowed(w):
            ctx.ok('R3', 'allocation_limit written by %s' % w, 'who-may-write inventory')
        else:
            ctx.violation('R3', w, 'store(Bump.allocation_limit)', 'allocation_limit is written outside constructors and set_allocation_limit')
    ctx.floor('R3', len(writers), 3, 'writers of allocation_limit (set_allocation_limit + constructor aggregates)')



def early_edge_is_return_only(g, early_edges, block):
    return False
