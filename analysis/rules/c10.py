"""C10 — chunk iteration yields exactly the allocated bytes, newest first."""
from .. import arena, prover
from ..terms import *
from ..facts import loc
from . import c01

EXPLANATION = ("TermFlow term identities on the iteration code: (O1) the per-chunk pair is (load(F.ptr), addr(F) - load(F.ptr)), i.e. exactly the bytes between the bump finger and the "
               "footer; (R2) ChunkRawIter::next returns None exactly on the is_empty(foot) edge, otherwise that pair for `foot`, and advances to load(foot.prev); the raw iterator "
               "starts at the current chunk footer (newest first) and the safe iterator builds its slice from the same pair in the same order; (R3) the safe iterator takes "
               "&mut self; (R4) 'no foreign bytes': every finger store anywhere in the arena is of class BUMP/RECLAIM/SAVED/EMPTY with the reclaim bounded by the released block "
               "(a FULL or over-reclaiming store is what makes phantom or missing bytes appear in the slices), and a BUMP store moves the finger by exactly the rounded size below "
               "the (aligned) old finger, so uniform histories leave no padding."
               ' (R5, R6) because the exactness clause quantifies over histories with resets and failed fallible initialisers, the reset obligations of C06 and the no-residue obligations of C11 are evaluated as part of this property.')
RULE = "rule instance = (rule, function/site); distinct by (rule, function, site)"


def is_raw_pair(t, F):
    """t == (load(F.ptr), F - load(F.ptr))"""
    if t[0] != 'agg' or len(t[3]) != 2:
        return False
    p, n = t[3][0][1], t[3][1][1]
    return pair_ok(p, n, F)


def pair_ok(p, n, F):
    if not (p[0] == 'load' and p[1] == ('fld', ('deref', F), 'ChunkFooter.ptr')):
        return False
    d, c = lin(n)
    return c == 0 and d == {F: 1, p: -1}


def run(ctx, config='rel-all'):
    db = ctx.db(config)
    A = arena.analyse(ctx, config)
    ctx.assume("J2 (finger within [data, footer]) makes the length non-negative", "offset_from is used within one allocation (unsafe precondition)")
    # ---- O1
    arp = [b for b in db.fn_bodies() if b['kind'] == 'assoc_fn' and b['meta'].get('impl_adt') == 'ChunkFooter' and 'usize)' in (b['meta'].get('output') or '')]
    ctx.floor('O1', len(arp), 1, 'ChunkFooter method returning (ptr, len)')
    for b in arp:
        I, r = arena.run_fn(ctx, b['id'], config)
        if is_raw_pair(r.ret, ('param', 1)):
            ctx.ok('O1', '%s returns (load(self.ptr), addr(self) - load(self.ptr))' % b['id'], show(r.ret)[:100])
        else:
            ctx.violation('O1', b['id'], 'return', 'the allocated region of a chunk is computed as %s, not (finger, footer - finger)' % show(r.ret)[:160], b.get('span'))
    check_raw_iterator(ctx, db, config, A)
    check_r4(ctx, db, config, A)


def check_raw_iterator(ctx, db, config, A, only_raw=False):
    # ---- R2 raw iterator
    nxt = {}
    for b in db.fn_bodies():
        m = b['meta']
        if b['kind'] == 'assoc_fn' and m.get('name') == 'next' and m.get('impl_adt') in ('ChunkRawIter', 'ChunkIter'):
            nxt[m['impl_adt']] = b
    for adt in (('ChunkRawIter',) if only_raw else ('ChunkRawIter', 'ChunkIter')):
        if adt not in nxt:
            ctx.anchor_missing('R2', adt + '::next')
    if 'ChunkRawIter' in nxt:
        b = nxt['ChunkRawIter']
        I, r = arena.run_fn(ctx, b['id'], config)
        check_next(ctx, I, r, b, ('fld', ('deref', ('param', 1)), 'ChunkRawIter.footer'), raw=True)
    if 'ChunkIter' in nxt and not only_raw:
        b = nxt['ChunkIter']
        I, r = arena.run_fn(ctx, b['id'], config)
        check_next(ctx, I, r, b, ('fld', ('fld', ('deref', ('param', 1)), 'ChunkIter.raw'), 'ChunkRawIter.footer'), raw=False)
    for key, want in ((('iter_allocated_chunks_raw', 'raw'),) if only_raw else (('iter_allocated_chunks_raw', 'raw'), ('iter_allocated_chunks', 'safe'))):
        val = A.get(key)
        if not val:
            ctx.anchor_missing('R2', 'Bump::' + key)
            continue
        I, res, body = val
        r = res.ret
        raw = r if want == 'raw' else (field_of(r, 'raw') if r and r[0] == 'agg' else None)
        start = field_of(raw, 'footer') if raw is not None and raw[0] == 'agg' else None
        if start is not None and start[0] == 'load' and start[1] == ('fld', ('deref', ('param', 1)), 'Bump.current_chunk_footer'):
            ctx.ok('R2', '%s starts at load(self.current_chunk_footer): newest chunk first' % key, show(r)[:100])
        else:
            ctx.violation('R2', 'Bump::' + key, 'start', '%s starts iterating at %s, not at the current (newest) chunk' % (key, show(start)[:80] if start else show(r)[:80]), body.get('span'))
        if want == 'safe':
            ins = body['meta'].get('inputs') or []
            if ins and ins[0].startswith('&mut '):
                ctx.ok('R3', 'iter_allocated_chunks takes &mut self', ins[0])
            else:
                ctx.violation('R3', 'Bump::iter_allocated_chunks', 'receiver', 'the safe chunk iterator does not borrow the arena mutably: allocation during iteration would compile', body.get('span'))


def check_r4(ctx, db, config, A):
    # ---- R4 no foreign bytes: classification + exact bump amount
    nb = 0
    for key, val in A.items():
        if val is None:
            continue
        I, res, body = val
        st_events = [e for e in res.events if e.kind == 'store']
        ords = c01.ordinal_keys(st_events)
        for e in st_events:
            ff = arena.footer_field(e)
            if not (ff and ff[1] == 'ptr'):
                continue
            fn = arena.short(arena.innermost(e))
            o = ords.get((fn, e.block, e.span), 0)
            cls = arena.classify_finger_store(I, res, e)
            site = 'store#%d(ChunkFooter.ptr)' % o
            if cls in ('FULL', 'OTHER') or cls.startswith('MIXED'):
                ctx.violation('R4', fn, site + ':' + cls, 'finger store of class %s: chunk iteration would report bytes that were never allocated (or hide allocated ones)' % cls, e.span)
                continue
            if cls == 'RECLAIM':
                bp = arena.unsafe_block_params(I, e)
                gate = arena.reclaim_precondition(I, e, ff[0])
                okv = False
                if bp and gate:
                    P2 = arena.mk_prover(I, e, res, set(c01.ENTRY_AXIOMS.get(key, ())) | gate)
                    okv = P2.le(e.val, app('round_up', app('add', bp[0], app('size', bp[1])), arena.MIN))
                if okv:
                    ctx.ok('R4', '%s %s via %s: reclaim stays within the released block (+ MIN_ALIGN padding)' % (fn, site, key), 'lemma library')
                else:
                    ctx.violation('R4', fn, site + ':over-reclaim', 'the finger may be raised past the released block: older live allocations would vanish from the iterated slices', e.span)
            elif cls == 'BUMP':
                nb += 1
                # each slice lies inside its chunk: the lowered finger stays within [data, old finger] (C01.O2)
                c01.check_finger_store(ctx, key, I, res, e, fn, o, '%s [%s]' % (loc(e.span), arena.stack_str(e)), set(c01.ENTRY_AXIOMS.get(key, ())), rules={'R1': 'R4', 'O2': 'R4', 'R3': 'R4'})
                L = e.state.env.get((e.stack, 2))
                old = arena.old_finger(I, e)
                P = arena.mk_prover(I, e, res)
                exact = False
                if L is not None:
                    for d in (arena.MIN, app('align', L)):
                        tight = app('sub', app('round_down', old, d), app('round_up', app('size', L), d))
                        # per alternative of the stored phi
                        pass
                    exact = all(bump_exact(I, P, x, facts, old, L) for x, facts in arena.alternatives_deep(I, e.val, set(e.state.facts)))
                if exact:
                    ctx.ok('R4', '%s %s via %s: new == round_down(old, A) - round_up(size, A) with A in {MIN_ALIGN, align}' % (fn, site, key), 'per-alternative term identity')
                else:
                    ctx.violation('R4', fn, site + ':inexact-bump', 'the finger is not lowered by exactly the rounded size below the aligned old finger (%s): padding bytes would appear between uniform allocations' % show(e.val)[:140], e.span)
            elif cls in ('SAVED', 'EMPTY'):
                # a rewind raises the finger: unless it is gated on the abandoned block being the last allocation, blocks
                # the caller still holds end up above the finger and vanish from the iterated slices (shared with C01.R3 / C11.R4)
                c01.check_finger_store(ctx, key, I, res, e, fn, o, '%s [%s]' % (loc(e.span), arena.stack_str(e)), set(c01.ENTRY_AXIOMS.get(key, ())), rules={'R1': 'R4', 'O2': 'R4', 'R3': 'R4'})
            else:
                ctx.ok('R4', '%s %s via %s: class %s' % (fn, site, key, cls), 'store classification')
    ctx.floor('R4', nb, 10, 'BUMP stores checked for exactness')
    # ---- R5 / R6: the exactness clause quantifies over histories with resets and with failed fallible initialisers.  After a
    # reset only the retained chunk may be on the list and it must be empty (the obligations of C06); a failed initialiser
    # must give its reservation back in every case (the obligations of C11) -- otherwise dead bytes stay inside an iterated slice.
    from .. import runner
    from . import c06, c11
    c06.run(runner.Sub(ctx, 'R5', 'C06'), config, shares=False)
    c11.run(runner.Sub(ctx, 'R6', 'C11'), config)
    # ---- R7 grow / shrink / deallocate keep every live block inside an iterated slice also when they fail half-way: C12
    from . import c12
    c12.run(runner.Sub(ctx, 'R7', 'C12', only={'O2', 'R4'}), config)     # the finger obligations only
    # ---- R8 the collections release exactly what they hold: a RawVec whose recorded capacity can exceed its allocation (a store
    # made before the reservation is known to have succeeded) later releases more than its block and the finger jumps over
    # older live blocks, which then appear in no slice (client contract shared with C01.R10)
    from . import clients
    clients.check(ctx, config, 'R8')
    # ---- R9 'most recently acquired chunk first': iteration starts at current_chunk_footer and follows prev, so the order is right
    # only if every chunk that is acquired becomes the head and links the head it replaces (C01.R7: the list head moves only to a chunk
    # created in the same call, whose prev is the old head). A chunk linked *behind* the current one is iterated out of order.
    from . import c01 as _c01
    n9 = 0
    for key, v in A.items():
        if v is None:
            continue
        n9 += len([e for e in v[1].events if e.kind == 'store' and arena.bump_field(e) and arena.bump_field(e)[1] == 'current_chunk_footer'])
        _c01.check_ccf_stores(ctx, key, v[0], v[1], 'R9')
    # ... and every chunk acquired on a shared-borrow path is installed as the head: a fresh footer that is written but never
    # stored into current_chunk_footer (linked somewhere behind) is reported
    for key, v in A.items():
        if v is None:
            continue
        I, res, body = v
        aggs = [(e, arena.footer_agg(e)) for e in res.events if e.kind == 'store' and arena.footer_agg(e)]
        heads = [e for e in res.events if e.kind == 'store' and arena.bump_field(e) and arena.bump_field(e)[1] == 'current_chunk_footer']
        for e, (addr, agg) in aggs:
            ins = ((I.bodies.get(arena.owner_fn(I, e)) or {}).get('meta', {}).get('inputs') or [])
            if not any('Bump<' in x or x.endswith('Bump') for x in ins) and len(e.stack) == 1:
                continue        # a constructor's first chunk is a field of the arena it returns
            installed = any(addr in subterms(h.val) or addr == h.val for h in heads)
            # the head store must not be conditional on anything but the success of the acquisition: it post-dominates via R9 above;
            # here: is there a head store at all that takes this chunk
            if heads and not installed:
                ctx.violation('R9', arena.short(arena.innermost(e)), 'fresh-chunk-not-head', 'a chunk created via %s is never installed as current_chunk_footer: it is linked behind the current chunk and iterated out of order' % key, e.span)
    ctx.floor('R9', n9, 12, 'stores to current_chunk_footer over the entry points')


def bump_exact(I, P0, x, facts, old, L):
    P = prover.Prover(I, facts)
    x = P.norm(x)
    for d in (arena.MIN, app('align', L)):
        for base in (old, app('round_down', old, d)):
            want = ('app', 'wsub', base, app('round_up', app('size', L), d))
            if x == want or x == P.norm(want):
                return True
    return False


def check_next(ctx, I, r, body, footer_lv, raw):
    fn = body['id'].split(' as ')[0].lstrip('<').split('<')[0] + '::next'
    alts = arena.alternatives(I, r.ret, set(r.ret_state.facts) if r.ret_state else set())
    F = ('load', footer_lv, 0)
    nn = ns = 0
    for t, facts in alts:
        if t[0] == 'agg' and t[2] == 'None':
            nn += 1
            okv = any(f[0] == 'eq' and F in f[1:] and any(isinstance(x, tuple) and x and x[0] == 'addr' and prover.root_static(x[1]) == 'EMPTY_CHUNK' for x in f[1:]) for f in facts)
            if okv:
                ctx.ok('R2', '%s: None only on the is_empty(foot) edge' % fn, 'must-fact eq(foot, &EMPTY_CHUNK)')
            else:
                ctx.violation('R2', fn, 'None-not-sentinel', 'iteration can stop at a chunk that is not the sentinel (chunks would be missing)', body.get('span'))
        elif t[0] == 'agg' and t[2] == 'Some':
            ns += 1
            v = field_of(t, '0')
            notempty = any(f[0] == 'ne' and F in f[1:] for f in facts)
            if raw:
                shape = is_raw_pair(v, F)
            else:
                sl = v[1][1] if v[0] == 'addr' and v[1][0] == 'deref' else v
                sl = sl if sl[0] == 'agg' else v
                shape = sl[0] == 'agg' and sl[1] == 'slice' and pair_ok(field_of(sl, 'ptr'), field_of(sl, 'len'), F)
            if shape and notempty:
                ctx.ok('R2', '%s: Some((finger, footer - finger)) of the current foot, which is not the sentinel' % fn, show(v)[:100])
            else:
                ctx.violation('R2', fn, 'item-shape', 'the yielded item %s is not (finger, footer - finger) of the chunk being visited' % show(v)[:140], body.get('span'))
    if nn < 1 or ns < 1:
        ctx.violation('R2', fn, 'alternatives', 'expected a None and a Some return alternative, found %d / %d' % (nn, ns), body.get('span'))
    adv = [e for e in r.events if e.kind == 'store' and e.lv == footer_lv]
    if len(adv) == 1 and adv[0].val == ('load', ('fld', ('deref', F), 'ChunkFooter.prev'), 0):
        ctx.ok('R2', '%s: advances to load(foot.prev)' % fn, 'term identity')
    else:
        ctx.violation('R2', fn, 'advance', 'the iterator does not advance to foot.prev exactly once per item (%d stores)' % len(adv), body.get('span'))
