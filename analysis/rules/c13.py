"""C13 — collections::Vec vs std::vec::Vec: bounds gating with std's polarity and the shift formulas."""
from .. import arena, prover
from ..terms import *
from ..facts import loc

EXPLANATION = ("std's algorithms are the oracle, encoded as term equalities that TermFlow checks on the forked code: (R1) bounds gating — every public safe method doing raw pointer "
               "arithmetic with a caller index panics exactly on std's condition (the edge into the panic carries exactly that strict/non-strict fact) and the pointer operations "
               "are only reached under its negation; (O2) shift formulas — insert/remove/push/pop/swap_remove/split_off/append_elements/extend_from_slice_copy_unchecked/drain/into_iter "
               "perform exactly std's copies (source, destination, count, memmove vs memcpy), reads, writes and length updates, compared after linear normalisation "
               "(BASE + i*size_of::<T>()); (R3) reserve* forward (len, additional) in order and push/insert reserve exactly under len == cap; (R5) RawVec adopts the result of every "
               "(re)allocation: on the Ok path the returned pointer and the new capacity are stored into self. Equality of results with std for every program is not decided.")
RULE = "rule instance = (method, formula clause); distinct by (method, clause)"

BASE, LEN, SZ = sym('BASE'), sym('LEN'), sym('sizeof(T)')
SELF = ('param', 1)


def vec_method(db, name, trait=None):
    for b in db.fn_bodies():
        m = b['meta']
        if b['kind'] == 'assoc_fn' and (m.get('impl_adt') or '').endswith('vec::Vec') and m.get('name') == name:
            if (trait is None and not m.get('impl_trait')) or (trait and (m.get('impl_trait') or '').endswith(trait)):
                return b
    return None


class M:
    """one method under analysis: terms are rewritten to BASE / LEN form"""

    def __init__(self, ctx, body, config):
        self.I, self.r = arena.run_fn(ctx, body['id'], config)
        self.body = body
        self.own = [e for e in self.r.events if len(e.stack) == 1]
        self.map = {}
        for e in self.own:
            if e.kind == 'call' and e.callee and e.ret is not None and e.args and e.args[0] == SELF:
                n = e.callee.split('::')[-1]
                if n in ('as_mut_ptr', 'as_ptr'):
                    self.map[e.ret] = BASE
                if n == 'len' and e.ret[0] == 'load':
                    self.map[e.ret] = LEN

    def canon(self, t, facts=()):
        t = subst(t, self.map)
        t = self._strip(t)
        P = prover.Prover(self.I, {tuple(self._strip(subst(x, self.map)) if isinstance(x, tuple) else x for x in f) for f in facts}, use_J=False)
        return P.norm(t), P

    def _strip(self, t):
        if not isinstance(t, tuple) or not t:
            return t
        if t[0] == 'load':
            lv = t[1]
            if lv == ('fld', ('deref', SELF), 'collections::vec::Vec.len'):
                return LEN
            if lv == ('fld', ('fld', ('deref', SELF), 'collections::vec::Vec.buf'), 'collections::raw_vec::RawVec.ptr'):
                return BASE
            return ('load', self._strip(lv), 0)
        if t[0] == 'phi':
            alts = tuple((p, self._strip(x)) for p, x in t[2])
            vals = {x for _, x in alts}
            if len(vals) == 1:
                return vals.pop()
            # buffer pointer re-read after a possible reallocation: every alternative is "the buffer pointer"
            if all(x == BASE or self._is_fresh_buffer(x) for x in vals) and BASE in vals:
                return BASE
            return ('phi', t[1], alts)
        if t[0] == 'app' and t[1] == 'proj':
            if t[2] == SELF and t[3] == 'collections::vec::Vec.len':
                return LEN
            if t[3] == 'collections::raw_vec::RawVec.ptr' and t[2] == ('app', 'proj', SELF, 'collections::vec::Vec.buf'):
                return BASE
        r = tuple(self._strip(x) if isinstance(x, tuple) else x for x in t)
        if r[0] == 'app':
            return simplify(r)
        return r

    def _is_fresh_buffer(self, x):
        return any(isinstance(s, tuple) and s and ((s[0] == 'app' and s[1] in ('galloc', 'iter_any')) or s[0] == 'phi') for s in subterms(x))

    def eq(self, a, b, facts=()):
        ca, P = self.canon(a, facts)
        cb, _ = self.canon(b, facts)
        if ca == cb:
            return True
        return P.eq(ca, cb)

    def events(self, kind, callee_suffix=None):
        out = []
        for e in self.own:
            if e.kind != kind:
                continue
            if callee_suffix and not (e.callee or '').endswith(callee_suffix):
                continue
            out.append(e)
        return out

    def panic_edges(self):
        """facts added on own-frame branch edges whose target can only reach a diverging call"""
        g = self.I.cfg(self.body)
        rets = set(g.returns())
        out = []
        for e in self.own:
            if e.kind == 'branch':
                t = e.extra['target']
                if not (g.reach([t]) & rets):
                    out.append(e)
        return out


def slot(i, plus=0):
    """BASE + (i + plus) * size_of::<T>() in distributed form"""
    d, c = lin(i)
    t = BASE
    for a, v in d.items():
        t = app('add', t, app('mul', app('mul', a, SZ), C(v)) if v != 1 else app('mul', a, SZ))
    k = c + plus
    if k:
        t = app('add', t, app('mul', SZ, C(k)))
    return t


def run(ctx, config='rel-all'):
    if config == 'rel-default':
        return
    db = ctx.db(config)
    ctx.assume("std's Vec algorithms as of the fork are the reference; zero-sized element arithmetic is covered only where the formula is size-independent",
               "A1 no overflow in BASE + i*size (in-bounds indices)")
    n = [0]

    def check(method, clause, okv, detail='', span=None):
        n[0] += 1
        if okv:
            ctx.ok('O2', '%s: %s' % (method, clause), detail or 'term equality after linear normalisation')
        else:
            ctx.violation('O2', 'Vec::' + method, clause.replace(' ', '_')[:60], 'Vec::%s deviates from std: %s %s' % (method, clause, detail), span)

    def gate(method, m, expected, idx_desc):
        """expected: list of (op, a, b) facts that must label the panic edges (exactly)"""
        edges = m.panic_edges()
        got = []
        for e in edges:
            for f in e.extra['added']:
                if f[0] in ('lt', 'le') and len(f) == 3:
                    got.append((f[0], m.canon(f[1])[0], m.canon(f[2])[0]))
        for exp in expected:
            n[0] += 1
            if exp in got:
                ctx.ok('R1', 'Vec::%s panics exactly when %s %s %s' % (method, show(exp[1]), '<' if exp[0] == 'lt' else '<=', show(exp[2])), 'fact on the edge into the panic (std: %s)' % idx_desc)
            else:
                ctx.violation('R1', 'Vec::' + method, 'panic-condition:' + idx_desc.replace(' ', ''), 'Vec::%s must panic exactly when %s %s %s (std: %s); panic edges carry %s' % (method, show(exp[1]), '<' if exp[0] == 'lt' else '<=', show(exp[2]), idx_desc, [(g[0], show(g[1])[:30], show(g[2])[:30]) for g in got][:4]), m.body.get('span'))

    def need(name, trait=None):
        b = vec_method(db, name, trait)
        if b is None:
            ctx.anchor_missing('O2', 'Vec::' + name)
            return None
        return M(ctx, b, config)

    i, x = ('param', 2), ('param', 3)
    # ---- insert
    m = need('insert')
    if m:
        gate('insert', m, [('lt', LEN, i)], 'index > len')
        cp = m.events('copy')
        check('insert', 'one memmove', len(cp) == 1 and cp[0].callee == 'copy', str([c.callee for c in cp]), m.body.get('span'))
        if cp:
            f = cp[0].state.facts
            check('insert', 'shift source is BASE + index', m.eq(cp[0].args[0], slot(i), f), show(m.canon(cp[0].args[0], f)[0])[:80], cp[0].span)
            check('insert', 'shift destination is BASE + index + 1', m.eq(cp[0].args[1], slot(i, 1), f), show(m.canon(cp[0].args[1], f)[0])[:80], cp[0].span)
            check('insert', 'shift count is len - index', m.eq(cp[0].args[2], app('sub', LEN, i), f), show(m.canon(cp[0].args[2], f)[0])[:80], cp[0].span)
        w = m.events('call', 'ptr::write')
        check('insert', 'element written at BASE + index', len(w) == 1 and m.eq(w[0].args[0], slot(i), w[0].state.facts) and w[0].args[1] == x, '', m.body.get('span'))
        sl = m.events('call', '::set_len')
        check('insert', 'len := len + 1', len(sl) == 1 and m.eq(sl[0].args[1], app('add', LEN, C(1)), sl[0].state.facts), '', m.body.get('span'))
        if cp and w and sl:
            ev = m.r.events
            check('insert', 'order: shift, write, set_len', ev.index(cp[0]) < ev.index(w[0]) < ev.index(sl[0]))
        rs = m.events('call', '::reserve')
        check('insert', 'reserve(1) exactly under len == cap', len(rs) == 1 and rs[0].args[1] == C(1) and any(f[0] == 'eq' and 'RawVec.cap' in repr(f) for f in rs[0].state.facts))
    # ---- remove
    m = need('remove')
    if m:
        gate('remove', m, [('le', LEN, i)], 'index >= len')
        rd = m.events('call', 'ptr::read')
        cp = m.events('copy')
        sl = m.events('call', '::set_len')
        check('remove', 'reads BASE + index', len(rd) == 1 and m.eq(rd[0].args[0], slot(i), rd[0].state.facts))
        check('remove', 'returns the value read', len(rd) == 1 and m.r.ret == rd[0].ret)
        if cp:
            f = cp[0].state.facts
            check('remove', 'one memmove', len(cp) == 1 and cp[0].callee == 'copy')
            check('remove', 'shift source is BASE + index + 1', m.eq(cp[0].args[0], slot(i, 1), f), show(m.canon(cp[0].args[0], f)[0])[:80])
            check('remove', 'shift destination is BASE + index', m.eq(cp[0].args[1], slot(i), f))
            check('remove', 'shift count is len - index - 1', m.eq(cp[0].args[2], app('sub', app('sub', LEN, i), C(1)), f), show(m.canon(cp[0].args[2], f)[0])[:80])
        else:
            check('remove', 'one memmove', False)
        check('remove', 'len := len - 1', len(sl) == 1 and m.eq(sl[0].args[1], app('sub', LEN, C(1)), sl[0].state.facts))
        if rd and cp and sl:
            ev = m.r.events
            check('remove', 'order: read, shift, set_len', ev.index(rd[0]) < ev.index(cp[0]) < ev.index(sl[0]))
    # ---- push
    m = need('push')
    if m:
        w = m.events('call', 'ptr::write')
        st = [e for e in m.own if e.kind == 'store' and e.lv == ('fld', ('deref', SELF), 'collections::vec::Vec.len')]
        check('push', 'element written at BASE + len', len(w) == 1 and m.eq(w[0].args[0], slot(LEN), w[0].state.facts) and w[0].args[1] == ('param', 2))
        check('push', 'len := len + 1', len(st) == 1 and m.eq(st[0].val, app('add', LEN, C(1)), st[0].state.facts))
        rs = m.events('call', '::reserve')
        check('push', 'reserve(1) exactly under len == cap', len(rs) == 1 and rs[0].args[1] == C(1) and any(f[0] == 'eq' and 'RawVec.cap' in repr(f) for f in rs[0].state.facts))
        if w and st:
            check('push', 'order: write, then len', m.r.events.index(w[0]) < m.r.events.index(st[0]))
    # ---- pop
    m = need('pop')
    if m:
        st = [e for e in m.own if e.kind == 'store' and e.lv == ('fld', ('deref', SELF), 'collections::vec::Vec.len')]
        rd = m.events('call', 'ptr::read')
        alts = arena.alternatives(m.I, m.r.ret, set())
        none_ok = any(t[0] == 'agg' and t[2] == 'None' and any(f[0] == 'eq' and C(0) in f[1:] for f in fs) for t, fs in alts)
        check('pop', 'None exactly when len == 0', none_ok)
        check('pop', 'len := len - 1 before the read', len(st) == 1 and len(rd) == 1 and m.eq(st[0].val, app('sub', LEN, C(1)), st[0].state.facts | {('ne', C(0), ('load', ('fld', ('deref', SELF), 'collections::vec::Vec.len'), 0))}) and m.r.events.index(st[0]) < m.r.events.index(rd[0]))
        check('pop', 'reads BASE + (len - 1)', len(rd) == 1 and m.eq(rd[0].args[0], slot(LEN, -1), rd[0].state.facts | {('lt', C(0), LEN)}))
    # ---- split_off
    m = need('split_off')
    if m:
        at = ('param', 2)
        gate('split_off', m, [('lt', LEN, at)], 'at > len')
        wc = m.events('call', '::with_capacity_in')
        sl = m.events('call', '::set_len')
        cp = m.events('copy')
        check('split_off', 'other = with_capacity(len - at)', len(wc) == 1 and m.eq(wc[0].args[0], app('sub', LEN, at), wc[0].state.facts))
        selfsl = [e for e in sl if e.args[0] == SELF]
        othsl = [e for e in sl if e.args[0] != SELF]
        check('split_off', 'self.set_len(at)', len(selfsl) == 1 and selfsl[0].args[1] == at)
        check('split_off', 'other.set_len(len - at)', len(othsl) == 1 and m.eq(othsl[0].args[1], app('sub', LEN, at), othsl[0].state.facts))
        check('split_off', 'memcpy BASE + at -> other, len - at elements', len(cp) == 1 and cp[0].callee == 'copy_nonoverlapping' and m.eq(cp[0].args[0], slot(at), cp[0].state.facts) and m.eq(cp[0].args[2], app('sub', LEN, at), cp[0].state.facts))
    # ---- append_elements
    m = need('append_elements')
    if m:
        cnt = app('len', ('param', 2))
        rs = m.events('call', '::reserve')
        cp = m.events('copy')
        st = [e for e in m.own if e.kind == 'store' and e.lv == ('fld', ('deref', SELF), 'collections::vec::Vec.len')]
        check('append_elements', 'reserve(other.len())', len(rs) == 1 and rs[0].args[1] == cnt)
        check('append_elements', 'memcpy other -> BASE + len, other.len() elements', len(cp) == 1 and cp[0].callee == 'copy_nonoverlapping' and cp[0].args[0] == ('param', 2) and m.eq(cp[0].args[1], slot(LEN), cp[0].state.facts) and cp[0].args[2] == cnt)
        check('append_elements', 'len := len + other.len()', len(st) == 1 and m.eq(st[0].val, app('add', LEN, cnt), st[0].state.facts))
        if rs and cp and st:
            ev = m.r.events
            check('append_elements', 'order: reserve, copy, len', ev.index(rs[0]) < ev.index(cp[0]) < ev.index(st[0]))
    # ---- extend_from_slice_copy_unchecked
    m = need('extend_from_slice_copy_unchecked')
    if m:
        cnt = app('len', ('param', 2))
        cp = m.events('copy')
        sl = m.events('call', '::set_len')
        check('extend_from_slice_copy_unchecked', 'memcpy other -> BASE + len, other.len() elements', len(cp) == 1 and cp[0].callee == 'copy_nonoverlapping' and m.eq(cp[0].args[1], slot(LEN), cp[0].state.facts) and cp[0].args[2] == cnt)
        check('extend_from_slice_copy_unchecked', 'len := len + other.len()', len(sl) == 1 and m.eq(sl[0].args[1], app('add', LEN, cnt), sl[0].state.facts))
    # ---- swap_remove
    m = need('swap_remove')
    if m:
        st = [e for e in m.own if e.kind == 'store' and e.lv == ('fld', ('deref', SELF), 'collections::vec::Vec.len')]
        rd = m.events('call', 'ptr::read')
        idx = [e for e in m.own if e.kind == 'call' and e.callee and e.callee.endswith('index_mut')]
        check('swap_remove', 'len := len - 1', len(st) == 1 and m.canon(st[0].val)[0] in (('app', 'wsub', LEN, C(1)), app('sub', LEN, C(1))))
        okb = len(idx) == 1 and idx[0].args[0] == SELF and idx[0].args[1] == ('param', 2) and bool(st) and m.r.events.index(idx[0]) < m.r.events.index(st[0])
        check('swap_remove', 'bounds-checked access self[index] happens before the length is lowered', okb)
        check('swap_remove', 'the last element (len - 1) is read out', len(rd) == 1 and 'get_unchecked' in repr(rd[0].args[0]) and m.canon(rd[0].args[0][2][1] if rd[0].args[0][0] == 'call' else C(0))[0] in (('app', 'wsub', LEN, C(1)), app('sub', LEN, C(1))))
    # ---- drain constructor
    m = need('drain')
    if m:
        r = m.r.ret
        sl = m.events('call', '::set_len')
        ps = m.events('slice')
        start = sl[0].args[1] if sl else None
        end = field_of(r, 'tail_start') if r and r[0] == 'agg' else None
        edges = m.panic_edges()
        labels = []
        for e in edges:
            for f in e.extra['added']:
                if f[0] in ('lt', 'le'):
                    labels.append((f[0], f[1], f[2]))
        check('drain', 'panics exactly when end < start', start is not None and end is not None and ('lt', end, start) in labels, '', m.body.get('span'))
        lenload = ('load', ('fld', ('deref', SELF), 'collections::vec::Vec.len'), 0)
        check('drain', 'panics exactly when len < end', end is not None and ('lt', lenload, end) in labels)
        check('drain', 'len := start (leak amplification)', len(sl) == 1)
        check('drain', 'tail_len = len - end', r is not None and r[0] == 'agg' and end is not None and field_of(r, 'tail_len') in (('app', 'wsub', lenload, end), app('sub', lenload, end)))
        if ps and start is not None and end is not None:
            b0, idx0 = split_base(m, ps[0].args[0])
            check('drain', 'drained slice starts at BASE + start', b0 == BASE and idx0 == m._strip(subst(start, m.map)), show(m.canon(ps[0].args[0])[0])[:80])
            check('drain', 'drained slice has end - start elements', ps[0].args[1] in (('app', 'wsub', end, start), app('sub', end, start)))
        # bound arithmetic is checked (std panics on usize::MAX bounds)
        exps = [e for e in m.own if e.kind == 'panic']
        check('drain', 'Included/Excluded bound + 1 is checked (panics instead of wrapping)', len(exps) >= 2 and all('checked_add' in repr(e.args[0]) for e in exps))
        incl_end = any(isinstance(t, tuple) and t and t[0] == 'app' and t[1] == 'add' and t[3] == C(1) and 'Included' in repr(t[2]) for t in subterms(end)) if end else False
        excl_start = any(isinstance(t, tuple) and t and t[0] == 'app' and t[1] == 'add' and t[3] == C(1) and 'Excluded' in repr(t[2]) for t in subterms(start)) if start else False
        check('drain', 'start = Included(n) => n, Excluded(n) => n + 1, Unbounded => 0', excl_start and any(x == C(0) for _, x in (start[2] if start and start[0] == 'phi' else ())))
        check('drain', 'end = Included(n) => n + 1, Excluded(n) => n, Unbounded => len', incl_end and any(x == lenload for _, x in (end[2] if end and end[0] == 'phi' else ())))
    # ---- into_iter
    m = need('into_iter', 'IntoIterator')
    if m:
        r = m.r.ret
        okv = r is not None and r[0] == 'agg'
        if okv:
            p0 = m.canon(field_of(r, 'ptr'))[0]
            endv = field_of(r, 'end')
            alts = [x for _, x in endv[2]] if endv[0] == 'phi' else [endv]
            good = any(m.eq(x, slot(LEN)) for x in alts)
            check('into_iter', 'IntoIter { ptr: BASE, end: BASE + len }', p0 == BASE and good, show(m.canon(endv)[0])[:100])
        else:
            check('into_iter', 'IntoIter { ptr: BASE, end: BASE + len }', False)
    ctx.floor('O2', n[0], 45, 'formula clauses evaluated')
    # ---- R3 reserve forwarding
    for name in ('reserve', 'reserve_exact', 'try_reserve', 'try_reserve_exact'):
        b = vec_method(db, name)
        if b is None:
            ctx.anchor_missing('R3', 'Vec::' + name)
            continue
        m = M(ctx, b, config)
        calls = [e for e in m.own if e.kind == 'call' and e.callee and 'raw_vec::RawVec' in e.callee and name == e.callee.split('::')[-1]]
        okv = len(calls) == 1 and m.canon(calls[0].args[1])[0] == LEN and calls[0].args[2] == ('param', 2)
        if okv:
            ctx.ok('R3', 'Vec::%s forwards (len, additional) to RawVec::%s' % (name, calls[0].callee.split('::')[-1]), 'argument identity')
        else:
            ctx.violation('R3', 'Vec::' + name, 'forward', 'Vec::%s does not forward (self.len, additional) in that order to the raw buffer' % name, b.get('span'))
    # ---- R5 reallocation results are adopted
    n5 = 0
    for b in db.fn_bodies():
        mm = b['meta']
        if b['kind'] == 'closure' or not (mm.get('impl_adt') or '').endswith('raw_vec::RawVec'):
            continue
        has = any((t['callee'].get('path') or '') in ('alloc::Alloc::realloc', 'alloc::Alloc::alloc', 'alloc::Alloc::alloc_zeroed') for bi, t in db.calls(b))
        if not has:
            continue
        I, r = arena.run_fn(ctx, b['id'], config)
        own = [e for e in r.events if len(e.stack) == 1]
        acalls = [e for e in own if e.kind == 'call' and (e.extra.get('trait_path') or '').startswith('alloc::Alloc::') and (e.extra.get('trait_path') or '').split('::')[-1] in ('realloc', 'alloc', 'alloc_zeroed')]
        pst = [e for e in own if e.kind in ('store',) and e.lv[0] == 'fld' and e.lv[2].endswith('RawVec.ptr')]
        fn = arena.short(b['id'])
        if mm.get('name') in ('allocate_in',):
            # constructor: the pointer goes into the returned RawVec aggregate
            okv = r.ret is not None and any(isinstance(t, tuple) and t and t[0] == 'call' and 'Alloc::alloc' in t[1] for t in subterms(r.ret)) or bool(pst)
        else:
            okv = bool(acalls) and bool(pst) and all(any(isinstance(t, tuple) and t == c.ret for t in subterms(s.val)) or any(c.ret in subterms(s.val) for c in acalls) for s in pst for c in acalls[:1]) if pst else False
            pays = []
            for c in acalls:
                if c.ret is not None:
                    pays.append(I.project_variant(None, c.ret, 'Ok', '0'))
                    pays.append(c.ret)
            okv = bool(pst) and any(any(pv == s.val or pv in subterms(s.val) for pv in pays) for s in pst)
        n5 += 1
        if okv:
            ctx.ok('R5', '%s stores the pointer returned by the (re)allocation into self.ptr' % fn, 'term containment')
        else:
            ctx.violation('R5', fn, 'realloc-result-dropped', '%s (re)allocates the buffer but does not store the returned pointer into self.ptr: after the arena moved the block the vector would keep using the old address' % fn, b.get('span'))
    ctx.floor('R5', n5, 4, 'RawVec functions that (re)allocate')
    check_unwind_consistency(ctx, db)
    from . import drainfilter, splice, c19
    drainfilter.check(ctx, config, 'O3')
    splice.check(ctx, config, 'O4')
    # ---- R7 std's RawVec/Vec compute every byte size / capacity with checked arithmetic (CapacityOverflow instead of a wrapped size);
    # shared with C19.R1, restricted to the forked vector
    ns, nn, _ = c19.check_size_sinks(ctx, db, config, 'R7', lambda sp: sp.startswith('src/collections/raw_vec.rs') or sp.startswith('src/collections/vec.rs'))
    ctx.floor('R7', ns, 60, 'size sinks in vec.rs / raw_vec.rs')


def check_unwind_consistency(ctx, db):
    """R6: std's Vec keeps len consistent with the initialised prefix at every point where user code can
    unwind (resize/extend/clone/dedup/retain/truncate): same typestate as C16, restricted to vec.rs / raw_vec.rs"""
    from .. import panicsafe
    ps = panicsafe.PanicSafety(db)
    mu = ps.may_user()
    n = 0
    for b in db.fn_bodies():
        sp = b.get('span') or ''
        if b['kind'] == 'closure' or not (sp.startswith('src/collections/vec.rs') or sp.startswith('src/collections/raw_vec.rs')) or b['id'] not in mu:
            continue
        res = ps.analyse(b)
        n += 1
        fn = arena.short(b['id'])
        if res['findings']:
            for e, info, pr in res['findings']:
                ctx.violation('R6', fn, 'unwind-state:' + pr.split(' ')[1] + pr.split(' ')[2], '%s: where std keeps the vector consistent, user code may run here (%s) while %s' % (fn, info, pr), e.span)
        else:
            ctx.ok('R6', '%s: length consistent at its %d user-call site(s)' % (fn, res['user_sites']), 'panic-safety typestate')
    ctx.floor('R6', n, 40, 'Vec/RawVec functions that may run user code')


def split_base(m, t):
    c, _ = m.canon(t)
    d, k = lin(c)
    base = None
    idx = None
    for a, v in d.items():
        if a == BASE and v == 1:
            base = BASE
        elif a[0] == 'app' and a[1] == 'mul' and a[3] == SZ and v == 1:
            idx = a[2]
    return base, idx
