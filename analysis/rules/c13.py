"""C13 — collections::Vec vs std::vec::Vec: bounds gating with std's polarity and the shift formulas."""
from .. import arena, prover
from ..terms import *
from ..facts import loc

EXPLANATION = ("std's algorithms are the oracle, encoded as term equalities that TermFlow checks on the forked code: (R1) bounds gating — every public safe method doing raw pointer "
               "arithmetic with a caller index panics exactly on std's condition (the edge into the panic carries exactly that strict/non-strict fact) and the pointer operations "
               "are only reached under its negation; (O2) shift formulas — insert/remove/push/pop/swap_remove/split_off/append_elements/extend_from_slice_copy_unchecked/drain/into_iter "
               "perform exactly std's copies (source, destination, count, memmove vs memcpy), reads, writes and length updates, compared after linear normalisation "
               "(BASE + i*size_of::<T>()); (R3) reserve* forward (len, additional) in order and push/insert reserve exactly under len == cap; (R5) RawVec adopts the result of every "
               "(re)allocation: on the Ok path the returned pointer and the new capacity are stored into self. Equality of results with std for every program is not decided."
               ' (O2 100 clauses incl. loops via recorded loop steps, views, IntoIter, RawVec constructors; O3 drain_filter 16; O4 Drain/Splice 18; R7 checked size arithmetic of the forked vector; R8 full-view forwarding of comparison/hash/fmt/index/borrow impls; R9 compositions: Clone, Extend, from_iter_in, io::Write, serde, collect_in; R10 the vec! macro analysed on its expansion in a client probe; R11 a failed reserve leaves cap/ptr untouched.)')
RULE = "rule instance = (method, formula clause); distinct by (method, clause)"

BASE, LEN, SZ = sym('BASE'), sym('LEN'), sym('sizeof(T)')
SELF = ('param', 1)


def vec_method(db, name, trait=None):
    for b in db.fn_bodies():
        m = b['meta']
        if b['kind'] == 'assoc_fn' and (m.get('impl_adt') or '').endswith('vec::Vec') and m.get('name') == name:
            if (trait is None and not m.get('impl_trait')) or (trait and (m.get('impl_trait') or '').endswith(trait)):
                return b
    return None


class M:
    """one method under analysis: terms are rewritten to BASE / LEN form"""

    def __init__(self, ctx, body, config):
        self.I, self.r = arena.run_fn(ctx, body['id'], config)
        self.body = body
        self.own = [e for e in self.r.events if e.is_own()]
        self.map = {}
        for e in self.own:
            if e.kind == 'call' and e.callee and e.ret is not None and e.args and e.args[0] == SELF:
                n = e.callee.split('::')[-1]
                if n in ('as_mut_ptr', 'as_ptr'):
                    self.map[e.ret] = BASE
                if n == 'len' and e.ret[0] == 'load':
                    self.map[e.ret] = LEN

    def always(self, ev):
        """the effect happens on every path that returns normally (requirement side: not merely 'such an effect exists')"""
        return arena.on_every_return_path(self.I, ev)

    def canon(self, t, facts=()):
        t = subst(t, self.map)
        t = self._strip(t)
        P = prover.Prover(self.I, {tuple(self._strip(subst(x, self.map)) if isinstance(x, tuple) else x for x in f) for f in facts}, use_J=False)
        return P.norm(t), P

    def _strip(self, t):
        if not isinstance(t, tuple) or not t:
            return t
        if t[0] == 'load':
            lv = t[1]
            if lv == ('fld', ('deref', SELF), 'collections::vec::Vec.len'):
                return LEN
            if lv == ('fld', ('fld', ('deref', SELF), 'collections::vec::Vec.buf'), 'collections::raw_vec::RawVec.ptr'):
                return BASE
            return ('load', self._strip(lv), 0)
        if t[0] == 'phi':
            alts = tuple((p, self._strip(x)) for p, x in t[2])
            vals = {x for _, x in alts}
            if len(vals) == 1:
                return vals.pop()
            # buffer pointer re-read after a possible reallocation: every alternative is "the buffer pointer"
            if all(x == BASE or self._is_fresh_buffer(x) for x in vals) and BASE in vals:
                return BASE
            return ('phi', t[1], alts)
        if t[0] == 'app' and t[1] == 'proj':
            if t[2] == SELF and t[3] == 'collections::vec::Vec.len':
                return LEN
            if t[3] == 'collections::raw_vec::RawVec.ptr' and t[2] == ('app', 'proj', SELF, 'collections::vec::Vec.buf'):
                return BASE
        r = tuple(self._strip(x) if isinstance(x, tuple) else x for x in t)
        if r[0] == 'app':
            return simplify(r)
        return r

    def _is_fresh_buffer(self, x):
        return any(isinstance(s, tuple) and s and ((s[0] == 'app' and s[1] in ('galloc', 'iter_any')) or s[0] == 'phi') for s in subterms(x))

    def eq(self, a, b, facts=()):
        ca, P = self.canon(a, facts)
        cb, _ = self.canon(b, facts)
        if ca == cb:
            return True
        return P.eq(ca, cb)

    def events(self, kind, callee_suffix=None):
        out = []
        for e in self.own:
            if e.kind != kind:
                continue
            if callee_suffix and not (e.callee or '').endswith(callee_suffix):
                continue
            out.append(e)
        return out

    def panic_edges(self):
        """facts added on own-frame branch edges whose target can only reach a diverging call"""
        out = []
        for e in self.own:
            if e.kind == 'branch':
                # judged in the frame the branch sits in (the method, or a helper extracted from it): no return of that frame
                # is reachable from the edge
                fb = self.I.bodies.get(e.fn)
                if fb is None:
                    continue
                g = self.I.cfg(fb)
                t = e.extra['target']
                if not (g.reach([t]) & set(g.returns())):
                    out.append(e)
        return out


# the Vec methods that write elements into spare capacity: their formula clauses (how many slots are written, where, after which
# reservation) are what keeps a vector's writes inside its own buffer
GROWING = ('push', 'insert', 'extend_with', 'resize', 'append', 'append_elements', 'extend_from_slice_copy', 'extend_from_slice_copy_unchecked')


def growing_clause(rule, text):
    t = text[len('Vec::'):] if text.startswith('Vec::') else text
    return rule == 'O2' and any(t == g or t.startswith(g + ':') for g in GROWING)


def intoiter_len_ok(t, selfterm=('param', 1)):
    """t is the exact number of elements an IntoIter still owns: `self.len()` (ExactSizeIterator), or the same number computed in
    place: (end - ptr) bytes for zero-sized elements, (end - ptr) / size_of::<T>() otherwise"""
    if not isinstance(t, tuple) or not t:
        return False
    if t[0] == 'call' and 'ExactSizeIterator' in t[1] and t[1].endswith('::len') and len(t[2]) == 1:
        a = t[2][0]
        return a == selfterm or (a[0] == 'addr' and a[1][0] == 'local' and a[1][2] == 1) or a == ('addr', ('deref', selfterm))
    P_ = ('load', ('fld', ('deref', selfterm), 'collections::vec::IntoIter.ptr'), 0)
    E_ = ('load', ('fld', ('deref', selfterm), 'collections::vec::IntoIter.end'), 0)
    bytes_ = ('app', 'wsub', E_, P_)
    if t[0] == 'phi':
        norm = lambda x: ('load', x[1], 0) if isinstance(x, tuple) and x and x[0] == 'load' else x

        def strip(x):
            if not isinstance(x, tuple) or not x:
                return x
            if x[0] == 'load':
                return ('load', x[1], 0)
            return tuple(strip(y) if isinstance(y, tuple) else y for y in x)
        alts = {strip(x) for _, x in t[2]}
        if alts == {bytes_, ('app', 'div', bytes_, sym('sizeof(T)'))} or alts == {bytes_, ('app', 'offset_from', E_, P_)}:
            return True
        # self taken by value (count(self)): the fields are projections of the parameter
        Pv, Ev = ('app', 'proj', selfterm, 'collections::vec::IntoIter.ptr'), ('app', 'proj', selfterm, 'collections::vec::IntoIter.end')
        bv = ('app', 'wsub', Ev, Pv)
        return alts == {bv, ('app', 'div', bv, sym('sizeof(T)'))}
    return False


def slin(t):
    """linear form with coefficients read as signed 64-bit (offset(-1) appears as * 0xffff_ffff_ffff_ffff)"""
    d, c = lin(t)
    sg = lambda v: ((v + (1 << 63)) % (1 << 64)) - (1 << 63)
    d2 = {k: sg(v) for k, v in d.items() if sg(v) != 0}
    return tuple(sorted(d2.items(), key=repr)), sg(c)


def subst_wsub(t):
    """wrapping subtraction read as subtraction (used where the operands are known not to wrap)"""
    if not isinstance(t, tuple) or not t:
        return t
    r = tuple(subst_wsub(x) if isinstance(x, tuple) else x for x in t)
    if r[0] == 'app' and r[1] == 'wsub':
        return app('sub', r[2], r[3])
    if r[0] == 'app':
        return simplify(r)
    return r


def slot(i, plus=0):
    """BASE + (i + plus) * size_of::<T>() in distributed form"""
    d, c = lin(i)
    t = BASE
    for a, v in d.items():
        t = app('add', t, app('mul', app('mul', a, SZ), C(v)) if v != 1 else app('mul', a, SZ))
    k = c + plus
    if k:
        t = app('add', t, app('mul', SZ, C(k)))
    return t


def run(ctx, config='rel-all'):
    if config == 'rel-default':
        return
    db = ctx.db(config)
    ctx.assume("std's Vec algorithms as of the fork are the reference; zero-sized element arithmetic is covered only where the formula is size-independent",
               "A1 no overflow in BASE + i*size (in-bounds indices)")
    n = [0]

    def check(method, clause, okv, detail='', span=None):
        n[0] += 1
        if okv:
            ctx.ok('O2', '%s: %s' % (method, clause), detail or 'term equality after linear normalisation')
        else:
            ctx.violation('O2', 'Vec::' + method, clause.replace(' ', '_')[:60], 'Vec::%s deviates from std: %s %s' % (method, clause, detail), span)

    def gate(method, m, expected, idx_desc):
        """expected: list of (op, a, b) facts that must label the panic edges (exactly)"""
        edges = m.panic_edges()
        got = []
        for e in edges:
            for f in e.extra['added']:
                if f[0] in ('lt', 'le') and len(f) == 3:
                    got.append((f[0], m.canon(f[1])[0], m.canon(f[2])[0]))
        for exp in expected:
            n[0] += 1
            if exp in got:
                ctx.ok('R1', 'Vec::%s panics exactly when %s %s %s' % (method, show(exp[1]), '<' if exp[0] == 'lt' else '<=', show(exp[2])), 'fact on the edge into the panic (std: %s)' % idx_desc)
            else:
                ctx.violation('R1', 'Vec::' + method, 'panic-condition:' + idx_desc.replace(' ', ''), 'Vec::%s must panic exactly when %s %s %s (std: %s); panic edges carry %s' % (method, show(exp[1]), '<' if exp[0] == 'lt' else '<=', show(exp[2]), idx_desc, [(g[0], show(g[1])[:30], show(g[2])[:30]) for g in got][:4]), m.body.get('span'))

    def need(name, trait=None):
        b = vec_method(db, name, trait)
        if b is None:
            ctx.anchor_missing('O2', 'Vec::' + name)
            return None
        return M(ctx, b, config)

    i, x = ('param', 2), ('param', 3)
    # ---- insert
    m = need('insert')
    if m:
        gate('insert', m, [('lt', LEN, i)], 'index > len')
        cp = m.events('copy')
        check('insert', 'one memmove', len(cp) == 1 and m.always(cp[0]) and cp[0].callee == 'copy', str([c.callee for c in cp]), m.body.get('span'))
        if cp:
            f = cp[0].state.facts
            check('insert', 'shift source is BASE + index', m.eq(cp[0].args[0], slot(i), f), show(m.canon(cp[0].args[0], f)[0])[:80], cp[0].span)
            check('insert', 'shift destination is BASE + index + 1', m.eq(cp[0].args[1], slot(i, 1), f), show(m.canon(cp[0].args[1], f)[0])[:80], cp[0].span)
            check('insert', 'shift count is len - index', m.eq(cp[0].args[2], app('sub', LEN, i), f), show(m.canon(cp[0].args[2], f)[0])[:80], cp[0].span)
        w = m.events('call', 'ptr::write')
        check('insert', 'element written at BASE + index', len(w) == 1 and m.always(w[0]) and m.eq(w[0].args[0], slot(i), w[0].state.facts) and w[0].args[1] == x, '', m.body.get('span'))
        sl = m.events('call', '::set_len')
        check('insert', 'len := len + 1', len(sl) == 1 and m.always(sl[0]) and m.eq(sl[0].args[1], app('add', LEN, C(1)), sl[0].state.facts), '', m.body.get('span'))
        if cp and w and sl:
            ev = m.r.events
            check('insert', 'order: shift, write, set_len', ev.index(cp[0]) < ev.index(w[0]) < ev.index(sl[0]))
        rs = m.events('call', '::reserve')
        check('insert', 'reserve(1) exactly under len == cap', len(rs) == 1 and rs[0].args[1] == C(1) and any(f[0] == 'eq' and 'RawVec.cap' in repr(f) for f in rs[0].state.facts))
    # ---- remove
    m = need('remove')
    if m:
        gate('remove', m, [('le', LEN, i)], 'index >= len')
        rd = m.events('call', 'ptr::read')
        cp = m.events('copy')
        sl = m.events('call', '::set_len')
        check('remove', 'reads BASE + index', len(rd) == 1 and m.always(rd[0]) and m.eq(rd[0].args[0], slot(i), rd[0].state.facts))
        check('remove', 'returns the value read', len(rd) == 1 and m.r.ret == rd[0].ret)
        if cp:
            f = cp[0].state.facts
            check('remove', 'one memmove', len(cp) == 1 and m.always(cp[0]) and cp[0].callee == 'copy')
            check('remove', 'shift source is BASE + index + 1', m.eq(cp[0].args[0], slot(i, 1), f), show(m.canon(cp[0].args[0], f)[0])[:80])
            check('remove', 'shift destination is BASE + index', m.eq(cp[0].args[1], slot(i), f))
            check('remove', 'shift count is len - index - 1', m.eq(cp[0].args[2], app('sub', app('sub', LEN, i), C(1)), f), show(m.canon(cp[0].args[2], f)[0])[:80])
        else:
            check('remove', 'one memmove', False)
        check('remove', 'len := len - 1', len(sl) == 1 and m.always(sl[0]) and m.eq(sl[0].args[1], app('sub', LEN, C(1)), sl[0].state.facts))
        if rd and cp and sl:
            ev = m.r.events
            check('remove', 'order: read, shift, set_len', ev.index(rd[0]) < ev.index(cp[0]) < ev.index(sl[0]))
    # ---- push
    m = need('push')
    if m:
        w = m.events('call', 'ptr::write')
        st = [e for e in m.own if e.kind == 'store' and e.lv == ('fld', ('deref', SELF), 'collections::vec::Vec.len')]
        check('push', 'element written at BASE + len', len(w) == 1 and m.always(w[0]) and m.eq(w[0].args[0], slot(LEN), w[0].state.facts) and w[0].args[1] == ('param', 2))
        check('push', 'len := len + 1', len(st) == 1 and m.always(st[0]) and m.eq(st[0].val, app('add', LEN, C(1)), st[0].state.facts))
        rs = m.events('call', '::reserve')
        check('push', 'reserve(1) exactly under len == cap', len(rs) == 1 and rs[0].args[1] == C(1) and any(f[0] == 'eq' and 'RawVec.cap' in repr(f) for f in rs[0].state.facts))
        if w and st:
            check('push', 'order: write, then len', m.r.events.index(w[0]) < m.r.events.index(st[0]))
    # ---- pop
    m = need('pop')
    if m:
        st = [e for e in m.own if e.kind == 'store' and e.lv == ('fld', ('deref', SELF), 'collections::vec::Vec.len')]
        rd = m.events('call', 'ptr::read')
        alts = arena.alternatives(m.I, m.r.ret, set())
        LENL = ('load', ('fld', ('deref', SELF), 'collections::vec::Vec.len'), 0)

        def len_is_zero(fs):
            # len == 0, or (naturals) len < 1, e.g. from `self.len.checked_sub(1)?`
            return any((f[0] == 'eq' and C(0) in f[1:]) or (f[0] == 'lt' and len(f) == 3 and f[2] == C(1) and f[1] == LENL) for f in fs)
        none_ok = any(t[0] == 'agg' and t[2] == 'None' and len_is_zero(fs) for t, fs in alts)
        if not none_ok:
            # the None came out of a `?` on len.checked_sub(1): the residual carries the edge facts
            none_ok = any(len_is_zero(fs) and ('None' in m.I.variants_in(t) or t[0] == 'app') for t, fs in alts if not (t[0] == 'agg' and t[2] == 'Some'))
        check('pop', 'None exactly when len == 0', none_ok)
        check('pop', 'len := len - 1 before the read', len(st) == 1 and len(rd) == 1 and m.eq(st[0].val, app('sub', LEN, C(1)), st[0].state.facts | {('ne', C(0), ('load', ('fld', ('deref', SELF), 'collections::vec::Vec.len'), 0))}) and m.r.events.index(st[0]) < m.r.events.index(rd[0]))
        check('pop', 'reads BASE + (len - 1)', len(rd) == 1 and m.eq(rd[0].args[0], slot(LEN, -1), rd[0].state.facts | {('lt', C(0), LEN)}))
    # ---- split_off
    m = need('split_off')
    if m:
        at = ('param', 2)
        gate('split_off', m, [('lt', LEN, at)], 'at > len')
        wc = m.events('call', '::with_capacity_in')
        sl = m.events('call', '::set_len')
        cp = m.events('copy')
        check('split_off', 'other = with_capacity(len - at)', len(wc) == 1 and m.eq(wc[0].args[0], app('sub', LEN, at), wc[0].state.facts))
        selfsl = [e for e in sl if e.args[0] == SELF]
        othsl = [e for e in sl if e.args[0] != SELF]
        check('split_off', 'self.set_len(at)', len(selfsl) == 1 and m.always(selfsl[0]) and selfsl[0].args[1] == at)
        check('split_off', 'other.set_len(len - at)', len(othsl) == 1 and m.always(othsl[0]) and m.eq(othsl[0].args[1], app('sub', LEN, at), othsl[0].state.facts))
        check('split_off', 'memcpy BASE + at -> other, len - at elements', len(cp) == 1 and m.always(cp[0]) and cp[0].callee == 'copy_nonoverlapping' and m.eq(cp[0].args[0], slot(at), cp[0].state.facts) and m.eq(cp[0].args[2], app('sub', LEN, at), cp[0].state.facts))
    # ---- append_elements (a private helper of append; when it was inlined its clauses are evaluated on append itself, below)
    has_append_elements = vec_method(db, 'append_elements') is not None
    m = need('append_elements') if has_append_elements else None
    if m:
        cnt = app('len', ('param', 2))
        rs = m.events('call', '::reserve')
        cp = m.events('copy')
        st = [e for e in m.own if e.kind == 'store' and e.lv == ('fld', ('deref', SELF), 'collections::vec::Vec.len')]
        check('append_elements', 'reserve(other.len())', len(rs) == 1 and rs[0].args[1] == cnt)
        check('append_elements', 'memcpy other -> BASE + len, other.len() elements', len(cp) == 1 and m.always(cp[0]) and cp[0].callee == 'copy_nonoverlapping' and cp[0].args[0] == ('param', 2) and m.eq(cp[0].args[1], slot(LEN), cp[0].state.facts) and cp[0].args[2] == cnt)
        check('append_elements', 'len := len + other.len()', len(st) == 1 and m.always(st[0]) and m.eq(st[0].val, app('add', LEN, cnt), st[0].state.facts))
        if rs and cp and st:
            ev = m.r.events
            check('append_elements', 'order: reserve, copy, len', ev.index(rs[0]) < ev.index(cp[0]) < ev.index(st[0]))
    # ---- extend_from_slice_copy_unchecked
    m = need('extend_from_slice_copy_unchecked')
    if m:
        cnt = app('len', ('param', 2))
        cp = m.events('copy')
        sl = m.events('call', '::set_len')
        check('extend_from_slice_copy_unchecked', 'memcpy other -> BASE + len, other.len() elements', len(cp) == 1 and m.always(cp[0]) and cp[0].callee == 'copy_nonoverlapping' and m.eq(cp[0].args[1], slot(LEN), cp[0].state.facts) and cp[0].args[2] == cnt)
        check('extend_from_slice_copy_unchecked', 'len := len + other.len()', len(sl) == 1 and m.always(sl[0]) and m.eq(sl[0].args[1], app('add', LEN, cnt), sl[0].state.facts))
    # ---- swap_remove
    m = need('swap_remove')
    if m:
        st = [e for e in m.own if e.kind == 'store' and e.lv == ('fld', ('deref', SELF), 'collections::vec::Vec.len')]
        rd = m.events('call', 'ptr::read')
        idx = [e for e in m.own if e.kind == 'call' and e.callee and e.callee.endswith('index_mut')]
        check('swap_remove', 'len := len - 1', len(st) == 1 and m.always(st[0]) and m.canon(st[0].val)[0] in (('app', 'wsub', LEN, C(1)), app('sub', LEN, C(1))))
        okb = len(idx) == 1 and idx[0].args[0] == SELF and idx[0].args[1] == ('param', 2) and bool(st) and m.r.events.index(idx[0]) < m.r.events.index(st[0])
        check('swap_remove', 'bounds-checked access self[index] happens before the length is lowered', okb)
        okr = len(rd) == 1 and (('get_unchecked' in repr(rd[0].args[0]) and m.canon(rd[0].args[0][2][1] if rd[0].args[0][0] == 'call' else C(0))[0] in (('app', 'wsub', LEN, C(1)), app('sub', LEN, C(1))))
                                or m.eq(rd[0].args[0], slot(LEN, -1), rd[0].state.facts | {('lt', C(0), LEN)})
                                or slin(m.canon(subst_wsub(rd[0].args[0]))[0]) == slin(slot(LEN, -1)))
        check('swap_remove', 'the last element (len - 1) is read out', okr)
    # ---- drain constructor
    m = need('drain')
    if m:
        r = m.r.ret
        sl = m.events('call', '::set_len')
        ps = m.events('slice')
        start = sl[0].args[1] if sl else None
        end = field_of(r, 'tail_start') if r and r[0] == 'agg' else None
        edges = m.panic_edges()
        labels = []
        for e in edges:
            for f in e.extra['added']:
                if f[0] in ('lt', 'le'):
                    labels.append((f[0], f[1], f[2]))
        check('drain', 'panics exactly when end < start', start is not None and end is not None and ('lt', end, start) in labels, '', m.body.get('span'))
        lenload = ('load', ('fld', ('deref', SELF), 'collections::vec::Vec.len'), 0)
        check('drain', 'panics exactly when len < end', end is not None and ('lt', lenload, end) in labels)
        check('drain', 'len := start (leak amplification) on every path that builds the Drain', len(sl) == 1 and arena.on_every_return_path(m.I, sl[0]))
        tl = field_of(r, 'tail_len') if r is not None and r[0] == 'agg' else None
        oktl = tl is not None and end is not None and tl in (('app', 'wsub', lenload, end), app('sub', lenload, end))
        if not oktl and tl is not None and end is not None and tl[0] == 'app' and tl[1] in ('sub', 'wsub') and len(tl) == 4 and tl[3] == end:
            # the length re-read (in a helper the tail was moved into) before anything stored to it
            l2 = tl[2]
            oktl = l2[0] == 'load' and l2[1] == lenload[1] and not any(e.kind == 'store' and e.lv == lenload[1] and m.r.events.index(e) < m.r.events.index(sl[0]) for e in m.r.events if sl) \
                and bool(sl) and all(m.r.events.index(e) > m.r.events.index(sl[0]) for e in m.r.events if e.kind == 'store' and e.lv == lenload[1])
        check('drain', 'tail_len = len - end', oktl)
        if ps and start is not None and end is not None:
            b0, idx0 = split_base(m, ps[0].args[0])
            check('drain', 'drained slice starts at BASE + start', b0 == BASE and idx0 == m._strip(subst(start, m.map)), show(m.canon(ps[0].args[0])[0])[:80])
            check('drain', 'drained slice has end - start elements', ps[0].args[1] in (('app', 'wsub', end, start), app('sub', end, start)))
        # bound arithmetic is checked (std panics on usize::MAX bounds)
        exps = [e for e in m.own if e.kind == 'panic']
        okb = len(exps) >= 2 and all('checked_add' in repr(e.args[0]) for e in exps)
        if not okb:
            # `match n.checked_add(1) { Some(v) => v, None => panic!(..) }`: a diverging site under the None fact of a checked_add
            sites = {f[1] for e in m.own if e.kind in ('panic', 'diverge') for f in e.state.facts if f[0] == 'is' and f[2] == 'None' and 'checked_add' in repr(f[1])}
            okb = len(sites) >= 2
        check('drain', 'Included/Excluded bound + 1 is checked (panics instead of wrapping)', okb)
        incl_end = any(isinstance(t, tuple) and t and t[0] == 'app' and t[1] == 'add' and t[3] == C(1) and 'Included' in repr(t[2]) for t in subterms(end)) if end else False
        excl_start = any(isinstance(t, tuple) and t and t[0] == 'app' and t[1] == 'add' and t[3] == C(1) and 'Excluded' in repr(t[2]) for t in subterms(start)) if start else False
        check('drain', 'start = Included(n) => n, Excluded(n) => n + 1, Unbounded => 0', excl_start and any(x == C(0) for _, x in (start[2] if start and start[0] == 'phi' else ())))
        check('drain', 'end = Included(n) => n + 1, Excluded(n) => n, Unbounded => len', incl_end and any(x == lenload for _, x in (end[2] if end and end[0] == 'phi' else ())))
    # ---- into_iter
    m = need('into_iter', 'IntoIterator')
    if m:
        r = m.r.ret
        okv = r is not None and r[0] == 'agg'
        if okv:
            p0 = m.canon(field_of(r, 'ptr'))[0]
            endv = field_of(r, 'end')
            alts = [x for _, x in endv[2]] if endv[0] == 'phi' else [endv]
            good = any(m.eq(x, slot(LEN)) for x in alts)
            check('into_iter', 'IntoIter { ptr: BASE, end: BASE + len }', p0 == BASE and good, show(m.canon(endv)[0])[:100])
        else:
            check('into_iter', 'IntoIter { ptr: BASE, end: BASE + len }', False)
    # ---- truncate (loop: cursor and guard walk down together)
    m = need('truncate')
    if m:
        L = [v for (bid, h), v in m.r.loops.items() if bid == m.body['id']]
        okl = len(L) == 1
        check('truncate', 'one drop loop', okl, '', m.body.get('span'))
        if okl:
            rec = L[0]
            rng = [v for v in rec['init'].values() if 'Range' in repr(v)]
            okr = any(any(t[0] == 'agg' and t[1].endswith('Range') and field_of(t, 'start') == ('param', 2) and m.canon(field_of(t, 'end'))[0] == LEN for t in subterms(v) if isinstance(t, tuple) and t) for v in rng)
            check('truncate', 'the loop runs over len_arg .. self.len', okr)
            cur = [(l, v) for l, v in rec['init'].items() if m.eq(v, slot(LEN))]
            revs = [e for e in m.own if e.kind == 'call' and (e.callee or '').endswith('Iterator::rev') and e.args and e.args[0][0] == 'agg' and e.args[0][1].endswith('Range')
                    and field_of(e.args[0], 'start') == ('param', 2) and m.canon(field_of(e.args[0], 'end'))[0] == LEN]
            if not cur and revs:
                # index form: `for i in (len_arg..self.len).rev() { drop_in_place(base.add(i)) }`
                nx = [e for e in m.own if e.kind == 'call' and 'Rev<' in (e.callee or '') and (e.callee or '').endswith('Iterator>::next') and e.args and e.args[0][0] == 'addr' and e.args[0][1][0] == 'local'
                      and any(rec['init'].get(e.args[0][1][2]) is not None and revs[0].ret in subterms(rec['init'][e.args[0][1][2]]) for _ in (0,))]
                dip = [e for e in m.own if e.kind == 'drop_in_place']
                oki = len(nx) == 1 and len(dip) == 1 and m.eq(dip[0].args[0], slot(('app', 'vproj', nx[0].ret, 'Some', '0')))
                check('truncate', 'the slots dropped are BASE + i for i running DOWN over len_arg .. self.len', oki, show(dip[0].args[0])[:80] if dip else '')
            else:
                check('truncate', 'the cursor starts at BASE + len', len(cur) == 1)
            if cur:
                l = cur[0][0]
                symv = rec['sym'][l]
                steps = [st['env'].get(l) for st in rec['step']]
                check('truncate', 'the cursor steps down by one element per iteration', bool(steps) and all(sv is not None and slin(app('sub', sv, symv)) == slin(app('mul', SZ, C(-1))) for sv in steps))
                dip = [e for e in m.own if e.kind == 'drop_in_place']
                check('truncate', 'the element dropped is the one just below the old cursor', len(dip) == 1 and slin(app('sub', dip[0].args[0], symv)) == slin(app('mul', SZ, C(-1))))
            g = [v for v in rec['init'].values() if v[0] == 'agg' and v[1].endswith('SetLenOnDrop')]
            okg = len(g) == 1 and m.canon(field_of(g[0], 'local_len'))[0] == LEN and field_of(g[0], 'len') == ('addr', ('fld', ('deref', SELF), 'collections::vec::Vec.len'))
            dec = [e for e in m.own if e.kind == 'call' and (e.callee or '').endswith('::decrement_len')]
            dip = [e for e in m.own if e.kind == 'drop_in_place']
            # without a guard: `self.len -= 1` written straight into the field inside the loop
            LEN_LV_ = ('fld', ('deref', SELF), 'collections::vec::Vec.len')
            direct = [e for e in m.own if e.kind == 'store' and e.lv == LEN_LV_]
            def len_minus_one(v):
                return v[0] == 'app' and v[1] in ('sub', 'wsub') and len(v) == 4 and v[3] == C(1) and v[2][0] == 'load' and v[2][1] == LEN_LV_
            gl = m.I.cfg(m.body).loops()
            okd = not g and not dec and len(direct) == 1 and len_minus_one(direct[0].val) and any(direct[0].block in (gl.get(h) or ()) for (bid, h) in m.r.loops if bid == m.body['id'])
            check('truncate', 'the length guard starts at self.len and writes back to self.len', okg or okd)
            check('truncate', 'the length is lowered by one BEFORE each element is dropped',
                  (len(dec) == 1 and dec[0].args[1] == C(1) and len(dip) == 1 and m.r.events.index(dec[0]) < m.r.events.index(dip[0])) or
                  (okd and len(dip) == 1 and m.r.events.index(direct[0]) < m.r.events.index(dip[0])))
    # ---- extend_with (resize)
    has_extend_with = vec_method(db, 'extend_with') is not None
    m = need('extend_with') if has_extend_with else need('resize')
    pos_facts = ()
    if m:
        nn = ('param', 2)
        rs = m.events('call', '::reserve')
        if not has_extend_with:
            # the helper was inlined into resize: n is new_len - len there, and n > 0 is new_len > len
            lenl0 = ('load', ('fld', ('deref', SELF), 'collections::vec::Vec.len'), 0)
            cands = (('app', 'wsub', ('param', 2), lenl0), app('sub', ('param', 2), lenl0))
            nn = rs[0].args[1] if rs and rs[0].args[1] in cands else cands[0]
            pos_facts = (('lt', lenl0, ('param', 2)),)
        check('extend_with', 'reserve(n) first', len(rs) == 1 and rs[0].args[1] == nn and m.r.events.index(rs[0]) < min([m.r.events.index(e) for e in m.own if e.kind == 'call' and (e.callee or '').endswith('ptr::write')] or [1 << 30]), '', m.body.get('span'))
        L = [v for (bid, h), v in m.r.loops.items() if bid == m.body['id']]
        if len(L) == 1:
            rec = L[0]
            rng = [v for v in rec['init'].values() if 'Range' in repr(v)]
            okr = any(any(t[0] == 'agg' and t[1].endswith('Range') and field_of(t, 'start') == C(1) and field_of(t, 'end') == nn for t in subterms(v) if isinstance(t, tuple) and t) for v in rng)
            # the same count as a down-counter: `let mut k = n; while k > 1 { ..; k -= 1 }`
            K = None
            for l, symv in rec['sym'].items():
                if rec['init'].get(l) == nn and rec['step'] and all(sv['env'].get(l) is not None and slin(app('sub', symv, subst_wsub(sv['env'][l]))) == slin(C(1)) for sv in rec['step']):
                    K = symv
            if not okr and K is not None:
                g_ = m.I.cfg(m.body)
                blocks_ = g_.loops().get([h for (bid, h) in m.r.loops if bid == m.body['id']][0], set())
                stay = [e for e in m.own if e.kind == 'branch' and e.block in blocks_ and e.extra.get('target') in blocks_ and ('lt', C(1), K) in e.extra['added']]
                leave = [e for e in m.own if e.kind == 'branch' and e.block in blocks_ and e.extra.get('target') not in blocks_]
                okr = len(stay) == 1 and bool(leave) and all(('le', K, C(1)) in e.extra['added'] for e in leave)
            check('extend_with', 'n - 1 clones (loop over 1..n), then the original value', okr)
            cur = [(l, v) for l, v in rec['init'].items() if m.eq(v, slot(LEN))]
            check('extend_with', 'the cursor starts at BASE + len (after the reserve)', len(cur) == 1)
            w = m.events('call', 'ptr::write')
            inc = [e for e in m.own if e.kind == 'call' and (e.callee or '').endswith('::increment_len')]
            if cur:
                l = cur[0][0]
                symv = rec['sym'][l]
                steps = [st['env'].get(l) for st in rec['step']]
                check('extend_with', 'the cursor steps up by one element per clone', bool(steps) and all(sv is not None and slin(app('sub', sv, symv)) == slin(SZ) for sv in steps))
                check('extend_with', 'every write goes through the cursor', len(w) == 2 and all(x.args[0] == symv for x in w))
            evs = m.r.events
            okw = len(w) == 2 and len(inc) == 2 and all(a[1] == C(1) for a in [i.args for i in inc]) and evs.index(w[0]) < evs.index(inc[0]) < evs.index(w[1]) < evs.index(inc[1])
            check('extend_with', 'the length is raised by one only AFTER each slot was written', okw)
            check('extend_with', 'the last write (the moved original) happens only for n > 0', len(w) == 2 and any(f in (('lt', C(0), nn), ('ne', C(0), nn), ('ne', nn, C(0))) or f in pos_facts or (K is not None and f in (('eq', K, C(1)), ('eq', C(1), K))) for f in w[1].state.facts))
        else:
            check('extend_with', 'one clone loop', False)
    # ---- resize / clear / append / extend_from_slice_copy: thin compositions
    m = need('resize') if has_extend_with else None
    if m:
        ew = m.events('call', '::extend_with')
        tr = m.events('call', '::truncate')
        lenl = ('load', ('fld', ('deref', SELF), 'collections::vec::Vec.len'), 0)
        okg = len(ew) == 1 and ew[0].args[1] in (('app', 'wsub', ('param', 2), lenl), app('sub', ('param', 2), lenl)) and (('lt', lenl, ('param', 2)) in ew[0].state.facts or ('le', lenl, ('param', 2)) in ew[0].state.facts)
        check('resize', 'grows by extend_with(new_len - len, value) only when new_len >= len (the difference cannot wrap)', okg, '', m.body.get('span'))
        check('resize', 'otherwise truncate(new_len)', len(tr) == 1 and tr[0].args[1] == ('param', 2) and (('le', ('param', 2), lenl) in tr[0].state.facts or ('lt', ('param', 2), lenl) in tr[0].state.facts))
    m = need('clear')
    if m:
        tr = m.events('call', '::truncate')
        check('clear', 'truncate(0)', len(tr) == 1 and m.always(tr[0]) and tr[0].args[0] == SELF and tr[0].args[1] == C(0))
    m = need('append')
    if m and not has_append_elements:
        oth = ('param', 2)
        cnt = ('load', ('fld', ('deref', oth), 'collections::vec::Vec.len'), 0)
        rs = m.events('call', '::reserve')
        cp = m.events('copy')
        st = [e for e in m.own if e.kind == 'store' and e.lv == ('fld', ('deref', SELF), 'collections::vec::Vec.len')]
        sl = m.events('call', '::set_len')
        check('append', 'reserve(other.len())', len(rs) == 1 and rs[0].args[0] == SELF and rs[0].args[1] == cnt)
        srcok = len(cp) == 1 and cp[0].args[0][0] == 'load' and 'RawVec.ptr' in repr(cp[0].args[0]) and repr(oth) in repr(cp[0].args[0])
        check('append', 'memcpy other.buf -> BASE + len, other.len() elements', srcok and cp[0].callee == 'copy_nonoverlapping' and m.eq(cp[0].args[1], slot(LEN), cp[0].state.facts) and cp[0].args[2] == cnt)
        check('append', 'len := len + other.len()', len(st) == 1 and m.always(st[0]) and m.eq(st[0].val, app('add', LEN, cnt), st[0].state.facts))
        ev = m.r.events
        check('append', 'order: reserve, copy, len', bool(rs and cp and st) and ev.index(rs[0]) < ev.index(cp[0]) < ev.index(st[0]))
        check('append', 'other.set_len(0) after the copy (the elements moved)', len(sl) == 1 and m.always(sl[0]) and sl[0].args[0] == oth and sl[0].args[1] == C(0) and bool(cp) and ev.index(cp[0]) < ev.index(sl[0]))
    elif m:
        ae = m.events('call', '::append_elements')
        sl = m.events('call', '::set_len')
        oth = ('param', 2)
        oks = len(ae) == 1 and ae[0].args[0] == SELF and ae[0].args[1][0] == 'agg' and field_of(ae[0].args[1], 'len') == ('load', ('fld', ('deref', oth), 'collections::vec::Vec.len'), 0) \
            and field_of(ae[0].args[1], 'ptr')[0] == 'load' and 'RawVec.ptr' in repr(field_of(ae[0].args[1], 'ptr')) and repr(oth) in repr(field_of(ae[0].args[1], 'ptr'))
        check('append', 'append_elements(other[..]) copies exactly other.len elements from other', oks)
        check('append', 'other.set_len(0) after the copy (the elements moved)', len(sl) == 1 and m.always(sl[0]) and sl[0].args[0] == oth and sl[0].args[1] == C(0) and bool(ae) and m.r.events.index(ae[0]) < m.r.events.index(sl[0]))
    m = need('extend_from_slice_copy')
    if m:
        rs = m.events('call', '::reserve')
        un = m.events('call', '::extend_from_slice_copy_unchecked')
        cnt = app('len', ('param', 2))
        check('extend_from_slice_copy', 'reserve(other.len()) precedes the unchecked copy of the same slice', len(rs) == 1 and rs[0].args[1] == cnt and len(un) == 1 and un[0].args[1] == ('param', 2) and m.r.events.index(rs[0]) < m.r.events.index(un[0]))
    # ---- views: deref / deref_mut / into_bump_slice(_mut) / into_boxed_slice expose exactly (BASE, len)
    for name, trait in (('deref', 'Deref'), ('deref_mut', 'DerefMut'), ('into_bump_slice', None), ('into_bump_slice_mut', None), ('into_boxed_slice', None)):
        m = need(name, trait)
        if not m:
            continue
        sl = m.events('slice')
        byval = name.startswith('into_')
        if byval:
            okv = len(sl) == 1 and sl[0].args[0] == ('app', 'proj', ('app', 'proj', SELF, 'collections::vec::Vec.buf'), 'collections::raw_vec::RawVec.ptr') and sl[0].args[1] == ('app', 'proj', SELF, 'collections::vec::Vec.len')
            fg = m.events('call', 'mem::forget')
            okv = okv and len(fg) == 1 and fg[0].args[0] == SELF
        else:
            okv = len(sl) == 1 and m.canon(sl[0].args[0])[0] == BASE and m.canon(sl[0].args[1])[0] == LEN
        check(name, 'exposes exactly from_raw_parts(BASE, len)' + (' and forgets the vector (the arena keeps the elements)' if byval else ''), okv, '', m.body.get('span'))
    # ---- IntoIter::next / next_back / size_hint
    it = {}
    for b in db.fn_bodies():
        mm = b['meta']
        if b['kind'] == 'assoc_fn' and (mm.get('impl_adt') or '').endswith('vec::IntoIter') and mm.get('name') in ('next', 'next_back', 'size_hint'):
            it[mm['name']] = b
    for name in ('next', 'next_back'):
        b = it.get(name)
        if b is None:
            ctx.anchor_missing('O2', 'IntoIter::' + name)
            continue
        I2, r2 = arena.run_fn(ctx, b['id'], config)
        ev = [e for e in r2.events if e.is_own()]
        P_, E_ = ('load', ('fld', ('deref', SELF), 'collections::vec::IntoIter.ptr'), 0), ('load', ('fld', ('deref', SELF), 'collections::vec::IntoIter.end'), 0)
        fldn = 'ptr' if name == 'next' else 'end'
        cur = P_ if name == 'next' else E_
        sts = [e for e in ev if e.kind == 'store' and e.lv == ('fld', ('deref', SELF), 'collections::vec::IntoIter.' + fldn)]
        rd = [e for e in ev if e.kind == 'call' and (e.callee or '').endswith('ptr::read')]
        sgn = 1 if name == 'next' else -1
        hl = slin
        want = {hl(app('add', cur, app('mul', SZ, C(sgn)))), hl(app('add', cur, C(sgn)))}
        got = {hl(e.val) for e in sts}
        check('IntoIter::' + name, 'the cursor moves by exactly one element (one byte for zero-sized elements)', len(sts) == 2 and got == want, str([show(e.val)[:50] for e in sts]), b.get('span'))
        zst = [e for e in sts if slin(e.val) == slin(app('add', cur, C(sgn)))]
        check('IntoIter::' + name, 'the one-byte step is taken exactly when size_of::<T>() == 0', len(zst) == 1 and any(f[0] == 'eq' and SZ in f[1:] and C(0) in f[1:] for f in zst[0].state.facts))
        rdat = cur if name == 'next' else app('add', cur, app('mul', SZ, C(-1)))
        check('IntoIter::' + name, 'the element read is the one the cursor %s' % ('pointed at' if name == 'next' else 'now points at'), len(rd) == 1 and slin(rd[0].args[0]) == slin(rdat))
        alts = arena.alternatives(I2, r2.ret, set())
        okn = any(t[0] == 'agg' and t[2] == 'None' and any(f[0] == 'eq' and set(f[1:]) == {P_, E_} for f in fs) for t, fs in alts)
        check('IntoIter::' + name, 'None exactly when ptr == end', okn)
    b = it.get('size_hint')
    if b is not None:
        I2, r2 = arena.run_fn(ctx, b['id'], config)
        P_, E_ = ('load', ('fld', ('deref', SELF), 'collections::vec::IntoIter.ptr'), 0), ('load', ('fld', ('deref', SELF), 'collections::vec::IntoIter.end'), 0)
        lo = field_of(r2.ret, '0') if r2.ret is not None and r2.ret[0] == 'agg' else None
        alts = {x for _, x in lo[2]} if lo is not None and lo[0] == 'phi' else {lo}
        bytes_ = ('app', 'wsub', E_, P_)
        check('IntoIter::size_hint', 'exact = (end - ptr) / size_of::<T>() (bytes for zero-sized elements)', alts == {bytes_, ('app', 'div', bytes_, SZ)}, str([show(a)[:60] for a in alts if a]), b.get('span'))
    # ---- dedup: partition_dedup_by (std's read/write cursor algorithm) + truncate
    pb = [b for b in db.fn_bodies() if b['kind'] == 'fn' and b['meta'].get('name') == 'partition_dedup_by']
    if not pb:
        ctx.anchor_missing('O2', 'partition_dedup_by')
    else:
        b = pb[0]
        I2, r2 = arena.run_fn(ctx, b['id'], config)
        ev = [e for e in r2.events if e.is_own()]
        S = ('param', 1)
        index_form = (b['meta'].get('output') or '') == 'usize'
        Ls = [v for (bid, h), v in r2.loops.items() if bid == b['id']]
        okl = len(Ls) == 1
        check('partition_dedup_by', 'one scan loop', okl, '', b.get('span'))
        if okl:
            rec = Ls[0]
            ones = [l for l, v in rec['init'].items() if v == C(1)]
            rd = [l for l in ones if all(st['env'].get(l) == app('add', rec['sym'][l], C(1)) for st in rec['step'])]
            wr = [l for l in ones if l not in rd]
            R_ = W_ = None
            range_form = False
            if len(rd) == 1 and len(wr) == 1:
                R_, W_ = rec['sym'][rd[0]], rec['sym'][wr[0]]
            elif len(ones) == 1:
                # `for r in 1..len`: the read cursor is the item of a Range { start: 1, end: len } iterator
                rng = [v for v in rec['init'].values() if any(isinstance(t, tuple) and t and t[0] == 'agg' and t[1].endswith('Range') and field_of(t, 'start') == C(1) and field_of(t, 'end') == app('len', S) for t in subterms(v))]
                nxr = [e for e in ev if e.kind == 'call' and 'Range<' in (e.callee or '') and (e.callee or '').endswith('::next')]
                if len(rng) == 1 and len(nxr) == 1:
                    R_, W_ = ('app', 'vproj', nxr[0].ret, 'Some', '0'), rec['sym'][ones[0]]
                    wr = ones
                    range_form = True
            check('partition_dedup_by', 'read and write cursors both start at 1; the read cursor advances on every iteration', R_ is not None)
            if R_ is not None:
                uc = [e for e in ev if e.kind == 'call' and (e.extra.get('trait_path') or '').endswith('FnMut::call_mut')]
                el = lambda i: app('add', S, app('mul', i, SZ))
                okp = len(uc) == 1 and uc[0].args[1][0] == 'agg' and [lin(v) for _, v in uc[0].args[1][3]] == [lin(el(R_)), lin(el(('app', 'wsub', W_, C(1))))]
                check('partition_dedup_by', 'same_bucket(&mut s[r], &mut s[w - 1])', okp)
                ws = [st['env'].get(wr[0]) for st in rec['step']]
                okw = (len(ws) == 1 and ws[0] is not None and ws[0][0] == 'phi' and {x for _, x in ws[0][2]} == {W_, app('add', W_, C(1))}) or \
                    (len(ws) == 2 and set(ws) == {W_, app('add', W_, C(1))})     # `continue` for a duplicate: two back edges
                check('partition_dedup_by', 'the write cursor advances by one exactly for elements that are kept', okw)
                sw = [e for e in ev if e.kind == 'call' and ((e.callee or '').endswith('mem::swap') or (e.callee or '').endswith('ptr::swap'))]
                oks = len(sw) == 1 and lin(sw[0].args[0]) == lin(el(R_)) and lin(sw[0].args[1]) in (lin(app('add', el(('app', 'wsub', W_, C(1))), SZ)), lin(el(W_))) and any(f[0] == 'ne' and set(f[1:]) == {R_, W_} for f in sw[0].state.facts) \
                    and any(f[0] == 'nottrue' for f in sw[0].state.facts)
                check('partition_dedup_by', 'a kept element is swapped from s[r] into s[w] (only when r != w)', oks)
                sp = [e for e in ev if e.kind == 'call' and (e.callee or '').endswith('split_at_mut')]
                oksp = len(sp) == 1 and sp[0].args == [S, W_] and (any(f == ('le', app('len', S), R_) for f in sp[0].state.facts) or (range_form and any(f[0] == 'is' and f[2] == 'None' and f[1] == nxr[0].ret for f in sp[0].state.facts)))
                if not sp and index_form:
                    # the helper hands back the split position instead of the two halves: the write cursor, once the read cursor reached len
                    oksp = any(t == W_ and (any(f == ('le', app('len', S), R_) for f in fs) or (range_form and any(f[0] == 'is' and f[2] == 'None' and f[1] == nxr[0].ret for f in fs)))
                               for t, fs in arena.alternatives(I2, r2.ret, set(r2.ret_state.facts) if r2.ret_state else set()))
                check('partition_dedup_by', 'the slice is split at the write cursor once the read cursor reached len', oksp)
        alts = arena.alternatives(I2, r2.ret, set())
        check('partition_dedup_by', 'slices of length <= 1 are returned unchanged', any(((t[0] == 'agg' and field_of(t, '0') == S) or (index_form and t == app('len', S))) and any(f == ('le', app('len', S), C(1)) for f in fs) for t, fs in alts))
    m = need('dedup_by')
    if m:
        pc = m.events('call', 'partition_dedup_by')
        tr = m.events('call', '::truncate')
        okv = len(pc) == 1 and len(tr) == 1 and m.canon(field_of(pc[0].args[0], 'ptr'))[0] == BASE and m.canon(field_of(pc[0].args[0], 'len'))[0] == LEN and pc[0].args[1] == ('param', 2) \
            and tr[0].args[0] == SELF and pc[0].ret is not None and ((tr[0].args[1][0] == 'app' and tr[0].args[1][1] == 'len' and first_components(tr[0].args[1][2], pc[0].ret)) or
                                                                  (tr[0].args[1] == pc[0].ret and (db.by_path.get(pc[0].callee) or {}).get('meta', {}).get('output') == 'usize'))
        check('dedup_by', 'truncate(len of the deduplicated prefix of self[..])', okv, '', m.body.get('span'))
    # ---- IntoIter views
    for nm in ('as_slice', 'as_mut_slice'):
        bs = [b for b in db.fn_bodies() if b['kind'] == 'assoc_fn' and (b['meta'].get('impl_adt') or '').endswith('vec::IntoIter') and b['meta'].get('name') == nm]
        if not bs:
            ctx.anchor_missing('O2', 'IntoIter::' + nm)
            continue
        I2, r2 = arena.run_fn(ctx, bs[0]['id'], config)
        sl = [e for e in r2.events if e.is_own() and e.kind == 'slice']
        P_ = ('load', ('fld', ('deref', SELF), 'collections::vec::IntoIter.ptr'), 0)
        okv = len(sl) == 1 and sl[0].args[0] == P_ and intoiter_len_ok(sl[0].args[1])
        check('IntoIter::' + nm, 'the remaining elements are from_raw_parts(ptr, self.len())', okv, '', bs[0].get('span'))
    # ---- RawVec constructors / capacity
    def rawvec(name):
        bs = [b for b in db.fn_bodies() if b['kind'] == 'assoc_fn' and (b['meta'].get('impl_adt') or '').endswith('raw_vec::RawVec') and b['meta'].get('name') == name and not b['meta'].get('impl_trait')]
        if not bs:
            ctx.anchor_missing('O2', 'RawVec::' + name)
        return bs[0] if bs else None
    b = rawvec('cap')
    if b:
        I2, r2 = arena.run_fn(ctx, b['id'], config)
        capl = ('load', ('fld', ('deref', SELF), 'collections::raw_vec::RawVec.cap'), 0)
        alts = arena.alternatives(I2, r2.ret, set())
        okv = {t for t, _ in alts} == {C((1 << 64) - 1), capl} and any(t == C((1 << 64) - 1) and any(f[0] == 'eq' and SZ in f[1:] and C(0) in f[1:] for f in fs) for t, fs in alts)
        check('RawVec::cap', 'usize::MAX for zero-sized elements, the stored capacity otherwise', okv, '', b.get('span'))
    b = rawvec('new_in')
    if b:
        I2, r2 = arena.run_fn(ctx, b['id'], config)
        okv = r2.ret is not None and r2.ret[0] == 'agg' and field_of(r2.ret, 'cap') == C(0) and field_of(r2.ret, 'a') == SELF and field_of(r2.ret, 'ptr')[0] == 'app' and field_of(r2.ret, 'ptr')[1] == 'dangling'
        check('RawVec::new_in', 'dangling pointer, capacity 0, the given arena', okv, '', b.get('span'))
    b = rawvec('from_raw_parts_in')
    if b:
        I2, r2 = arena.run_fn(ctx, b['id'], config)
        okv = r2.ret is not None and r2.ret[0] == 'agg' and [field_of(r2.ret, k) for k in ('ptr', 'cap', 'a')] == [('param', 1), ('param', 2), ('param', 3)]
        check('RawVec::from_raw_parts_in', '(ptr, cap, arena) are stored as given', okv, '', b.get('span'))
    b = rawvec('allocate_in')
    if b:
        I2, r2 = arena.run_fn(ctx, b['id'], config)
        ev = [e for e in r2.events if e.is_own() and e.kind == 'call']
        cm = [e for e in ev if (e.callee or '').endswith('checked_mul')]
        ag = [e for e in ev if (e.callee or '').endswith('::alloc_guard')]
        al = [e for e in ev if (e.extra.get('trait_path') or '') in ('alloc::Alloc::alloc', 'alloc::Alloc::alloc_zeroed')]
        nbytes = app('mul', ('param', 1), SZ)
        okv = len(cm) == 1 and set(cm[0].args) == {('param', 1), SZ} and len(ag) == 1 and ag[0].args[0] == nbytes and len(al) == 2 and all(a.args[1] == ('layout', nbytes, sym('alignof(T)')) for a in al) \
            and all(('ne', nbytes, C(0)) in a.state.facts for a in al)
        if not okv and not cm and len(al) == 2:
            # the same through Layout::array::<T>(cap): its Ok payload is the checked, guarded byte size
            lays = {a.args[1] for a in al}
            def from_array(L):
                return isinstance(L, tuple) and L[:1] == ('app',) and L[1] in ('payload', 'vproj') and isinstance(L[2], tuple) and L[2][:2] == ('app', 'layout_array') and L[2][2] == ('param', 1)
            okv = len(lays) == 1 and from_array(next(iter(lays))) and all(any(f[0] == 'ne' and C(0) in f[1:] and any(isinstance(x, tuple) and x[:2] == ('app', 'size') for x in f[1:]) for f in a.state.facts) for a in al) \
                and all(any(f[0] == 'is' and f[2] == 'Ok' and isinstance(f[1], tuple) and f[1][:2] == ('app', 'layout_array') for f in a.state.facts) for a in al)
        check('RawVec::allocate_in', 'bytes = checked cap * size_of::<T>(), guarded, allocated (zeroed or not) only when non-zero', okv, '', b.get('span'))
        okr = r2.ret is not None and r2.ret[0] == 'agg' and field_of(r2.ret, 'cap') == ('param', 1)
        check('RawVec::allocate_in', 'records the requested capacity', okr)
    m = need('capacity')
    if m:
        cc = m.events('call', '::cap')
        check('capacity', 'forwards to the raw buffer', len(cc) == 1 and m.r.ret == cc[0].ret, '', m.body.get('span'))
    m = need('shrink_to_fit')
    if m:
        st = m.events('call', 'RawVec::<\'a, T>::shrink_to_fit')
        lenl = ('load', ('fld', ('deref', SELF), 'collections::vec::Vec.len'), 0)
        check('shrink_to_fit', 'shrinks the raw buffer to exactly len', len(st) == 1 and st[0].args[1] == lenl, '', m.body.get('span'))
    ctx.floor('O2', n[0], 100, 'formula clauses evaluated')
    # ---- R3 reserve forwarding
    for name in ('reserve', 'reserve_exact', 'try_reserve', 'try_reserve_exact'):
        b = vec_method(db, name)
        if b is None:
            ctx.anchor_missing('R3', 'Vec::' + name)
            continue
        m = M(ctx, b, config)
        calls = [e for e in m.own if e.kind == 'call' and e.callee and 'raw_vec::RawVec' in e.callee and name == e.callee.split('::')[-1]]
        okv = len(calls) == 1 and m.canon(calls[0].args[1])[0] == LEN and calls[0].args[2] == ('param', 2)
        if okv:
            ctx.ok('R3', 'Vec::%s forwards (len, additional) to RawVec::%s' % (name, calls[0].callee.split('::')[-1]), 'argument identity')
        else:
            ctx.violation('R3', 'Vec::' + name, 'forward', 'Vec::%s does not forward (self.len, additional) in that order to the raw buffer' % name, b.get('span'))
    n5 = check_realloc_adopted(ctx, db, config, 'R5')
    ctx.floor('R5', n5, 4, 'RawVec functions that (re)allocate')
    check_unwind_consistency(ctx, db)
    from . import drainfilter, splice, c19, forwarding, glue
    # ---- R8 comparison / hashing / formatting / indexing / borrow impls hand the whole contents to the slice impl; R9 compositions
    forwarding.check(ctx, config, 'R8', 'vec::Vec', 20)
    glue.check_vec(ctx, config, 'R9')
    # ---- R12 helpers, accessors, iterator glue
    from . import helpers
    helpers.check_vec(ctx, config, 'R12')
    helpers.check_effect(ctx, config, 'R13', ('src/collections/vec.rs', 'src/collections/raw_vec.rs', 'src/collections/collect_in.rs'))
    # ---- R14 an iterator's size_hint sizes reservations only (std behaves identically for iterators whose hints lie)
    from . import hinttaint
    hinttaint.check(ctx, db, 'R14', ('src/collections/vec.rs', 'src/collections/raw_vec.rs', 'src/collections/collect_in.rs'))
    # ---- R15 the owning iterator types are built only by the constructors whose formulas are checked above
    from . import ownership
    ownership.constructors(ctx, db, 'R15')
    # ---- R10 the exported vec! macro (no MIR inside the crate: analysed on its expansion in a client probe)
    if config == 'rel-all':
        from . import macros
        macros.check_vec(ctx, 'R10')
    drainfilter.check(ctx, config, 'O3')
    splice.check(ctx, config, 'O4')
    # ---- R7 std's RawVec/Vec compute every byte size / capacity with checked arithmetic (CapacityOverflow instead of a wrapped size);
    # shared with C19.R1, restricted to the forked vector
    ns, nn, _ = c19.check_size_sinks(ctx, db, config, 'R7', lambda sp: sp.startswith('src/collections/raw_vec.rs') or sp.startswith('src/collections/vec.rs'))
    ctx.floor('R7', ns, 60, 'size sinks in vec.rs / raw_vec.rs')
    # ---- R11 try_reserve* returning Err leaves the vector unchanged (std): shared with C19.R6
    c19.check_rawvec_failure_atomicity(ctx, db, config, 'R11')


def check_realloc_adopted(ctx, db, config, rule='R5'):
    """R5: RawVec stores the pointer every (re)allocation returns (the arena may have moved the block)"""
    # ---- R5 reallocation results are adopted
    n5 = 0
    for b in db.fn_bodies():
        mm = b['meta']
        if b['kind'] == 'closure' or not (mm.get('impl_adt') or '').endswith('raw_vec::RawVec'):
            continue
        has = any((t['callee'].get('path') or '') in ('alloc::Alloc::realloc', 'alloc::Alloc::alloc', 'alloc::Alloc::alloc_zeroed') for bi, t in db.calls(b))
        if not has:
            continue
        I, r = arena.run_fn(ctx, b['id'], config)
        own = [e for e in r.events if e.is_own()]
        acalls = [e for e in own if e.kind == 'call' and (e.extra.get('trait_path') or '').startswith('alloc::Alloc::') and (e.extra.get('trait_path') or '').split('::')[-1] in ('realloc', 'alloc', 'alloc_zeroed')]
        pst = [e for e in own if e.kind in ('store',) and e.lv[0] == 'fld' and e.lv[2].endswith('RawVec.ptr')]
        fn = arena.short(b['id'])
        if mm.get('name') in ('allocate_in',):
            # constructor: the pointer goes into the returned RawVec aggregate
            okv = r.ret is not None and any(isinstance(t, tuple) and t and t[0] == 'call' and 'Alloc::alloc' in t[1] for t in subterms(r.ret)) or bool(pst)
        else:
            okv = bool(acalls) and bool(pst) and all(any(isinstance(t, tuple) and t == c.ret for t in subterms(s.val)) or any(c.ret in subterms(s.val) for c in acalls) for s in pst for c in acalls[:1]) if pst else False
            pays = []
            for c in acalls:
                if c.ret is not None:
                    pays.append(I.project_variant(None, c.ret, 'Ok', '0'))
                    pays.append(c.ret)
            okv = bool(pst) and any(any(pv == s.val or pv in subterms(s.val) for pv in pays) for s in pst)
            if not pst and r.ret is not None and any(pv in subterms(r.ret) for pv in pays):
                okv = True      # a helper that hands the fresh block back to its caller (which is judged in turn, with this helper inlined)
        n5 += 1
        if okv:
            ctx.ok(rule, '%s stores the pointer returned by the (re)allocation into self.ptr' % fn, 'term containment')
        else:
            ctx.violation(rule, fn, 'realloc-result-dropped', '%s (re)allocates the buffer but does not store the returned pointer into self.ptr: after the arena moved the block the vector would keep using the old address' % fn, b.get('span'))
    return n5


def check_unwind_consistency(ctx, db):
    """R6: std's Vec keeps len consistent with the initialised prefix at every point where user code can
    unwind (resize/extend/clone/dedup/retain/truncate): same typestate as C16, restricted to vec.rs / raw_vec.rs"""
    from .. import panicsafe
    ps = panicsafe.PanicSafety(db)
    mu = ps.may_user()
    n = 0
    for b in db.fn_bodies():
        sp = b.get('span') or ''
        if b['kind'] == 'closure' or not (sp.startswith('src/collections/vec.rs') or sp.startswith('src/collections/raw_vec.rs')) or b['id'] not in mu:
            continue
        res = ps.analyse(b)
        n += 1
        fn = arena.short(b['id'])
        if res['findings']:
            for e, info, pr in res['findings']:
                ctx.violation('R6', fn, 'unwind-state:' + pr.split(' ')[1] + pr.split(' ')[2], '%s: where std keeps the vector consistent, user code may run here (%s) while %s' % (fn, info, pr), e.span)
        else:
            ctx.ok('R6', '%s: length consistent at its %d user-call site(s)' % (fn, res['user_sites']), 'panic-safety typestate')
    ctx.floor('R6', n, 40, 'Vec/RawVec functions that may run user code')


def first_components(x, ret):
    """x is, alternative by alternative, the `.0` component of the pair `ret`"""
    ra = [v for _, v in ret[2]] if ret[0] == 'phi' else [ret]
    xa = [v for _, v in x[2]] if x[0] == 'phi' else [x]
    if len(ra) != len(xa):
        return False
    for a, b in zip(xa, ra):
        if b[0] == 'agg':
            if a != field_of(b, '0'):
                return False
        elif a != ('app', 'proj', b, 'tuple.0'):
            return False
    return True


def split_base(m, t):
    c, _ = m.canon(t)
    d, k = lin(c)
    base = None
    idx = None
    for a, v in d.items():
        if a == BASE and v == 1:
            base = BASE
        elif a[0] == 'app' and a[1] == 'mul' and a[3] == SZ and v == 1:
            idx = a[2]
    return base, idx
