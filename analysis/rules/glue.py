"""Composition clauses for the remaining trait impls / constructors of collections::Vec and collections::String
(C13.R9, C14.R7): Clone, Extend, from_iter_in, io::Write, fmt::Write, Add/AddAssign, serde::Serialize.
Each is a thin composition in std; the clause states which primitive is called with which operands, once, and what is returned."""
from .. import arena
from ..terms import *
from .forwarding import full_view

SELF = ('param', 1)


def impls(db, adt_suffix, trait_suffix, name, idpart=None):
    return [b for b in db.fn_bodies() if b['kind'] == 'assoc_fn' and (b['meta'].get('impl_adt') or '').endswith(adt_suffix)
            and (b['meta'].get('impl_trait') or '').endswith(trait_suffix) and b['meta'].get('name') == name and (idpart is None or idpart in b['id'])]


def own_calls(r, suffix=None, trait=None):
    out = []
    for e in r.events:
        if not e.is_own() or e.kind != 'call':
            continue
        if suffix and not (e.callee or '').endswith(suffix):
            continue
        if trait and not (e.extra.get('trait_path') or '').endswith(trait):
            continue
        out.append(e)
    return out


def item_of_next(t):
    """t is the Some payload of an Iterator::next call"""
    return isinstance(t, tuple) and t and t[0] == 'app' and t[1] in ('vproj', 'payload') and t[2][0] == 'call' and t[2][1].endswith('::next')


class Clauses:
    def __init__(self, ctx, rule):
        self.ctx, self.rule, self.n = ctx, rule, 0

    def check(self, fn, clause, okv, detail='', span=None):
        self.n += 1
        if okv:
            self.ctx.ok(self.rule, '%s: %s' % (fn, clause), 'call-event term identity')
        else:
            self.ctx.violation(self.rule, fn, 'glue:' + clause.replace(' ', '_')[:60], '%s deviates from std: %s %s' % (fn, clause, detail), span)


def extend_loop(C, ctx, config, b, fn, sink_suffix, what):
    I, r = arena.run_fn(ctx, b['id'], config)
    it = own_calls(r, trait='IntoIterator::into_iter')
    sk = own_calls(r, sink_suffix)
    okv = bool(it) and it[0].args[0] == ('param', 2) and len(sk) == 1 and sk[0].args[0] == SELF and (item_of_next(sk[0].args[1]) or (sk[0].args[1][0] == 'load' and item_of_next(sk[0].args[1][1][1]) if sk[0].args[1][0] == 'load' else False)
                                                                                            or any(item_of_next(x) for x in subterms(sk[0].args[1]))
                                                                                            or (sk[0].args[1][0] == 'call' and sk[0].args[1][1].endswith('::deref') and sk[0].args[1][2][0][0] == 'addr' and sk[0].args[1][2][0][1][0] == 'local'
                                                                                                and len(own_calls(r, trait='Iterator::next')) == 1))
    # the loop may sit in the impl itself or in a private helper it was moved into: the sink call must be inside a loop of its own frame
    inloop = bool(sk) and any(bid == sk[0].fn and sk[0].block in I.cfg(I.bodies[bid]).loops().get(h, ()) for (bid, h) in r.loops if bid in I.bodies)
    if not inloop and sk and it:
        # internal iteration: `into_iter(arg).for_each(|x| sink(self, x))` -- the sink sits in the closure handed to for_each
        fe = [e for e in own_calls(r) if (e.callee or '').endswith('Iterator::for_each') and e.args and e.args[0] == it[0].ret and len(e.args) > 1 and e.args[1][0] == 'agg' and e.args[1][1].startswith('closure:')]
        inloop = len(fe) == 1 and any(f[0] == fe[0].args[1][1][len('closure:'):] for f in sk[0].stack[1:])
    C.check(fn, 'every item of the argument iterator is handed to %s on self, in iteration order' % what, okv and inloop, '', b.get('span'))


def check_vec(ctx, config, rule):
    db = ctx.db(config)
    C = Clauses(ctx, rule)
    # ---- Clone
    for b in impls(db, 'vec::Vec', 'clone::Clone', 'clone'):
        I, r = arena.run_fn(ctx, b['id'], config)
        wc = own_calls(r, '::with_capacity_in')
        ex = own_calls(r, trait='Extend::extend')
        lenl = ('load', ('fld', ('deref', SELF), 'collections::vec::Vec.len'), 0)
        okw = len(wc) == 1 and wc[0].args[0] == lenl and wc[0].args[1][0] == 'load' and wc[0].args[1][1][0] == 'fld' and wc[0].args[1][1][2].endswith('RawVec.a')
        C.check('Vec::clone', 'the copy is created with_capacity_in(self.len(), self.bump())', okw, '', b.get('span'))
        oke = len(ex) == 1 and ex[0].args[1][0] == 'call' and ex[0].args[1][1].endswith('::cloned') and ex[0].args[1][2][0][0] == 'call' and ex[0].args[1][2][0][1].endswith('::iter') and full_view(ex[0].args[1][2][0][2][0], 1)
        C.check('Vec::clone', 'and extended with self.iter().cloned() over the whole contents', oke)
    # ---- Extend<T> / Extend<&T>
    for b in impls(db, 'vec::Vec', 'collect::Extend', 'extend', 'Extend<T>>'):
        extend_loop(C, ctx, config, b, 'Vec::extend', "Vec::<'bump, T>::push", 'push')
    for b in impls(db, 'vec::Vec', 'collect::Extend', 'extend', "Extend<&'a T>>"):
        I, r = arena.run_fn(ctx, b['id'], config)
        ex = own_calls(r, trait='Extend::extend')
        okv = len(ex) == 1 and ex[0].args[0] == SELF and ex[0].args[1][0] == 'call' and ex[0].args[1][1].endswith('::cloned') and ex[0].args[1][2][0][0] == 'call' and ex[0].args[1][2][0][2] == (('param', 2),)
        if not okv and not ex:
            # forwards to a private helper that runs the same loop: the iterator handed on is into_iter(param 2).cloned() and
            # every item of it is pushed on self
            cl = [e for e in own_calls(r) if (e.callee or '').endswith('::cloned') and e.args and e.args[0][0] == 'call' and e.args[0][2] == (('param', 2),)]
            pu = own_calls(r, "Vec::<'bump, T>::push")
            nx = [e for e in own_calls(r) if (e.extra.get('trait_path') or e.callee or '').endswith('Iterator::next')]
            okv = len(cl) == 1 and len(pu) == 1 and pu[0].args[0] == SELF and any(item_of_next(x) for x in subterms(pu[0].args[1])) and len(nx) == 1 \
                and any(bid == pu[0].fn and pu[0].block in I.cfg(I.bodies[bid]).loops().get(h, ()) for (bid, h) in r.loops if bid in I.bodies)
        C.check('Vec::extend(&T)', 'forwards to extend(iter.into_iter().cloned())', okv, '', b.get('span'))
    # ---- extend_from_slice / extend_from_slices_copy
    bs = [b for b in db.fn_bodies() if b['kind'] == 'assoc_fn' and (b['meta'].get('impl_adt') or '').endswith('vec::Vec') and b['meta'].get('name') == 'extend_from_slice' and not b['meta'].get('impl_trait')]
    for b in bs:
        I, r = arena.run_fn(ctx, b['id'], config)
        ex = own_calls(r, trait='Extend::extend')
        okv = len(ex) == 1 and ex[0].args[0] == SELF and ex[0].args[1][0] == 'call' and ex[0].args[1][1].endswith('::cloned') and ex[0].args[1][2][0][0] == 'call' and ex[0].args[1][2][0][2] == (('param', 2),)
        if not okv and not ex:
            # the Extend body written out for a slice source: [reserve(other.len());] for item in other { self.push(item.clone()) }
            its = [e for e in own_calls(r) if ('IntoIterator for &' in (e.callee or '') or (e.callee or '').endswith('<impl [T]>::iter')) and e.args and e.args[0] == ('param', 2)]
            nxs = [e for e in own_calls(r) if (e.callee or '').endswith('Iterator>::next') and 'slice::iter::Iter<' in (e.callee or '')]
            pu = own_calls(r, "Vec::<'bump, T>::push")
            rsv = own_calls(r, "Vec::<'bump, T>::reserve")
            okv = len(its) == 1 and len(nxs) == 1 and len(pu) == 1 and pu[0].args[0] == SELF and pu[0].args[1][0] == 'call' and pu[0].args[1][1].endswith('Clone::clone') \
                and pu[0].args[1][2] == (('app', 'vproj', nxs[0].ret, 'Some', '0'),) and arena.foreach_loop(I, r, b, nxs[0], pu[0]) \
                and all(e.args[0] == SELF and e.args[1] == app('len', ('param', 2)) and r.events.index(e) < r.events.index(nxs[0]) for e in rsv) and len(rsv) <= 1
        C.check('Vec::extend_from_slice', 'extend(other.iter().cloned())', okv, '', b.get('span'))
    bs = [b for b in db.fn_bodies() if b['kind'] == 'assoc_fn' and (b['meta'].get('impl_adt') or '').endswith('vec::Vec') and b['meta'].get('name') == 'extend_from_slices_copy']
    for b in bs:
        I, r = arena.run_fn(ctx, b['id'], config)
        tf = own_calls(r, trait='Iterator::try_fold')
        rs = own_calls(r, "Vec::<'bump, T>::reserve")
        fe = [e for e in own_calls(r) if (e.extra.get('trait_path') or e.callee or '').endswith('for_each')]
        okv = len(tf) == 1 and tf[0].args[1] == ('c', 0) and len(rs) == 1 and rs[0].args[0] == SELF and tf[0].ret in subterms(rs[0].args[1]) and len(fe) == 1 and r.events.index(rs[0]) < r.events.index(fe[0])
        cls = sorted([x for x in db.fn_bodies() if x['kind'] == 'closure' and x['id'].startswith(b['id'] + '::{closure')], key=lambda x: x['id'])
        okc = False
        if len(cls) == 2:
            I0, r0 = arena.run_fn(ctx, cls[0]['id'], config)
            I1, r1 = arena.run_fn(ctx, cls[1]['id'], config)
            ca = [e for e in r0.events if e.kind == 'call' and (e.callee or '').endswith('checked_add')]
            un = [e for e in r1.events if e.kind == 'call' and (e.callee or '').endswith('::extend_from_slice_copy_unchecked')]
            okc = len(ca) == 1 and ca[0].args[0] == ('param', 2) and ca[0].args[1][0] == 'app' and ca[0].args[1][1] == 'len' and r0.ret == ('app', 'checked_add', ca[0].args[0], ca[0].args[1]) and len(un) == 1 and 'upvar0' in show(un[0].args[0])
        if not (okv and okc) and not tf and len(rs) == 1 and rs[0].args[0] == SELF:
            # the same written with two `for` loops: an Option accumulator (Some(0), then checked_add of each slice length),
            # `.expect(..)` of it reserved once, then one extend_from_slice_copy_unchecked per slice of the same source
            acc_ok = False
            for (bid, h), rec in r.loops.items():
                if bid != b['id']:
                    continue
                for l, symv in rec['sym'].items():
                    init = rec['init'].get(l)
                    if init is None or not (init[0] == 'agg' and init[2] == 'Some' and field_of(init, '0') == ('c', 0)) or not rec['step']:
                        continue
                    stepok = True
                    for sv in rec['step']:
                        v = sv['env'].get(l)
                        okstep = v is not None and v[0] == 'app' and v[1] == 'checked_add' and v[2] == ('app', 'vproj', symv, 'Some', '0') and v[3][0] == 'app' and v[3][1] == 'len' \
                            and any(isinstance(x, tuple) and x and x[0] == 'call' and x[1].endswith('Iterator>::next') for x in subterms(v[3]))
                        stepok = stepok and (okstep or v == symv)
                    if stepok and symv in subterms(rs[0].args[1]) and any(e.kind == 'call' and (e.callee or '').split('::')[-1] in ('expect', 'unwrap') and e.args and e.args[0] == symv for e in own_calls(r)):
                        acc_ok = True
            its = [e for e in own_calls(r) if 'IntoIterator for &' in (e.callee or '') and e.args and e.args[0] == ('param', 2)]
            un = [e for e in own_calls(r) if (e.callee or '').endswith('::extend_from_slice_copy_unchecked')]
            nxs = [e for e in own_calls(r) if (e.callee or '').endswith('Iterator>::next') and 'slice::iter::Iter<' in (e.callee or '')]
            app_ok = len(un) == 1 and un[0].args[0] == SELF and len(its) == 2 and any(nx.ret in subterms(un[0].args[1]) and arena.foreach_loop(I, r, b, nx, un[0]) for nx in nxs) \
                and r.events.index(rs[0]) < r.events.index(un[0])
            okv, okc = acc_ok, app_ok
        C.check('Vec::extend_from_slices_copy', 'reserve(checked sum of the slice lengths) once, then each slice appended without further checks, in order', okv and okc, '', b.get('span'))
    # ---- from_iter_in
    bs = [b for b in db.fn_bodies() if b['kind'] == 'assoc_fn' and (b['meta'].get('impl_adt') or '').endswith('vec::Vec') and b['meta'].get('name') == 'from_iter_in' and not b['meta'].get('impl_trait')]
    for b in bs:
        I, r = arena.run_fn(ctx, b['id'], config)
        nw = own_calls(r, '::new_in')
        ex = own_calls(r, trait='Extend::extend')
        okv = len(nw) == 1 and nw[0].args == [('param', 2)] and len(ex) == 1 and ex[0].args[1] == ('param', 1) and ex[0].args[0][0] == 'addr' and ex[0].args[0][1][0] == 'local'
        C.check('Vec::from_iter_in', 'new_in(bump) extended with the whole iterator, then returned', okv, '', b.get('span'))
    # ---- io::Write for Vec<u8>
    for name, retok in (('write', lambda t: t[0] == 'agg' and t[2] == 'Ok' and field_of(t, '0') == app('len', ('param', 2))), ('write_all', lambda t: t[0] == 'agg' and t[2] == 'Ok' and field_of(t, '0') == UNIT)):
        for b in impls(db, 'vec::Vec', 'io::Write', name):
            I, r = arena.run_fn(ctx, b['id'], config)
            ex = own_calls(r, '::extend_from_slice_copy')
            okv = len(ex) == 1 and ex[0].args == [SELF, ('param', 2)] and r.ret is not None and retok(r.ret)
            C.check('Vec::' + name, 'appends exactly buf and reports %s' % ('buf.len() bytes written' if name == 'write' else 'success'), okv, show(r.ret)[:60] if r.ret is not None else '', b.get('span'))
    # ---- serde
    for b in impls(db, 'vec::Vec', 'Serialize', 'serialize'):
        I, r = arena.run_fn(ctx, b['id'], config)
        sq = own_calls(r, trait='Serializer::serialize_seq')
        el = own_calls(r, trait='SerializeSeq::serialize_element')
        en = own_calls(r, trait='SerializeSeq::end')
        itc = own_calls(r, '::iter')
        lenl = ('load', ('fld', ('deref', SELF), 'collections::vec::Vec.len'), 0)
        okv = len(sq) == 1 and sq[0].args[0] == ('param', 2) and sq[0].args[1] == some(lenl) and len(el) == 1 and any(item_of_next(x) for x in subterms(el[0].args[1])) and len(en) == 1 \
            and len(itc) == 1 and full_view(itc[0].args[0], 1)
        C.check('Vec::serialize', 'serialize_seq(Some(len)), one serialize_element per element of the whole contents, end()', okv, '', b.get('span'))
    # ---- collect_in / FromIteratorIn
    for adt, label in (('vec::Vec', 'Vec'), ('boxed::Box', 'Box<[T]>'), ('string::String', 'String')):
        for b in impls(db, adt, 'collect_in::FromIteratorIn', 'from_iter_in'):
            I, r = arena.run_fn(ctx, b['id'], config)
            fw = [e for e in own_calls(r) if (e.callee or '').endswith('::from_iter_in')]
            okv = len(fw) == 1 and fw[0].args == [('param', 1), ('param', 2)] and (r.ret == fw[0].ret or adt != 'vec::Vec')
            if not okv and not [e for e in fw if adt.split('::')[-1] + '::' in (e.callee or '') or adt in (e.callee or '')]:
                # the inherent constructor's body written out in the impl: an empty collection in `alloc`, fed with the whole
                # iterator (extend, or one push per item), returned
                nw = [e for e in own_calls(r) if (e.callee or '').endswith('::new_in') and e.args == [('param', 2)]]
                ex = own_calls(r, trait='Extend::extend')
                if adt == 'vec::Vec':
                    okv = len(nw) == 1 and len(ex) == 1 and ex[0].args[1] == ('param', 1) and ex[0].args[0][0] == 'addr' and ex[0].args[0][1][0] == 'local'
                elif adt == 'string::String':
                    pu = [e for e in own_calls(r) if (e.callee or '').endswith("String::<'bump>::push")]
                    nx = [e for e in own_calls(r) if (e.extra.get('trait_path') or e.callee or '').endswith('Iterator::next')]
                    it = [e for e in own_calls(r) if (e.extra.get('trait_path') or e.callee or '').endswith('IntoIterator::into_iter') and e.args == [('param', 1)]]
                    okv = len(nw) == 1 and ((len(ex) == 1 and ex[0].args[1] == ('param', 1)) or
                                            (len(pu) == 1 and len(nx) == 1 and len(it) == 1 and pu[0].args[1] == ('app', 'vproj', nx[0].ret, 'Some', '0') and arena.foreach_loop(I, r, b, nx[0], pu[0])))
                else:
                    vb = [e for e in own_calls(r) if (e.callee or '').endswith("Vec::<'bump, T>::from_iter_in") and e.args == [('param', 1), ('param', 2)]]
                    ib = [e for e in own_calls(r) if (e.callee or '').endswith('::into_boxed_slice')]
                    okv = len(vb) == 1 and len(ib) == 1 and ib[0].args[0] == vb[0].ret and r.ret == ib[0].ret
            C.check('FromIteratorIn for ' + label, 'forwards (iter, alloc) in order to the inherent from_iter_in and returns its result', okv, '', b.get('span'))
    ci = [b for b in db.fn_bodies() if b['id'].endswith('collect_in::CollectIn::collect_in')]
    for b in ci:
        I, r = arena.run_fn(ctx, b['id'], config)
        fw = own_calls(r, trait='FromIteratorIn::from_iter_in')
        C.check('CollectIn::collect_in', 'C::from_iter_in(self, alloc), result returned', len(fw) == 1 and fw[0].args == [('param', 1), ('param', 2)] and r.ret == fw[0].ret, '', b.get('span'))
    rb = [b for b in db.fn_bodies() if b['kind'] == 'assoc_fn' and b['meta'].get('name') == 'from_iter_in' and b['id'].replace('core::', 'std::').endswith('FromIteratorIn<std::result::Result<T, E>>>::from_iter_in')]
    for b in rb:
        I, r = arena.run_fn(ctx, b['id'], config)
        cc = own_calls(r, trait='CollectIn::collect_in') + [e for e in own_calls(r, trait='FromIteratorIn::from_iter_in') if e.callee != b['id']]
        alts = [t for t, _ in arena.alternatives(I, r.ret, set())] if r.ret is not None else []
        okv = len(cc) == 1 and cc[0].args[1] == ('param', 2) and any(t[0] == 'agg' and t[2] == 'Ok' and field_of(t, '0') == cc[0].ret for t in alts) and any(t[0] == 'agg' and t[2] == 'Err' for t in alts) and len(alts) == 2
        C.check('FromIteratorIn for Result', 'Ok(container collected from the Ok items) unless an Err item was seen, then that Err', okv, '', b.get('span'))
        cl = [x for x in db.fn_bodies() if x['kind'] == 'closure' and x['id'].startswith(b['id'])]
        if not cl:
            # the adapter written as a function-local struct with its own Iterator::next instead of a from_fn closure
            cl = [x for x in db.fn_bodies() if x['kind'] == 'assoc_fn' and x['meta'].get('name') == 'next' and (b['id'] + '::') in x['id']]
        if not cl:
            # the adapter was moved into a private helper of this impl (called from here, from nowhere else)
            for e in own_calls(r):
                hb = db.by_path.get(e.callee) or db.bodies.get(e.callee)
                if hb is not None and hb['kind'] == 'fn' and (hb.get('span') or '').split(':')[0] == (b.get('span') or '').split(':')[0] and I.exclusive_helper(hb['id'], b['id']):
                    cl = [x for x in db.fn_bodies() if x['kind'] == 'closure' and x['id'].startswith(hb['id'] + '::{closure')]
                    if cl:
                        break
        okc = False
        if cl:
            I2, r2 = arena.run_fn(ctx, cl[0]['id'], config)
            calts = [t for t, _ in arena.alternatives(I2, r2.ret, set())] if r2.ret is not None else []
            somes = [t for t in calts if t[0] == 'agg' and t[2] == 'Some']
            nones = [t for t in calts if t[0] == 'agg' and t[2] == 'None']
            st = [e for e in r2.events if e.kind == 'store' and e.val[0] == 'agg' and e.val[2] in ('Some', 'Err')]      # the slot is an Option<E> or a Result<(), E>
            def variant_payload(t, variant):
                # (item as <variant>).0 of an item that came out of Iterator::next
                return isinstance(t, tuple) and t[:2] == ('app', 'vproj') and t[3] == variant and any(isinstance(x, tuple) and x and x[0] == 'call' and x[1].endswith('Iterator::next') for x in subterms(t[2]))
            okc = len(somes) == 1 and ('as Ok' in show(somes[0]) or variant_payload(field_of(somes[0], '0'), 'Ok')) and len(nones) >= 2 and len(st) == 1 \
                and ('as Err' in show(st[0].val) or variant_payload(field_of(st[0].val, '0'), 'Err')) and ('upvar' in show_lv(st[0].lv) or 'upvar' in repr(st[0].lv) or (st[0].lv[0] == 'deref' and st[0].lv[1][0] == 'load' and ('param', 1) in subterms(st[0].lv[1])))
        C.check('FromIteratorIn for Result', 'the adapter yields the Ok payloads, records the first Err and stops there', okc)
    ob = [b for b in db.fn_bodies() if b['kind'] == 'assoc_fn' and b['meta'].get('name') == 'from_iter_in' and b['id'].replace('core::', 'std::').endswith('FromIteratorIn<std::option::Option<T>>>::from_iter_in')]
    for b in ob:
        I, r = arena.run_fn(ctx, b['id'], config)
        cc = own_calls(r, trait='CollectIn::collect_in') + [e for e in own_calls(r, trait='FromIteratorIn::from_iter_in') if e.callee != b['id']]
        okc = own_calls(r, 'Result::<T, E>::ok')
        okv = len(cc) == 1 and cc[0].args[1] == ('param', 2) and len(okc) == 1 and okc[0].args[0] == cc[0].ret and r.ret == okc[0].ret
        if not okv and len(cc) == 1 and cc[0].args[1] == ('param', 2) and not okc and r.ret is not None:
            # the same conversion spelled as a match: Ok(container) => Some(container), Err(()) => None
            oks = [field_of(t, '0') for t, _ in arena.alternatives(I, cc[0].ret, set()) if t[0] == 'agg' and t[2] == 'Ok']
            ra = [t for t, _ in arena.alternatives(I, r.ret, set())]
            okv = bool(oks) and all(t[0] == 'agg' and (t[2] == 'None' or (t[2] == 'Some' and field_of(t, '0') in oks)) for t in ra) and {t[2] for t in ra} == {'None', 'Some'} \
                and 'Result<' in (cc[0].callee or '')
        if not okv and len(cc) == 1 and cc[0].args[1] == ('param', 2) and not okc and r.ret is not None and 'Result<' not in (cc[0].callee or '') + repr(cc[0].extra.get('callee') or ''):
            # implemented directly, with the skeleton of the Result impl: an adapter that passes the items through, raises a flag at
            # the first None (which also ends the inner iteration), and the result is None exactly when the flag was raised
            cl = [x for x in db.fn_bodies() if x['kind'] == 'closure' and x['id'].startswith(b['id'])]
            ra = [(t, fs) for t, fs in arena.alternatives(I, r.ret, set(r.ret_state.facts) if r.ret_state else set())]
            shape = {t[2] for t, _ in ra if t[0] == 'agg'} == {'None', 'Some'} and all(t[2] == 'None' or field_of(t, '0') == cc[0].ret for t, _ in ra if t[0] == 'agg')
            adapter = False
            if len(cl) == 1:
                I2, r2 = arena.run_fn(ctx, cl[0]['id'], config)
                nx = [e for e in r2.events if e.kind == 'call' and (e.extra.get('trait_path') or e.callee or '').endswith('Iterator::next')]
                st = [e for e in r2.events if e.kind == 'store' and e.val == ('c', 1)]
                # the adapter returns exactly what the inner iterator yielded (item itself: Some(x) -> Some(x), None -> None), or None at its end
                alts2 = [t for t, _ in arena.alternatives(I2, r2.ret, set())] if r2.ret is not None else []
                passes = len(nx) == 1 and all(t == NONE or t == ('app', 'payload', nx[0].ret) or t == ('app', 'vproj', nx[0].ret, 'Some', '0') for t in alts2) and any(t != NONE for t in alts2)
                flagged = len(st) == 1 and any(f[0] in ('true', 'is') and ('is_none' in repr(f) or f[-1] == 'None') for f in st[0].state.facts)
                adapter = passes and flagged
            okv = shape and adapter
        C.check('FromIteratorIn for Option', 'collects ok_or(()) items as a Result and returns .ok() of it', okv, '', b.get('span'))
    ctx.floor(rule, C.n, 17, 'composition clauses for Vec trait impls and collect_in')


def check_string(ctx, config, rule):
    db = ctx.db(config)
    C = Clauses(ctx, rule)
    for b in impls(db, 'string::String', 'clone::Clone', 'clone'):
        I, r = arena.run_fn(ctx, b['id'], config)
        cl = own_calls(r, trait='Clone::clone')
        okv = len(cl) == 1 and cl[0].args[0] == ('addr', ('fld', ('deref', SELF), "collections::string::String.vec")) and r.ret is not None and r.ret[0] == 'agg' and field_of(r.ret, 'vec') == cl[0].ret
        C.check('String::clone', 'String { vec: self.vec.clone() }', okv, '', b.get('span'))
    for idp, sink, what in (('Extend<char>>', "String::<'bump>::push", 'push'), ("Extend<&'a str>>", "String::<'bump>::push_str", 'push_str'), ("Extend<collections::string::String<'bump>>>", "String::<'bump>::push_str", 'push_str'),
                            ('Extend<std::string::String>>', "String::<'bump>::push_str", 'push_str'), ('Extend<alloc::string::String>>', "String::<'bump>::push_str", 'push_str'), ("Cow<'a, str>>>", "String::<'bump>::push_str", 'push_str')):
        for b in impls(db, 'string::String', 'collect::Extend', 'extend', idp):
            extend_loop(C, ctx, config, b, 'String::extend(%s)' % idp.split('<', 1)[1].rstrip('>'), sink, what)
    for b in impls(db, 'string::String', 'clone::Clone', 'clone_from'):
        I, r = arena.run_fn(ctx, b['id'], config)
        vecof = lambda p: ('addr', ('fld', ('deref', p), "collections::string::String.vec"))
        cf = own_calls(r, trait='Clone::clone_from')
        cl = own_calls(r, trait='Clone::clone')
        st = [e for e in r.events if e.is_own() and e.kind == 'store' and e.lv in (('deref', SELF), ('fld', ('deref', SELF), "collections::string::String.vec"))]
        okv = (len(cf) == 1 and cf[0].args == [vecof(SELF), vecof(('param', 2))]) or \
              (len(cl) == 1 and cl[0].args[0] in (('param', 2), vecof(('param', 2))) and len(st) == 1 and cl[0].ret in subterms(st[0].val) or (len(cl) == 1 and len(st) == 1 and st[0].val == cl[0].ret))
        C.check('String::clone_from', 'self takes the contents of source (self.vec.clone_from(&source.vec) or *self = source.clone())', okv, '', b.get('span'))
    for b in impls(db, 'string::String', 'collect::Extend', 'extend', "Extend<&'a char>>"):
        I, r = arena.run_fn(ctx, b['id'], config)
        ex = own_calls(r, trait='Extend::extend')
        okv = len(ex) == 1 and ex[0].args[0] == SELF and ex[0].args[1][0] == 'call' and ex[0].args[1][1].endswith('::cloned') and ex[0].args[1][2][0][0] == 'call' and ex[0].args[1][2][0][2] == (('param', 2),)
        if not okv and not ex:
            # the loop written out: every item of the caller's iterator is pushed (dereferenced) on self
            pu = own_calls(r, "String::<'bump>::push")
            nx = [e for e in own_calls(r) if (e.extra.get('trait_path') or e.callee or '').endswith('Iterator::next')]
            okv = len(pu) == 1 and pu[0].args[0] == SELF and len(nx) == 1 and any(item_of_next(x) for x in subterms(pu[0].args[1])) \
                and any(bid == pu[0].fn and pu[0].block in I.cfg(I.bodies[bid]).loops().get(h, ()) for (bid, h) in r.loops if bid in I.bodies)
        C.check('String::extend(&char)', 'forwards to extend(iter.into_iter().cloned())', okv, '', b.get('span'))
    for name, sink in (('write_str', '::push_str'), ('write_char', "String::<'bump>::push")):
        for b in impls(db, 'string::String', 'fmt::Write', name):
            I, r = arena.run_fn(ctx, b['id'], config)
            ps = own_calls(r, sink)
            okv = len(ps) == 1 and ps[0].args == [SELF, ('param', 2)] and r.ret is not None and r.ret[0] == 'agg' and r.ret[2] == 'Ok'
            C.check('String::' + name, 'appends exactly the argument and returns Ok', okv, '', b.get('span'))
    for b in impls(db, 'string::String', 'ops::arith::Add', 'add'):
        I, r = arena.run_fn(ctx, b['id'], config)
        ps = own_calls(r, '::push_str')
        C.check('String::add', 'self.push_str(other); self', len(ps) == 1 and ps[0].args[1] == ('param', 2) and r.ret == SELF, '', b.get('span'))
    for b in impls(db, 'string::String', 'ops::arith::AddAssign', 'add_assign'):
        I, r = arena.run_fn(ctx, b['id'], config)
        ps = own_calls(r, '::push_str')
        C.check('String::add_assign', 'self.push_str(other)', len(ps) == 1 and ps[0].args == [SELF, ('param', 2)], '', b.get('span'))
    for b in impls(db, 'string::String', 'Serialize', 'serialize'):
        I, r = arena.run_fn(ctx, b['id'], config)
        ss = own_calls(r, trait='Serializer::serialize_str')
        okv = len(ss) == 1 and ss[0].args[0] == ('param', 2) and full_view(ss[0].args[1], 1) and r.ret == ss[0].ret
        C.check('String::serialize', 'serialize_str(whole text), result returned', okv, '', b.get('span'))
    bs = [b for b in db.fn_bodies() if b['kind'] == 'assoc_fn' and (b['meta'].get('impl_adt') or '').endswith('string::String') and b['meta'].get('name') == 'from_iter_in' and not b['meta'].get('impl_trait')]
    for b in bs:
        I, r = arena.run_fn(ctx, b['id'], config)
        nw = own_calls(r, '::new_in')
        it = own_calls(r, trait='IntoIterator::into_iter')
        pu = own_calls(r, "String::<'bump>::push")
        okv = len(nw) == 1 and nw[0].args == [('param', 2)] and bool(it) and it[0].args[0] == ('param', 1) and len(pu) == 1 and any(item_of_next(x) for x in subterms(pu[0].args[1])) and pu[0].args[0][0] == 'addr'
        C.check('String::from_iter_in', 'new_in(bump), every char of the iterator pushed, then returned', okv, '', b.get('span'))
    ctx.floor(rule, C.n, 12, 'composition clauses for String trait impls')
