"""C11 — a failed initialiser hands back its error and leaves no residue."""
from .. import arena, prover
from ..terms import *
from ..facts import loc
from . import c01

EXPLANATION = ("TermFlow on alloc_try_with / try_alloc_try_with / try_alloc_with / alloc_slice_try_fill_with (and _iter) with callees inlined and the user callback as an opaque, "
               "memory-havocking call: (R1) the callback call site is only reached under the success fact of the reservation (or the reservation is the infallible one whose failure "
               "diverges); (R2) exactly one ptr::read of the error slot exists in the Err arm, its value is what the Err return carries; (R3/R4) the two finger stores of the Err arm are "
               "of class SAVED (same chunk: the finger loaded before the reservation, under cur == saved footer) and EMPTY (fresh chunk: the footer address, under cur != saved "
               "footer), both gated by is_last_allocation(result) and re-establishing the chunk invariant; (R5) the slice variant releases exactly the pointer and layout it reserved "
               "and returns the callback's error."
               ' (R5 also) the release raises the finger to at least ptr + size(layout): the whole failed reservation is reusable.')
RULE = "rule instance = (rule, entry, site); distinct by (rule, entry, site)"


def reservation_before(I, res, uc):
    """last call before the user callback whose callee returns NonNull<u8> / Result<NonNull<u8>,_> and encloses or precedes it"""
    best = None
    idx = res.events.index(uc)
    for e in res.events[:idx]:
        if e.kind != 'call' or not e.callee:
            continue
        b = I.bodies.get(e.callee) or I.db.by_path.get(e.callee)
        if b is None:
            continue
        out = (b['meta'].get('output') or '')
        if 'NonNull<u8>' in out and e.stack == uc.stack[:len(e.stack)]:
            best = (e, out)
    return best


def reserved_on_every_alternative(I, res, uc):
    """The slot the initialiser's result is written to is, on every alternative, the success payload of a reservation call
    made before the initialiser ran, and that alternative carries the call's Some / Ok fact (or the call cannot fail):
    `fast(l).or_else(|| slow(l)).unwrap_or_else(oom)`, `if let Some(p) = fast(l) { p } else { slow(l).ok_or(E)? }`."""
    idx = res.events.index(uc)
    resv = []
    for e in res.events[:idx]:
        if e.kind == 'call' and e.callee and e.ret is not None:
            b = I.bodies.get(e.callee) or I.db.by_path.get(e.callee)
            out = ((b or {}).get('meta', {}).get('output') or '')
            if 'NonNull<u8>' in out:
                resv.append((e, out))
    ws = [e for e in res.events[idx:] if e.kind == 'call' and e.callee == 'core::ptr::write' and (e.args[1] == uc.ret or (uc.ret is None and e.args[1][0] == 'call' and e.args[1][1] == '<callable>'))]
    if len(ws) != 1 or not resv:
        return None
    D = ws[0].args[0]
    # success alternatives of every reservation: (pointer, the facts under which the call returns it)
    succ = []
    for e, out in resv:
        if out.startswith('std::ptr::NonNull') or out.startswith('core::ptr::NonNull'):
            succ.extend((x, frozenset(fx), e) for x, fx in arena.alternatives(I, e.ret, set()))
            continue
        for t2, f2 in arena.alternatives(I, e.ret, set()):
            if t2[0] == 'agg' and t2[1] in ('Option', 'Result') and t2[2] in ('Some', 'Ok'):
                succ.extend((x, frozenset(fx), e) for x, fx in arena.alternatives(I, field_of(t2, '0'), f2))
    used = set()
    for x, fs in arena.alternatives(I, D, set(uc.state.facts)):
        hit = None
        for y, fy, e in succ:
            # the same pointer, reached under (at least) the facts of that success path of the reservation
            if y == x and fy <= fs:
                hit = e
                break
        if hit is None:
            return None
        used.add(arena.short(hit.callee))
    return sorted(used)


def run(ctx, config='rel-all'):
    A = arena.analyse(ctx, config)
    db = ctx.db(config)
    ctx.assume("the user callback is modelled as an opaque call that may allocate in the same arena (memory havoc)", "J/U as in C01")
    # ---- R1 callback only after successful reservation
    n1 = 0
    for key in ('alloc_try_with', 'try_alloc_try_with', 'alloc_slice_try_fill_with'):
        val = A.get(key)
        if val is None:
            ctx.anchor_missing('R0', 'Bump::' + key)
            continue
        I, res, body = val
        ucs = [e for e in res.events if e.kind == 'usercall']
        if not ucs:
            ctx.violation('R1', arena.short(body['id']), 'no-callback', 'the initialiser is never called in ' + key)
        for uc in ucs:
            n1 += 1
            rb = reservation_before(I, res, uc)
            fn = arena.short(uc.stack[-1][0])
            if rb is None:
                ctx.violation('R1', fn, 'callback:no-reservation', 'the initialiser runs before any space was reserved [%s]' % ' > '.join(arena.short(s[0]) for s in uc.stack))
                continue
            e, out = rb
            # R6 the space reserved is the space the initialiser fills: the layout is a type / value layout or the Ok payload of a
            # validating constructor (Layout::array), never hand-made unchecked arithmetic -- a wrapped size would make an
            # impossible request look reservable and the initialiser would run (C19.R2's origin rule on this call)
            from . import c19
            if len(e.args) > 1:
                kind = c19.layout_origin(I, e.args[1], e.state.facts)
                if kind:
                    ctx.ok('R6', '%s via %s: the reservation is made with %s' % (fn, key, kind), show(e.args[1])[:60])
                else:
                    ctx.violation('R6', fn, 'reservation-layout', 'the space reserved before the initialiser runs is described by %s, which is neither a type/value layout nor the Ok payload of a validating constructor: an impossible size would wrap instead of being refused before the initialiser runs' % show(e.args[1])[:100], e.span)
            if out.startswith('std::ptr::NonNull') or out.startswith('core::ptr::NonNull'):
                ctx.ok('R1', '%s via %s: callback after infallible reservation %s' % (fn, key, arena.short(e.callee)), 'failure of the reservation diverges (oom)')
                continue
            R = e.ret
            good = any(f[0] == 'is' and f[2] in ('Continue', 'Ok') and (R == f[1] or R in subterms(f[1])) for f in uc.state.facts)
            alt = None if good else reserved_on_every_alternative(I, res, uc)
            if good:
                ctx.ok('R1', '%s via %s: callback dominated by the Ok edge of %s' % (fn, key, arena.short(e.callee)), 'must-fact is(reservation, Ok)')
            elif alt:
                ctx.ok('R1', '%s via %s: the slot the callback fills is on every alternative the success payload of %s' % (fn, key, ' / '.join(alt)), 'per-alternative fact is(reservation, Some|Ok)')
            else:
                ctx.violation('R1', fn, 'callback:unguarded', 'the initialiser may run although %s failed to reserve space' % arena.short(e.callee), uc.span)
    ctx.floor('R1', n1, 3, 'initialiser call sites')
    # ---- R7 (requirement side, every initialising method): in each public `alloc*` / `try_alloc*` method of Bump no user-supplied
    # initialiser code - the closure, the caller's iterator (`next`), `Clone::clone`, `Default::default` - runs before the space was
    # reserved.  (`IntoIterator::into_iter` and `ExactSizeIterator::len` determine *how much* to reserve and necessarily come first.)
    INIT_CALLS = ('core::iter::traits::iterator::Iterator::next', 'core::iter::traits::double_ended::DoubleEndedIterator::next_back',
                  'core::ops::function::FnMut::call_mut', 'core::ops::function::FnOnce::call_once', 'core::ops::function::Fn::call',
                  'core::clone::Clone::clone', 'core::default::Default::default')
    n7 = 0
    for b in db.fn_bodies():
        m = b['meta']
        if b['kind'] != 'assoc_fn' or m.get('impl_adt') != 'Bump' or m.get('impl_trait') or not m.get('pub'):
            continue
        nm = m.get('name') or ''
        if not (nm.startswith('alloc') or nm.startswith('try_alloc')) or nm in ('alloc_layout', 'try_alloc_layout', 'allocated_bytes', 'allocated_bytes_including_metadata', 'allocation_limit'):
            continue
        if not any(g.startswith('ty:') for g in (m.get('generics') or [])):
            continue
        J, r = arena.run_fn(ctx, b['id'], config)
        res_idx = [i for i, e in enumerate(r.events) if e.kind == 'call' and (e.callee or '').split('::')[-1] in ('try_alloc_layout', 'alloc_layout', 'try_alloc_layout_fast') and 'Bump' in (e.callee or '')]
        inits = [(i, e) for i, e in enumerate(r.events) if e.kind == 'usercall' or (e.kind == 'call' and (e.extra.get('raw_callee') or e.callee) in INIT_CALLS and (e.callee in INIT_CALLS))]
        if not inits:
            continue
        n7 += 1
        first = min(res_idx) if res_idx else None
        early = [e for i, e in inits if first is None or i < first]
        if early:
            e = early[0]
            ctx.violation('R7', 'Bump::' + nm, 'initialiser-before-reservation:%s' % (e.callee or 'callback').split('::')[-1], 'Bump::%s runs user-supplied initialiser code (%s) before it has reserved the space: if the reservation then fails an item has been consumed / a side effect has happened for nothing' % (nm, e.callee or 'the callback'), e.span)
        else:
            ctx.ok('R7', 'Bump::%s: every initialiser call follows the reservation' % nm, '%d initialiser call sites after event #%s' % (len(inits), first))
    ctx.floor('R7', n7, 12, 'initialising methods of Bump')
    # ---- R2..R4 for the two single-value entries
    for key in ('alloc_try_with', 'try_alloc_try_with'):
        val = A.get(key)
        if val is None:
            continue
        I, res, body = val
        fn = arena.short(body['id'])
        own = [e for e in res.events if e.is_own()]      # own frame, or a closure / private helper exclusive to this function
        reads = [e for e in own if e.kind == 'call' and e.callee == 'core::ptr::read']
        if len(reads) == 1:
            src = reads[0].args[0]
            def err_slot(x):
                return isinstance(x, tuple) and len(x) > 1 and x[0] == 'addr' and isinstance(x[1], tuple) and x[1][0] == 'fld' and x[1][1][0] == 'variant' and x[1][1][2] == 'Err'
            in_err = err_slot(src)
            if not in_err and isinstance(src, tuple) and src[0] == 'app' and 'err' in str(src[1]):
                # the Err payload of a merged `as_mut().map(..).map_err(..)` value: the reference inside its Err alternative
                in_err = any(err_slot(x) for x in subterms(src))
            carried = any(reads[0].ret is not None and reads[0].ret in subterms(t) for t, _ in arena.alternatives(I, res.ret, set()) if t[0] == 'agg' and t[2] == 'Err')
            if in_err and carried:
                ctx.ok('R2', '%s: the error is moved out of the slot exactly once and returned in Err' % fn, 'single ptr::read of (slot as Err).0; its value occurs in the Err return alternative')
            else:
                ctx.violation('R2', fn, 'error-move', 'the single ptr::read in the Err arm reads %s and its value %s the returned Err' % (show(src)[:80], 'is in' if carried else 'is NOT in'), reads[0].span)
        else:
            ctx.violation('R2', fn, 'error-move-count', 'expected exactly one ptr::read of the error slot in %s, found %d (0 = error dropped in the arena, 2 = duplicated)' % (key, len(reads)), body.get('span'))
        stores = [e for e in own if e.kind == 'store' and arena.footer_field(e) and arena.footer_field(e)[1] == 'ptr']
        # the Err arm may live in a helper (shared by the two entry points): every finger store that happens after the
        # initialiser ran belongs to it, whatever frame it sits in
        ucs_ = [e for e in res.events if e.kind == 'usercall']
        if ucs_:
            after = res.events[res.events.index(ucs_[-1]):]
            stores = stores + [e for e in after if e not in stores and e.kind == 'store' and arena.footer_field(e) and arena.footer_field(e)[1] == 'ptr']
        ords = c01.ordinal_keys([e for e in res.events if e.kind == 'store'])
        classes = []
        for e in stores:
            o = ords.get((arena.short(arena.innermost(e)), e.block, e.span), 0)
            cls = arena.classify_finger_store(I, res, e)
            classes.append(cls)
            c01.check_finger_store(ctx, key, I, res, e, fn, o, '%s [%s]' % (loc(e.span), arena.stack_str(e)), set(), rules={'R1': 'R3', 'O2': 'R3', 'R3': 'R4'})
        if sorted(classes) == ['EMPTY', 'SAVED']:
            ctx.ok('R3', '%s: Err arm rewinds with one SAVED store (same chunk) and one EMPTY store (fresh chunk)' % fn, 'store classification')
        else:
            ctx.violation('R3', fn, 'rewind-classes:' + '/'.join(sorted(classes)), 'the Err arm of %s must rewind to the saved finger (same chunk) or to the footer address (fresh chunk); found classes %s' % (key, classes), body.get('span'))
        # the saved finger must have been loaded before the reservation
        for e in stores:
            if arena.classify_finger_store(I, res, e) == 'SAVED':
                ucs = [u for u in res.events if u.kind == 'usercall']
                first_store = [s for s in res.events if s.kind == 'store' and arena.footer_field(s)]
                ep = e.val[2] if e.val[0] == 'load' else None
                if ep == 0:
                    ctx.ok('R3', '%s: saved finger was read at entry (memory epoch 0), before the reservation' % fn, show(e.val)[:80])
                else:
                    ctx.violation('R3', fn, 'saved-finger-late', 'the finger used for the rewind was loaded after the reservation (epoch %s)' % ep, e.span)
    # ---- R5 slices
    val = A.get('alloc_slice_try_fill_with')
    if val:
        I, res, body = val
        fn = arena.short(body['id'])
        own = [e for e in res.events if len(e.stack) == 1]
        resv = [e for e in own if e.kind == 'call' and e.callee and 'NonNull<u8>' in ((I.db.by_path.get(e.callee) or {}).get('meta', {}).get('output') or '')]
        rel = [e for e in own if e.kind == 'call' and e.callee and is_unsafe_release(I, e.callee)]
        if len(resv) >= 1 and len(rel) == 1:
            r0 = resv[0]
            okp = rel[0].args[1] == r0.ret
            okl = rel[0].args[2] == r0.args[1]
            if okp and okl:
                ctx.ok('R5', '%s: on a callback error dealloc(base_ptr, layout) gets exactly the reserved pointer and layout' % fn, 'term identity with the reservation call')
            else:
                ctx.violation('R5', fn, 'release-args', 'the failed slice fill releases (%s, %s) but reserved (%s, %s)' % (show(rel[0].args[1])[:60], show(rel[0].args[2])[:60], show(r0.ret)[:60], show(r0.args[1])[:60]), rel[0].span)
            uc = [e for e in res.events if e.kind == 'usercall']
            ucret = None
            for e in res.events:
                if e.kind == 'call' and e.extra.get('callee', {}).get('path', '').endswith('FnMut::call_mut') and e.ret is not None:
                    ucret = e.ret
            errs = [t for t, _ in arena.alternatives(I, res.ret, set()) if t[0] == 'agg' and t[2] == 'Err']
            if ucret is not None and errs and all(ucret in subterms(t) for t in errs):
                ctx.ok('R5', '%s: the Err it returns is the callback\'s error' % fn, 'term containment')
            else:
                ctx.violation('R5', fn, 'error-origin', 'the Err returned by the slice fill is not the callback\'s error value', body.get('span'))
            # the release must precede the return and follow the callback's Err edge: its facts mention the callback result as Err
            guard = any(f[0] == 'is' and f[2] == 'Err' for f in rel[0].state.facts)
            if guard:
                ctx.ok('R5', '%s: release only on the callback\'s Err edge' % fn, 'must-fact is(callback result, Err)')
            else:
                ctx.violation('R5', fn, 'release-unguarded', 'the reservation is released on a path that is not the callback\'s Err edge', rel[0].span)
            # the release gives back the WHOLE reservation: the finger it stores is at least ptr + size(layout)
            # (std's contract here is "reusable": a release that rounds the wrong way leaves MIN_ALIGN bytes of residue)
            rs = [e for e in res.events if e.kind == 'store' and arena.footer_field(e) and arena.footer_field(e)[1] == 'ptr' and len(e.stack) > 1 and e.stack[:1] == rel[0].stack and e.stack[1][1] == rel[0].block]
            okw = False
            for e in rs:
                if arena.classify_finger_store(I, res, e) != 'RECLAIM':
                    continue
                bp = arena.unsafe_block_params(I, e)
                gate = arena.reclaim_precondition(I, e, arena.footer_field(e)[0])
                if bp and gate:
                    P2 = arena.mk_prover(I, e, res, set(c01.ENTRY_AXIOMS.get('alloc_slice_try_fill_with', ())) | gate)
                    okw = P2.le(app('add', bp[0], app('size', bp[1])), e.val)
                    if not okw:
                        # the gate is finger == ptr: state the obligation on the finger term the store is written in
                        for f in e.state.facts:
                            if f[0] == 'eq' and len(f) == 3 and bp[0] in f[1:]:
                                other = f[2] if f[1] == bp[0] else f[1]
                                okw = okw or P2.le(app('add', other, app('size', bp[1])), e.val)
            if okw:
                ctx.ok('R5', '%s: the release raises the finger to at least ptr + size(layout): the whole reservation is reusable' % fn, 'lemma library')
            else:
                ctx.violation('R5', fn, 'release-partial', 'cannot establish ptr + size(layout) <= new finger for the release of the failed reservation: part of it would stay unusable', rel[0].span)
        else:
            ctx.violation('R5', fn, 'shape', 'expected one reservation and one release in alloc_slice_try_fill_with, found %d / %d' % (len(resv), len(rel)), body.get('span'))
    else:
        ctx.anchor_missing('R5', 'Bump::alloc_slice_try_fill_with')


def is_unsafe_release(I, callee):
    b = I.db.by_path.get(callee)
    if not b:
        return False
    m = b['meta']
    ins = m.get('inputs') or []
    return bool(m.get('unsafe')) and len(ins) == 3 and 'NonNull<u8>' in ins[1] and ins[2].endswith('Layout') and (m.get('output') in ('()',))
