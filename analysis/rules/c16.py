"""C16 — a panicking callback never causes double drops or invalid text."""
from .. import arena, panicsafe
from ..facts import loc

EXPLANATION = ("Panic-safety typestate over every function of collections/, boxed.rs and the arena fill/initialiser methods: the operations of each function (field stores classified "
               "by their TermFlow terms as length/cursor commit up or down, len := 0 amplification; ptr::read/copy/drop_in_place as hole-creating; ptr::write as initialising; calls "
               "that may run user code, found by trait-resolution facts and a transitive may-call-user summary) are replayed over the CFG to a fixpoint. At every site where user "
               "code may run (and unwind): no length/cursor may have been advanced without an initialised/processed slot to justify it, the slot being destroyed must already be "
               "excluded from the length, and no moved-out/duplicated slot may be exposed unless the length was zeroed first or a crate guard whose Drop restores the length covers it."
               ' (R2) drain_filter formula clauses; (R3) Drain / Splice formula clauses (the drained range is consumed element by element before anything is written); a length set with nothing written or moved beforehand counts as advanced unless it provably only lowers the length.')
RULE = "rule instance = (function, user-call site); non-trivial = function has both a user-call site and a hole/commit operation; distinct by (function, site)"

SCOPE = ('src/collections', 'src/boxed.rs')
LIB_FNS = ('alloc_slice_fill_with', 'alloc_slice_try_fill_with', 'try_alloc_slice_fill_with', 'alloc_slice_clone', 'try_alloc_slice_clone', 'alloc_with', 'try_alloc_with', 'alloc_try_with', 'try_alloc_try_with',
           'alloc_slice_fill_iter', 'alloc_slice_try_fill_iter', 'try_alloc_slice_fill_iter', 'alloc_slice_fill_default', 'alloc_slice_fill_clone')


def in_scope(b):
    sp = b.get('span') or ''
    if any(sp.startswith(s) for s in SCOPE):
        return True
    return sp.startswith('src/lib.rs') and b['meta'].get('impl_adt') == 'Bump' and b['meta'].get('name') in LIB_FNS


def run(ctx, config='rel-all'):
    db = ctx.db(config)
    ctx.assume("per-iteration discipline: a loop iteration that ends without a reported problem leaves cursor/length consistent (reset of the per-iteration flags on back edges)",
               "guards (types whose Drop stores Vec.len) compute a correct length from their fields if those fields obey the commit ordering checked here",
               "panics of non-user code (allocation failure in reserve) are not modelled")
    ps = panicsafe.PanicSafety(db)
    mu = ps.may_user()
    guards = ps.guard_adts()
    ctx.extra['guard_types'] = sorted(g for g in guards if g)
    nfun = nsites = 0
    for b in db.fn_bodies():
        if b['kind'] == 'closure' or not in_scope(b):
            continue
        if b['id'] not in mu:
            continue
        try:
            res = ps.analyse(b)
        except RecursionError:
            ctx.note('analysis of %s exceeded recursion' % b['id'])
            continue
        nfun += 1
        nsites += res['user_sites']
        fn = arena.short(b['id'])
        if res['findings']:
            for e, info, pr in res['findings']:
                site = 'user-call(%s)' % info.split(' (')[0][:50]
                ctx.violation('R1', fn, site + ':' + pr.split(' ')[1] + pr.split(' ')[2], '%s: user code may run here (%s) while %s' % (fn, info, pr), e.span)
        else:
            ctx.ok('R1', '%s: %d user-call site(s), %d ops replayed%s' % (fn, res['user_sites'], res['ops'], ', guard-covered' if res['guarded'] else ''), 'typestate fixpoint: no hole / premature commit at any user-call site')
    ctx.floor('R1', nfun, 60, 'functions in scope that may run user code')
    ctx.floor('R1.sites', nsites, 100, 'user-call sites replayed')
    ctx.floor('R1.guards', len([g for g in guards if g]), 4, 'guard types (Drop restores a Vec length)')
    # ---- R2: the drain_filter guard computes its length from fields that obey std's formulas
    from . import drainfilter
    drainfilter.check(ctx, config, 'R2')
    # ---- R3 Drain / Splice consume the drained range element by element (`for_each(drop)`: each element leaves the iterator
    # before its destructor runs, so a panicking destructor is never run again by Drain::drop) and follow std's formulas
    from . import splice
    splice.check(ctx, config, 'R3')
    # ---- R4 String::retain's guard: what it restores on unwinding (len := idx - del_bytes, idx = the read cursor at the moment of
    # the panic) is part of std's byte-shift algorithm: the clauses of C14.O4.  The typestate above assumes guards compute the
    # right length from their fields; this discharges the assumption for the one guard whose fields are byte offsets into text
    if config != 'rel-default':
        from .. import runner
        from . import c14
        c14.run(runner.Sub(ctx, 'R4', 'C14', only={'O4'}), config)
    # ---- R5 'the arena is still usable': arena state (finger, chunk list, counters) is written only in bodies the normal-path
    # analysis enters - a rewind performed by a scope guard's destructor while an initialiser closure unwinds is judged by no
    # finger obligation (it may hand out again what the closure allocated before it panicked)
    from .. import arena as _arena
    from . import unwindstate
    unwindstate.check(ctx, ctx.db(config), _arena.analyse(ctx, config), 'R5')
