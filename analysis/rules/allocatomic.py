"""Allocation-failure atomicity of the String byte vector (C14.R10).

In this crate a refused allocation is not an abort (as it is for std's String): `RawVec::reserve*` panics through
`handle_alloc_error` / `capacity_overflow`, or returns Err, and the String is observable afterwards (catch_unwind, a destructor
that runs during unwinding, the Err return of try_reserve).  "The bytes are valid UTF-8 after every operation" therefore needs:
once a String method has started to overwrite or extend its bytes with anything smaller than a whole `char` / `&str`, no
growth request may follow before the method is done.

Rule (evaluated on TermFlow events, callees resolved, helpers inlined):
  W = a raw write into memory (ptr::write, copy, copy_nonoverlapping, write_bytes, fill) that is NOT inside a frame of one of the
      unit appenders String::push / push_str / insert / insert_str (their operand is a `char` / `&str`, a whole unit by type, and
      each of them is checked on its own with no exemption);
  R = a call of the RawVec reserve family.
  A method is violated by a W followed, on some path, by an R.  Dropping a guard value (Splice) whose destructor itself has a
  W followed by an R counts as such a pair, unless the method reserved the full length of the source `&str` the guard copies
  from before it created the guard (then the guard's own growth requests are satisfied by the capacity already there).
"""
from .. import arena
from ..terms import *

UNITS = ('push', 'push_str', 'insert', 'insert_str')
RESERVE = ('reserve', 'reserve_exact', 'try_reserve', 'try_reserve_exact', 'double', 'reserve_in_place', 'double_in_place')
WRITES = ('core::ptr::write', 'core::ptr::write_bytes')
# std slice methods that write through `&mut [T]`
MUT_SLICE = ('copy_from_slice', 'clone_from_slice', 'fill', 'fill_with', 'swap', 'reverse', 'copy_within', 'swap_with_slice', 'rotate_left', 'rotate_right',
             'sort', 'sort_unstable', 'sort_by', 'sort_by_key', 'sort_unstable_by', 'sort_unstable_by_key', 'make_ascii_uppercase', 'make_ascii_lowercase')


def is_reserve(e):
    c = e.callee or ''
    return e.kind == 'call' and 'raw_vec::RawVec' in c and c.split('::')[-1] in RESERVE


def is_write(e):
    # what the allocator does to its own chunks, and the whole-buffer move of a reallocation, are not writes of String content
    if any(f[0].startswith('Bump::') or 'raw_vec::RawVec' in f[0] or f[0].startswith('alloc::') or f[0].startswith('<&') for f in e.stack):
        return False
    if e.kind == 'copy':
        return True
    c = e.callee or ''
    if e.kind == 'call' and c.startswith('core::slice::<impl [T]>::') and c.split('::')[-1] in MUT_SLICE:
        return True
    return e.kind == 'call' and c in WRITES


def unit_frame(e, own_id):
    """the event happens inside a call of one of the unit appenders (other than the function under analysis itself)"""
    for f in e.stack[1:]:
        fid = f[0]
        if 'string::String' in fid and fid.split('::')[-1] in UNITS and ' as ' not in fid:
            return True
    return False


def pairs(I, r, body, exempt_units):
    """(W, R) event pairs with W before R on some path of `body`"""
    g = I.cfg(body)
    ev = r.events
    ws = [(i, e) for i, e in enumerate(ev) if is_write(e) and not (exempt_units and unit_frame(e, body['id']))]
    rs = [(i, e) for i, e in enumerate(ev) if is_reserve(e)]
    out = []
    for i, w in ws:
        for j, x in rs:
            if j <= i:
                continue
            wb, rb = w.top_block(), x.top_block()
            if wb == rb or g.can_reach(wb, rb):
                out.append((w, x))
                break
    return out


def check(ctx, config, rule):
    db = ctx.db(config)
    n = 0
    # ---- destructors of the guard types a String method may drop
    guards = {}
    for b in db.fn_bodies():
        m = b['meta']
        if b['kind'] == 'assoc_fn' and (m.get('impl_trait') or '').endswith('ops::drop::Drop') and m.get('name') == 'drop' and any((m.get('impl_adt') or '').endswith(x) for x in ('vec::Splice', 'vec::Drain', 'vec::DrainFilter', 'string::Drain')):
            I, r = arena.run_fn(ctx, b['id'], config)
            ps = pairs(I, r, b, False)
            guards[(m.get('impl_adt') or '').split('::')[-1]] = (b, ps)
    if 'Splice' not in guards:
        ctx.anchor_missing(rule, '<Splice as Drop>::drop')
    for b in db.fn_bodies():
        m = b['meta']
        if b['kind'] != 'assoc_fn' or not (m.get('impl_adt') or '').endswith('string::String'):
            continue
        try:
            I, r = arena.run_fn(ctx, b['id'], config)
        except RecursionError:
            continue
        fn = arena.short(b['id'])
        unit = m.get('name') in UNITS and not m.get('impl_trait')
        if not any(is_write(e) or is_reserve(e) or e.kind == 'drop' for e in r.events):
            continue
        n += 1
        ps = pairs(I, r, b, not unit)
        bad = False
        for w, x in ps[:2]:
            bad = True
            ctx.violation(rule, fn, 'write-then-grow', '%s writes into the byte buffer (%s) and can still ask for more capacity afterwards (%s): if that request is refused the String is left holding a partial write, which need not be UTF-8'
                          % (fn, (w.callee or w.kind).split('::')[-1] + ' in ' + arena.short(arena.innermost(w)), arena.short(arena.innermost(x)) + ' > ' + (x.callee or '').split('::')[-1]), w.span)
        # guards dropped by the method
        for e in r.events:
            if e.kind != 'drop' or not e.is_own():
                continue
            ty = e.extra.get('ty') or ''
            for gname, (gb, gps) in guards.items():
                if ('::' + gname + '<') not in ty or not gps:
                    continue
                # discharged by a reservation of the whole source made before the guard exists
                srcs = set()
                for c in r.events:
                    if c.kind == 'call' and c.is_own() and (c.callee or '').split('::')[-1] in ('splice',) and r.events.index(c) < r.events.index(e):
                        for a in c.args:
                            for t in subterms(a):
                                if isinstance(t, tuple) and t and t[0] == 'call' and t[1].endswith('::bytes') and t[2]:
                                    srcs.add(t[2][0])
                pre = [c for c in r.events if c.kind == 'call' and c.is_own() and (c.callee or '').split('::')[-1] == 'reserve' and ('vec::Vec' in (c.callee or '') or 'string::String' in (c.callee or ''))
                       and any(c.args[-1] == app('len', s) for s in srcs)]
                g = I.cfg(b)
                okp = bool(pre) and any(g.block_dominates(c.top_block(), e.top_block()) and r.events.index(c) < r.events.index(e) for c in pre)
                if okp:
                    ctx.ok(rule, '%s: the %s guard it drops can grow the buffer after a partial write, but the whole source length was reserved before the guard was created' % (fn, gname), 'own-frame reserve(len(source)) dominating the drop')
                else:
                    bad = True
                    w, x = gps[0]
                    ctx.violation(rule, fn, 'guard-grows-after-write:' + gname, '%s drops a %s over its bytes whose destructor writes (%s) and then may ask for more capacity (%s); nothing reserved the source length beforehand, so a refused request leaves part of a multi-byte character in the String'
                                  % (fn, gname, arena.short(arena.innermost(w)), arena.short(arena.innermost(x))), e.span)
        if not bad:
            ctx.ok(rule, '%s: no growth request can follow a partial write of its bytes' % fn, 'event order + CFG reachability over the inlined call tree; unit appenders exempt and checked on their own')
    ctx.floor(rule, n, 20, 'String methods that write bytes, grow the buffer or drop a guard')
    return n
