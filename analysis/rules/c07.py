"""C07 — the allocation limit is never exceeded by acquiring memory."""
from .. import arena, prover, termflow
from ..terms import *
from ..facts import loc
from . import c01

EXPLANATION = ("TermFlow with a symbolic limit: every arena entry point that can reach the acquirer is analysed with memory initialised to allocation_limit = Some(LIMIT) "
               "(LIMIT symbolic); at every call of the global alloc the must-facts of that path are required to entail  n <= saturating_sub(LIMIT, allocated_bytes)  where n is "
               "exactly the amount the acquirer adds to the arena's byte counter for this chunk (term taken from the footer aggregate) and allocated_bytes is the counter of the arena "
               "being extended as read by the code (so: n == 0 or allocated_bytes + n <= LIMIT). The same entry is analysed with allocation_limit = None and must still reach the "
               "acquirer unconditionally. Frame rules: the fast path / dealloc / shrink / grow never read the limit (a request that fits succeeds whatever the limit); "
               "set_allocation_limit stores exactly its argument into the field that allocation_limit() and the headroom computation load."
               ' (R7) the counter compared with the limit satisfies J4; (R8) the fast path refuses only requests strictly larger than the space left (a request that fits succeeds whatever the limit); (R9) with allocation_limit = None the small-limit bypass of the minimum chunk size is dead.')
RULE = "rule instance = (rule, entry point, acquire site); distinct by (rule, entry, site)"

LIMIT = sym('LIMIT')
ENTRIES = ['try_alloc_layout', 'alloc_layout', 'Alloc::alloc', 'Alloc::realloc', 'Allocator::allocate', 'Allocator::shrink', 'Allocator::grow', 'Allocator::grow_zeroed',
           'alloc_try_with', 'try_alloc_try_with', 'alloc_slice_try_fill_with']


def limit_lv(db, selfterm):
    return ('fld', ('deref', selfterm), 'Bump.allocation_limit')


def self_term(body):
    """term through which the entry reaches the Bump: arg1 is &Bump, or & &Bump for the trait impls"""
    ins = body['meta'].get('inputs') or []
    t = ('param', 1)
    if ins and ins[0].count('&') >= 2:
        return ('load', ('deref', t), 0), True
    return t, False


def run_with_limit(ctx, db, body, limit_value):
    I = arena.ArenaInterp(db)
    st = termflow.State()
    s, nested = self_term(body)
    if nested:
        st.mem[('deref', ('param', 1))] = s
    lv = limit_lv(db, s)
    st.mem[lv] = limit_value
    # the limit stays what it is until something stores to the field or user code runs (it could call set_allocation_limit):
    # re-reads after a loop or an opaque call see the same value (termflow drops the marker on those paths)
    I.frozen = {lv: limit_value}
    st.facts.add(('frozen', lv))
    I.res = None
    r = I.run_entry(body['id'], state=st)
    return I, r, s


def run(ctx, config='rel-all'):
    db = ctx.db(config)
    A = arena.analyse(ctx, config)
    ctx.assume("A1 no overflow of allocated_bytes + n (both bounded by the address space)", "C08.O1: the counter equals the usable bytes held (J4)",
               "constructors run before any limit can be set (the arena does not exist yet)")
    check_acquirer_callers(ctx, db)
    n_sites = 0
    for key in ENTRIES:
        val = A.get(key)
        if val is None:
            if not (config != 'rel-all' and key.startswith('Allocator::')):
                ctx.anchor_missing('R0', 'arena entry point ' + key)
            continue
        body = val[2]
        # ---- case B: a limit is set
        I, res, s = run_with_limit(ctx, db, body, some(LIMIT))
        gallocs = [e for e in res.events if e.kind == 'galloc']
        if not gallocs:
            ctx.violation('R1', arena.short(body['id']), 'no-acquire', 'entry %s never reaches the acquirer under a limit' % key)
        aggs = [(e, arena.footer_agg(e)) for e in res.events if e.kind == 'store' and arena.footer_agg(e)]
        for ge in gallocs:
            n_sites += 1
            fn = arena.short(arena.innermost(ge))
            g = ('app', 'galloc', ge.args[0], C(ge.extra['id']))
            mine = [(e, fa) for e, fa in aggs if g in subterms(fa[0])]
            if not mine:
                ctx.violation('R1', fn, 'acquire:no-footer', 'block obtained but no footer written (cannot tell what is added to the counter)', ge.span)
                continue
            e_agg, (Aaddr, aggv) = mine[0]
            ab, prev = field_of(aggv, 'allocated_bytes'), field_of(aggv, 'prev')
            pbase = prev[1] if prev[0] == 'addr' else ('deref', prev)
            P0 = prover.Prover(I, e_agg.state.facts)
            d, c = lin(P0.norm(ab))
            loads = [k for k in d if k[0] == 'load' and k[1] == ('fld', pbase, 'ChunkFooter.allocated_bytes') and d[k] == 1]
            if len(loads) != 1:
                ctx.violation('R2', fn, 'acquire:counter-term', 'cannot split the new counter %s into prev.allocated_bytes + n' % show(ab)[:120], e_agg.span)
                continue
            rest = dict(d)
            del rest[loads[0]]
            n = from_lin(rest, c)
            # the arena being extended: prev must be the current footer of self
            cur_ok = prev[0] == 'load' and prev[1][0] == 'fld' and prev[1][2].endswith('.current_chunk_footer')
            if not cur_ok:
                ctx.violation('R2', fn, 'acquire:prev', 'the new chunk is linked to %s, not to the current chunk of the arena whose limit was consulted' % show(prev)[:80], e_agg.span)
            P = prover.Prover(I, ge.state.facts)
            cands = set()
            for f in ge.state.facts:
                for t in subterms(f):
                    if isinstance(t, tuple) and t and t[0] == 'load' and t[1] == ('fld', pbase, 'ChunkFooter.allocated_bytes'):
                        cands.add(t)
            cands.add(loads[0])
            proved = None
            for AB in sorted(cands, key=repr):
                if P.le(n, ('app', 'satsub', LIMIT, AB)):
                    proved = AB
                    break
            if proved is not None:
                ctx.ok('R1', '%s via %s: n <= saturating_sub(LIMIT, allocated_bytes) at the global alloc' % (fn, key), 'n = %s ; facts of the path entail it' % show(n)[:70])
            else:
                ctx.violation('R1', fn, 'acquire:limit', 'under allocation_limit = Some(LIMIT) the path to the global alloc does not entail n <= saturating_sub(LIMIT, allocated_bytes) for the %s bytes this chunk adds to the counter [%s via %s]' % (show(n)[:80], arena.stack_str(ge), key), ge.span)
        # ---- case A: no limit
        I2, res2, _ = run_with_limit(ctx, db, body, NONE)
        g2 = [e for e in res2.events if e.kind == 'galloc']
        # with no limit the small-limit bypass of the minimum chunk size must be dead: every candidate the generator
        # turns into a chunk request is at least the minimum new chunk size ("an arena with no limit behaves as if the feature did not exist")
        for e in res2.events:
            if e.kind == 'call' and (e.callee or '').endswith('::new_chunk_memory_details') and any('closure' in f[0] for f in e.stack) and e.args and e.args[0][0] == 'agg' and e.args[0][2] == 'Some':
                base = field_of(e.args[0], '0')
                okb = any(f[0] == 'le' and len(f) == 3 and f[2] == base and f[1] != C(0) for f in e.state.facts)
                if okb:
                    ctx.ok('R9', '%s with allocation_limit = None: candidates below the minimum chunk size are never requested' % key, 'must-fact min <= candidate at the sizing call')
                else:
                    ctx.violation('R9', arena.short(arena.innermost(e)), 'no-limit:bypass-live', 'with no limit set the candidate generator still turns a size below the minimum chunk size into a request (the small-limit bypass is reachable with allocation_limit = None) [via %s]' % key, e.span)
        if g2:
            lim_facts = [f for e in g2 for f in e.state.facts if any(isinstance(t, tuple) and t and t[0] == 'load' and t[1][0] == 'fld' and t[1][2] == 'Bump.allocation_limit' for t in subterms(f))]
            ctx.ok('R1', '%s with allocation_limit = None reaches the acquirer (%d sites)' % (key, len(g2)), 'feasible under the None branch of the limit predicate')
        else:
            ctx.violation('R1', arena.short(body['id']), 'no-limit:blocked', 'with no limit set, entry %s can never acquire a chunk' % key)
    ctx.floor('R1', n_sites, 11, 'acquire sites analysed under a symbolic limit (one per entry point)')
    # ---- R7 the counter the limit is compared against is the usable bytes actually held (J4, shared with C08.O1)
    from . import c08
    fsz = arena.ArenaInterp(db).size_of('ChunkFooter')
    if is_c(fsz):
        c08.check_j4(ctx, A, db, fsz, 'R7')
    # ---- R8 'a request that fits in the space left succeeds whatever the limit': the fast path refuses only a request
    # that is strictly larger than the space left (shared with C18.O6); together with R5 (the fast path never reads the limit)
    from . import c18
    c18.check_exact_refusal(ctx, A, config, 'R8')
    # ---- R10 ... and no caller skips the fast path: the chunk-acquiring slow path (where the limit is consulted) is entered only
    # after the bumping function refused the same layout (shared with C18.O7)
    c18.check_slow_path_guard(ctx, db, config, 'R10')
    # ---- R5 who reads the limit
    val = A.get('try_alloc_layout')
    readers = set()
    slow = set()
    if val:
        I, res, body = val
        for ge in [e for e in res.events if e.kind == 'galloc']:
            for fr in ge.stack[1:-1]:
                b = I.bodies.get(fr[0])
                if b is not None and b['kind'] != 'closure':
                    slow.add(fr[0])
    for key, v in A.items():
        if v is None:
            continue
        I, res, body = v
        for e in res.events:
            if e.kind == 'call' and e.callee == 'core::cell::Cell::<T>::get' and e.args and e.args[0][0] == 'addr':
                lv = e.args[0][1]
                if lv[0] == 'fld' and lv[2] == 'Bump.allocation_limit':
                    chain = [f[0] for f in e.stack]
                    readers.add(tuple(chain))
                    if any(f in slow for f in chain) or key in ('allocation_limit',):
                        ctx.ok('R5', 'limit read in %s (slow path / accessor)' % arena.short(chain[-1]), 'call stack contains the chunk-acquiring slow path')
                    else:
                        ctx.violation('R5', arena.short(chain[-1]), 'reads(allocation_limit)', 'allocation_limit is read outside the chunk-acquiring slow path [%s]: a request that fits the current chunk must succeed whatever the limit' % ' > '.join(map(arena.short, chain)), e.span)
    ctx.floor('R5', len(readers), 2, 'call stacks reading allocation_limit')
    # ---- R6 accessor agreement
    v = A.get('set_allocation_limit')
    if v:
        I, res, body = v
        sts = [e for e in res.events if e.kind == 'store' and arena.bump_field(e) and arena.bump_field(e)[1] == 'allocation_limit']
        if len(sts) == 1 and sts[0].val == ('param', 2) and arena.bump_field(sts[0])[0] == ('param', 1):
            ctx.ok('R6', 'set_allocation_limit(l) stores l into self.allocation_limit', 'term identity')
        else:
            ctx.violation('R6', 'Bump::set_allocation_limit', 'store', 'set_allocation_limit does not store exactly its argument into self.allocation_limit', body.get('span'))
    else:
        ctx.anchor_missing('R6', 'Bump::set_allocation_limit')
    v = A.get('allocation_limit')
    if v:
        I, res, body = v
        r = res.ret
        if r is not None and r[0] == 'load' and r[1] == ('fld', ('deref', ('param', 1)), 'Bump.allocation_limit'):
            ctx.ok('R6', 'allocation_limit() loads self.allocation_limit', 'term identity')
        else:
            ctx.violation('R6', 'Bump::allocation_limit', 'return', 'allocation_limit() returns %s' % show(r)[:80], body.get('span'))
    else:
        ctx.anchor_missing('R6', 'Bump::allocation_limit')





def check_acquirer_callers(ctx, db):
    """R11 (requirement side: also for methods that did not exist when the entry list was written): the function that obtains a chunk
    from the global allocator is called only (a) by constructors - functions without a `self` parameter, which run before a limit can
    have been set - and (b) from the slow path of the allocation entry points, where R1 proves the limit test at every acquisition.
    Any other function that reaches the acquirer (a new `reset_and_coalesce`, a `reserve_chunk`) acquires memory the limit never saw."""
    from . import c01
    acq = {f for f, _ in c01.global_alloc_callers_raw(db).get('alloc', [])}
    n = 0
    for a in sorted(acq):
        ab = db.bodies.get(a)
        path = (ab['meta'].get('path') if ab else None) or a
        sites = db.callers_of(path) + [x for x in db.callers_of(a) if x not in db.callers_of(path)]
        for cb, bi, t in sites:
            n += 1
            top = cb
            # a closure belongs to the function that creates it
            while top['kind'] == 'closure':
                pf = top['meta'].get('parent_fn')
                cand = [x for x in db.fn_bodies() if x['kind'] != 'closure' and x['meta'].get('path') == pf]
                if not cand:
                    break
                top = cand[0]
            m = top['meta']
            ins = m.get('inputs') or []
            has_self = bool(ins) and ('Bump<' in ins[0] or ins[0].endswith('Bump'))
            fn = arena.short(top['id'])
            callers_of_top = set()
            frontier = [top]
            for _ in range(4):      # private helpers between the entry points and the acquiring call (extract-method refactorings)
                nxt = []
                for fb in frontier:
                    for c2, _, _ in db.callers_of(fb['meta'].get('path') or fb['id']):
                        while c2['kind'] == 'closure':
                            cand = [x for x in db.fn_bodies() if x['kind'] != 'closure' and x['meta'].get('path') == c2['meta'].get('parent_fn')]
                            if not cand:
                                break
                            c2 = cand[0]
                        if c2['id'] not in callers_of_top:
                            callers_of_top.add(c2['id'])
                            if not c2['meta'].get('pub'):
                                nxt.append(c2)
                frontier = nxt
            if not has_self:
                ctx.ok('R11', '%s acquires a chunk as a constructor (no arena exists yet, no limit can be set)' % fn, 'no self parameter')
            elif any(e.split('::')[-1] in ('try_alloc_layout', 'alloc_layout') or 'try_alloc_layout' in e for e in callers_of_top) and not m.get('pub'):
                ctx.ok('R11', '%s acquires chunks as the slow path of the allocation entry points (limit test proved by R1)' % fn, 'private, called from try_alloc_layout / alloc_layout')
            else:
                ctx.violation('R11', fn, 'acquire-outside-slow-path', '%s calls the chunk-acquiring function %s but is neither a constructor nor the private slow path of try_alloc_layout: the allocation limit is not known to be tested before this acquisition' % (fn, arena.short(a)), t.get('span'))
    ctx.floor('R11', n, 2, 'call sites of the chunk-acquiring function')
