"""C03 — chunks are returned to the global allocator exactly once and never early."""
from .. import arena, prover
from ..terms import *
from ..facts import loc
from . import c01

EXPLANATION = ("Who-may-call inventory of the global allocator over all compiled bodies (one acquirer, one releaser, no realloc/alloc_zeroed); TermFlow pairing of what is "
               "acquired with what is recorded in the footer (data/layout terms identical to the alloc call's result/argument) and of what is released with what was recorded "
               "(dealloc(load f.data, load f.layout) of one footer f); releaser loop discipline (sentinel excluded by the is_empty false edge at every dealloc, next link read before "
               "the block is freed, nothing dereferenced after); callers of the releaser (Drop for Bump on every path with the current chunk; &mut self methods that first detach what "
               "they free with prev.replace(EMPTY)); no path on which a successfully acquired chunk is neither published nor returned; no destructor call reachable from reset/drop."
               ' (R7) the list head only moves to a chunk acquired in the same call; (R8) no panic site is reachable between a successful acquisition and the publication of the chunk.')
RULE = "rule instance = (rule, function, call/store site); distinct by (rule, function, site)"


def run(ctx, config='rel-all', shares=True):
    A = arena.analyse(ctx, config)
    db = ctx.db(config)
    ctx.assume("A4 the global allocator honours its contract", "nightly rustc MIR construction")
    c01.check_who_may_call(ctx, config, rule='R1')
    callers = c01.global_alloc_callers(db)
    acq = sorted({fn for fn, _ in callers.get('alloc', [])})
    rel = sorted({fn for fn, _ in callers.get('dealloc', [])})
    # ---- R2 pairing
    n_pair = 0
    for key, val in A.items():
        if val is None:
            continue
        I, res, body = val
        for e in res.events:
            fa = arena.footer_agg(e) if e.kind == 'store' else None
            if fa:
                A_, aggv = fa
                fn = arena.short(arena.innermost(e))
                data, lay = field_of(aggv, 'data'), field_of(aggv, 'layout')
                g_ok = data is not None and data[0] == 'app' and data[1] == 'galloc'
                n_pair += 1
                if g_ok and lay == data[2]:
                    ctx.ok('R2', '%s via %s: footer{data, layout} == (alloc result, alloc argument)' % (fn, key), 'term identity')
                else:
                    ctx.violation('R2', fn, 'write(ChunkFooter{data,layout})', 'the footer records data=%s layout=%s, not the pointer/layout of the global alloc call' % (show(data)[:80], show(lay)[:80]), e.span)
            if e.kind == 'gdealloc':
                fn = arena.short(arena.innermost(e))
                p, L = e.args[0], e.args[1]
                n_pair += 1
                fp = fl = None
                if p[0] == 'load' and p[1][0] == 'fld' and p[1][2] == 'ChunkFooter.data' and p[1][1][0] == 'deref':
                    fp = p[1][1][1]
                if L[0] == 'load' and L[1][0] == 'fld' and L[1][2] == 'ChunkFooter.layout' and L[1][1][0] == 'deref':
                    fl = L[1][1][1]
                if fp is not None and fp == fl:
                    ctx.ok('R2', '%s via %s: dealloc(load f.data, load f.layout) of one footer' % (fn, key), 'term identity, f = %s' % show(fp)[:50])
                else:
                    ctx.violation('R2', fn, 'call(global dealloc):args', 'dealloc is called with (%s, %s), not the recorded data/layout of one footer' % (show(p)[:100], show(L)[:100]), e.span)
                    continue
                # R3: sentinel never freed
                sentinel_excluded = any(f[0] == 'ne' and any(x == ('addr', ('deref', fp)) or x == fp for x in f[1:]) and any(prover_static(x) for x in f[1:]) for f in e.state.facts)
                if sentinel_excluded:
                    ctx.ok('R3', '%s via %s: dealloc dominated by !is_empty(f)' % (fn, key), 'must-fact ne(&*f, &EMPTY_CHUNK)')
                else:
                    ctx.violation('R3', fn, 'call(global dealloc):sentinel', 'dealloc of footer %s is not dominated by the false edge of is_empty(f): the static empty chunk could be freed' % show(fp)[:80], e.span)
    ctx.floor('R2', n_pair, 2, 'acquire/release pairing sites')
    # ---- R3 releaser body: nothing touches the freed chunk after the dealloc
    # the function that contains the dealloc call, and (when that is a helper extracted from the releaser) every level up to
    # the releaser: after the call nothing may touch the chunk until the loop test / the return
    levels = []
    for rawfn in sorted({f for f, _ in c01.global_alloc_callers_raw(db).get('dealloc', [])}):
        chain = c01.exclusive_chain(db, rawfn)
        for k, f in enumerate(chain):
            levels.append((f, None if k == 0 else chain[k - 1]))
    for fn, via in levels:
        b = db.bodies.get(fn)
        g = db.cfg(b)
        loops = g.loops()
        for bi, t in db.calls(b):
            if via is None:
                if t['callee'].get('path') != 'alloc::alloc::dealloc':
                    continue
            else:
                vb = db.bodies.get(via)
                if db.callee_path(t) not in (via, (vb['meta'].get('path') if vb else None)):
                    continue
            hdrs = [h for h, blks in loops.items() if bi in blks]
            after = g.reach([t['t']] if t['t'] is not None else [], avoid_blocks=hdrs)
            bad = []
            for x in sorted(after):
                blk = b['blocks'][x]
                if blk['term']['k'] == 'call':
                    bad.append('bb%d: call %s' % (x, blk['term']['callee'].get('path')))
                for s in blk['stmts']:
                    if s['k'] == 'assign' and (any(e['k'] == 'deref' for e in s['place']['proj']) or 'deref' in str(s['rv'])):
                        bad.append('bb%d: memory access' % x)
            if bad:
                ctx.violation('R3', arena.short(fn), 'after-dealloc', 'after the chunk is freed the same loop iteration still does: %s' % '; '.join(bad[:4]), t.get('span'))
            else:
                ctx.ok('R3', '%s: nothing is dereferenced or called between dealloc and the next loop test' % arena.short(fn), 'CFG reachability from the dealloc block, %d blocks' % len(after))
            if not hdrs:
                ctx.note('releaser %s frees without a loop' % fn)
    # ---- R4 callers of the releaser
    n_callers = 0
    has_drop = False
    for fn in rel:
        for (cb, bi, t) in db.callers_of(fn):
            n_callers += 1
            m = cb['meta']
            cfn = arena.short(cb['id'])
            ins = m.get('inputs') or []
            excl = bool(ins) and ins[0].startswith('&mut ')
            if excl:
                ctx.ok('R4', '%s calls the releaser and holds the arena exclusively (%s)' % (cfn, ins[0]), 'signature')
            else:
                ctx.violation('R4', cfn, 'call(releaser):receiver', 'chunks are released from a function that does not hold the arena exclusively (first parameter %s)' % (ins[0] if ins else 'none'), t.get('span'))
            if (m.get('impl_trait') or '').endswith('ops::drop::Drop') and m.get('impl_adt') == 'Bump':
                has_drop = True
    ctx.floor('R4', n_callers, 2, 'callers of the releaser (Drop for Bump, reset)')
    if not has_drop:
        ctx.violation('R4', 'Bump', 'Drop', 'no Drop impl for Bump calls the releaser: the arena would leak its chunks')
    # what each caller hands to the releaser
    for key in ('drop', 'reset'):
        val = A.get(key)
        if not val:
            continue
        I, res, body = val
        calls = [e for e in res.events if e.kind == 'call' and e.callee in rel]
        if not calls:
            ctx.violation('R4', arena.short(body['id']), 'call(releaser):missing', '%s does not release any chunk' % key)
            continue
        g = I.cfg(body)
        for e in calls:
            arg = e.args[0]
            if len(e.stack) == 1 and not g.every_path_passes(0, {e.block}, g.returns()):
                if key == 'drop':
                    ctx.violation('R4', arena.short(body['id']), 'call(releaser):path', 'a path through Drop::drop does not release the chunk list', e.span)
            if key == 'drop':
                okv = arg[0] == 'load' and arg[1][0] == 'fld' and arg[1][2].endswith('.current_chunk_footer')
                what = 'the current chunk footer (whole list)'
            else:
                # must be the old prev link of the current chunk, which was replaced by EMPTY before
                okv = arg[0] == 'load' and arg[1][0] == 'fld' and arg[1][2] == 'ChunkFooter.prev'
                cut = [s for s in res.events if s.kind == 'store' and arena.footer_field(s) and arena.footer_field(s)[1] == 'prev'
                       and s.val[0] == 'addr' and prover.root_static(s.val[1]) == 'EMPTY_CHUNK' and res.events.index(s) < res.events.index(e)]
                okv = okv and bool(cut) and arena.footer_field(cut[0])[0] == arg[1][1][1]
                what = 'the detached tail: old value of cur.prev, after cur.prev := EMPTY'
            if okv:
                ctx.ok('R4', '%s releases %s' % (arena.short(body['id']), what), show(arg)[:80])
            else:
                ctx.violation('R4', arena.short(body['id']), 'call(releaser):arg', '%s passes %s to the releaser, expected %s' % (key, show(arg)[:100], what), e.span)
    check_no_leak(ctx, A, 'R5', 4)
    # ---- R7 a published chunk stays on the list until the releaser gets it: the list head only ever moves to a chunk
    # acquired in the same call (shared with C01.R7); moving it back unlinks a chunk that is then never given back
    from . import c01 as _c01
    for key, v in A.items():
        if v is not None:
            _c01.check_ccf_stores(ctx, key, v[0], v[1], 'R7')
    # ---- R8 nothing can unwind between a successful acquisition and the moment the chunk is owned by an arena value:
    # a panic there (e.g. a validation assert placed after the allocation) loses the only pointer to the block
    n8 = 0
    for key, val in A.items():
        if val is None:
            continue
        I, res, body = val
        aggs = [(e, arena.footer_agg(e)[0]) for e in res.events if e.kind == 'store' and arena.footer_agg(e)]
        for ge in [e for e in res.events if e.kind == 'galloc']:
            g = ('app', 'galloc', ge.args[0], C(ge.extra['id']))
            mine = [a for e, a in aggs if g in subterms(a)]
            if not mine:
                continue
            Aaddr = mine[0]
            n8 += 1
            bad = []
            for e in res.events:
                if e.kind not in ('diverge', 'panic') and not (e.kind == 'assert' and not is_c(e.val)):
                    continue
                if (e.callee or '').endswith('unreachable_unchecked'):
                    continue        # an optimiser hint, not an unwinding site (its feasibility is C09.R1's business)
                succeeded = any((f[0] == 'ne' and g in f) or (f[0] == 'is' and f[2] in ('Some', 'Ok', 'Continue') and g in subterms(f[1])) for f in e.state.facts)
                if not succeeded:
                    continue
                published = any(k[0] == 'fld' and k[2] == 'Bump.current_chunk_footer' and Aaddr in subterms(v) for k, v in e.state.mem.items())
                if not published:
                    bad.append(e)
            fn = arena.short(arena.innermost(ge))
            if bad:
                e = bad[0]
                ctx.violation('R8', arena.short(body['id']), 'panic-holding-chunk:%s' % (e.callee or e.kind).split('::')[-1], 'via %s: after the global allocator returned a block (in %s) and before the chunk is stored into an arena, %s can panic [%s]: the unwinding drops the only pointer to the block and it is never given back' % (key, fn, (e.callee or e.kind), arena.stack_str(e)), e.span)
            else:
                ctx.ok('R8', '%s via %s: no panic site is reachable between the acquisition and the publication of the chunk' % (fn, key), 'must-facts of every diverging event')
    ctx.floor('R8', n8, 10, 'acquisition sites checked for panics before publication')
    # ---- R9 the crate's own clients of the arena keep the allocation contract (a footer overwritten through a stale
    # capacity is given back to the global allocator as a pointer it never returned); R10 nothing can hold a reference
    # into a chunk past reset / drop: the region rule and the compile-verdict witnesses of C05
    from . import clients, c05
    from .. import runner
    if shares:
        clients.check(ctx, config, 'R9')
        # ---- R11 reset hands a tail to the releaser only after / together with detaching it on every path (the path obligations of
        # C06.R1 / R2): a path that frees the older chunks and returns with `prev` still pointing at them frees them again later
        from . import c06
        c06.run(runner.Sub(ctx, 'R11', 'C06', only={'R1', 'R2'}), config, shares=False)
        if config == 'rel-all':
            c05.run(runner.Sub(ctx, 'R10', 'C05', only={'W1', 'R2'}), config)     # the borrow / lifetime half; Send / Sync says nothing about when chunks are freed
    # ---- R6 no destructors from reset/drop
    for key in ('drop', 'reset'):
        val = A.get(key)
        if not val:
            continue
        I, res, body = val
        bad = [e for e in res.events if e.kind in ('drop_in_place', 'drop', 'usercall')]
        if bad:
            for e in bad[:3]:
                ctx.violation('R6', arena.short(body['id']), 'runs-destructor', '%s reaches a destructor / user callback (%s)' % (key, e.kind), e.span)
        else:
            ctx.ok('R6', '%s reaches no drop_in_place, Drop terminator or user callback' % arena.short(body['id']), '%d events inspected' % len(res.events))


def check_no_leak(ctx, A, RULE_NAME, floor):
    # ---- R5 no leak between acquisition and publication
    n5 = 0
    for key, val in A.items():
        if val is None:
            continue
        I, res, body = val
        aggs = [(e, arena.footer_agg(e)[0]) for e in res.events if e.kind == 'store' and arena.footer_agg(e)]
        for ge in [e for e in res.events if e.kind == 'galloc']:
            g = ('app', 'galloc', ge.args[0], C(ge.extra['id']))
            mine = [a for e, a in aggs if g in subterms(a)]
            if not mine:
                ctx.violation(RULE_NAME, arena.short(arena.innermost(ge)), 'acquire:no-footer', 'a block is obtained from the global allocator but no footer is written into it', ge.span)
                continue
            Aaddr = mine[0]
            # every inlined frame between the acquirer and the entry, plus the entry itself
            frames = [ge.stack[:d] for d in range(len(ge.stack), 0, -1)]
            for fr in frames:
                if len(fr) == 1:
                    ret, rfacts = res.ret, set(res.ret_state.facts) if res.ret_state else set()
                    name = arena.short(body['id'])
                else:
                    ce = [c for c in res.events if c.kind == 'call' and c.stack == fr[:-1] and c.block == fr[-1][1] and c.ret is not None]
                    if not ce:
                        continue
                    ret, rfacts = ce[-1].ret, set(ce[-1].state.facts)
                    name = arena.short(fr[-1][0])
                published = any(s.kind == 'store' and arena.bump_field(s) and arena.bump_field(s)[1] == 'current_chunk_footer' and Aaddr in subterms(s.val)
                                and len(s.stack) >= len(fr) and s.stack[:len(fr)] == fr for s in res.events)
                for t, facts in arena.alternatives(I, ret, rfacts):
                    succeeded = any((f[0] == 'ne' and g in f) or (f[0] == 'is' and f[2] == 'Some' and g in subterms(f[1])) for f in facts)
                    if not succeeded:
                        continue
                    n5 += 1
                    if Aaddr in subterms(t) or published or t == ('never',):
                        ctx.ok(RULE_NAME, '%s via %s: acquired chunk is carried by the return value or published' % (name, key), 'footer address occurs in the success alternative')
                    else:
                        ctx.violation(RULE_NAME, name, 'return:drops-acquired-chunk', 'a path on which the global allocator returned a block returns %s without the new footer and without publishing it: the chunk is leaked [via %s]' % (show(t)[:80], key), ge.span)
    ctx.floor(RULE_NAME, n5, floor, 'return alternatives on acquisition-success paths')


def prover_static(x):
    return isinstance(x, tuple) and x and x[0] == 'addr' and prover.root_static(x[1]) == 'EMPTY_CHUNK'


