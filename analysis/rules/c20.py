"""C20 — arenas are isolated from each other, also across threads: absence of shared mutable state."""
from .. import arena, prover
from ..terms import *
from ..facts import loc
from . import c01

EXPLANATION = ("Effect analysis over the whole compiled crate: (R1) inventory of every static (none mutable; the only !Freeze static is the empty-chunk sentinel), no atomics / "
               "thread-locals / global registries are called; (R2) every store to a field of a chunk footer, found by TermFlow in every arena entry point with all callees inlined, "
               "is proved to target a footer other than the shared static sentinel: the must-facts at the store contain the false edge of is_empty(F) for the same F, or F was created "
               "(obtained from the global allocator) in the same call; (R3) auto-trait inventory: Bump has an explicit Send impl, no Sync impl and Cell fields. "
               "Together: what an arena does is a function of its own fields and chunks, and no memory reachable from two arenas is ever written."
               ' (R4) nothing that can reach an arena, or carry values that can, is Send / Sync: the compile-verdict witnesses and the auto-trait audit of C05 (including payload probes: a generic container of non-Send elements must not be Send).'
               ' (R5) no method of an arena-backed type (RawVec, Vec, String, FromUtf8Error ..) overwrites a whole arena-backed value or a &Bump field reachable from one parameter with a value derived from another parameter (mem::swap(self, other), *self = other ..): a collection keeps allocating from the arena it was created in.')
RULE = "rule instance = (rule, entry point, store site) / inventory entry; distinct by (rule, function, site)"


def not_sentinel(I, res, e, F):
    """F provably differs from the static empty chunk at event e"""
    for f in e.state.facts:
        if f[0] == 'ne' and len(f) == 3:
            a, b = f[1], f[2]
            for x, y in ((a, b), (b, a)):
                if (x == ('addr', ('deref', F)) or x == F) and y[0] == 'addr' and prover.root_static(y[1]) == 'EMPTY_CHUNK':
                    return 'guarded by the false edge of is_empty(F)'
    # the sentinel's finger is its own address and (by this very rule) never changes: finger != footer address excludes it
    for f in e.state.facts:
        if f[0] in ('ne', 'lt') and len(f) == 3:
            for x, y in ((f[1], f[2]), (f[2], f[1])):
                if y == F and isinstance(x, tuple) and x[:1] == ('load',) and x[1] == ('fld', ('deref', F), 'ChunkFooter.ptr'):
                    return 'guarded by finger != footer address (the sentinel points at itself)'
    # created in this call
    aggs = [arena.footer_agg(s)[0] for s in res.events if s.kind == 'store' and arena.footer_agg(s)]
    if any(a in subterms(F) for a in aggs):
        return 'F is a footer created in this call'
    P = prover.Prover(I, e.state.facts)
    cF = P.canon(F)
    if cF != F:
        for f in P.facts:
            if f[0] == 'ne' and len(f) == 3:
                for x, y in ((f[1], f[2]), (f[2], f[1])):
                    if (x == ('addr', ('deref', cF)) or x == cF) and y[0] == 'addr' and prover.root_static(y[1]) == 'EMPTY_CHUNK':
                        return 'guarded (through an equality of footers) by the false edge of is_empty'
    return None


def run(ctx, config='rel-all'):
    db = ctx.db(config)
    A = arena.analyse(ctx, config)
    ctx.assume("races inside the global allocator are out of scope", "schedule-level behaviour is not explored: the claim is absence of shared mutable state")
    # ---- R1 statics / shared state inventory
    n_stat = 0
    for s in db.statics:
        n_stat += 1
        nm = s['path']
        if s['mutable']:
            ctx.violation('R1', nm, 'static-mut', 'mutable static %s is process-wide shared state' % nm, s.get('span'))
        elif not s['freeze']:
            if s['ty'].endswith('EmptyChunkFooter'):
                ctx.ok('R1', 'static %s: !Freeze, the sentinel (writes excluded by R2)' % nm, 'rustc Freeze query')
            else:
                ctx.violation('R1', nm, 'static-interior-mut', 'static %s of type %s has interior mutability: state shared between arenas' % (nm, s['ty']), s.get('span'))
        else:
            ctx.ok('R1', 'static %s: immutable and Freeze' % nm, 'rustc Freeze query')
    ctx.floor('R1', n_stat, 1, 'statics in the crate (at least the sentinel)')
    bad_calls = 0
    for b in db.fn_bodies():
        for bi, t in db.calls(b):
            p = t['callee'].get('path') or ''
            if 'sync::atomic' in p or 'thread::local' in p or 'LocalKey' in p or 'sync::mutex' in p or 'OnceLock' in p or 'once::Once' in p or 'lazy' in p.lower() and 'cell' in p.lower():
                bad_calls += 1
                ctx.violation('R1', arena.short(b['id']), 'call(%s)' % p.split('::')[-1], 'process-wide shared state is used: %s' % p, t.get('span'))
    ctx.ok('R1', 'no atomics, thread-locals, mutexes or once-cells are called anywhere in the crate', '%d bodies scanned' % len(db.fn_bodies()))
    # ---- R2 the sentinel is never written
    sites = set()
    for key, val in A.items():
        if val is None:
            if not (config != 'rel-all' and key.startswith('Allocator::')):
                ctx.anchor_missing('R0', 'arena entry point ' + key)
            continue
        I, res, body = val
        st_events = [e for e in res.events if e.kind == 'store']
        ords = c01.ordinal_keys(st_events)
        for e in st_events:
            ff = arena.footer_field(e)
            if not ff:
                # raw stores through a pointer to the static itself
                if e.lv and prover.root_static(e.lv) == 'EMPTY_CHUNK':
                    ctx.violation('R2', arena.short(arena.innermost(e)), 'store(EMPTY_CHUNK)', 'direct store into the static empty chunk', e.span)
                continue
            F, field = ff
            fn = arena.short(arena.innermost(e))
            o = ords.get((fn, e.block, e.span), 0)
            site = 'store#%d(ChunkFooter.%s)' % (o, field)
            sites.add((fn, o, field))
            why = not_sentinel(I, res, e, F)
            if why:
                ctx.ok('R2', '%s %s via %s' % (fn, site, key), why)
            else:
                ctx.violation('R2', fn, site, 'store to ChunkFooter.%s of %s is not guarded against the shared static empty chunk (no is_empty(F) false edge dominates it and F is not fresh) [%s]' % (field, show(F)[:80], arena.stack_str(e)), e.span)
    ctx.floor('R2', len(sites), 10, 'distinct footer-field store sites (finger x8, prev, allocated_bytes)')
    # ---- R3 Send / !Sync
    imp = [i for i in db.impls if i.get('adt') == 'Bump' and i.get('trait') in ('core::marker::Send', 'core::marker::Sync')]
    send = [i for i in imp if i['trait'].endswith('Send') and not i['negative']]
    sync = [i for i in imp if i['trait'].endswith('Sync') and not i['negative']]
    if send:
        ctx.ok('R3', 'unsafe impl Send for %s' % send[0]['self'], 'impl inventory')
        if 'MIN_ALIGN' not in send[0]['self']:
            ctx.violation('R3', 'Bump', 'Send-not-generic', 'Send is implemented only for %s, not for every MIN_ALIGN' % send[0]['self'], send[0].get('span'))
    else:
        ctx.violation('R3', 'Bump', 'Send-missing', 'Bump has no Send impl: an idle arena could not be moved to another thread')
    if sync:
        ctx.violation('R3', 'Bump', 'Sync-impl', 'Bump implements Sync: one arena could be used from two threads', sync[0].get('span'))
    bump = db.adt.get('Bump')
    if bump:
        cells = [f for f in bump['fields'] if 'Cell<' in f['ty']]
        if cells:
            ctx.ok('R3', 'Bump fields %s are Cells (auto !Sync)' % [f['name'] for f in cells], 'ADT field types')
        else:
            ctx.violation('R3', 'Bump', 'no-Cell', 'Bump has no Cell field: it would be auto-Sync while being mutated through &self')
    else:
        ctx.anchor_missing('R3', 'struct Bump')
    extra_sync = [i for i in db.impls if i.get('trait') == 'core::marker::Sync' and i.get('unsafe') and i.get('adt') not in ('EmptyChunkFooter', 'collections::vec::IntoIter', 'collections::vec::Drain', 'collections::string::Drain')]
    for i in extra_sync:
        ctx.violation('R3', i['self'], 'unsafe-Sync', 'unexpected unsafe impl Sync for %s' % i['self'], i.get('span'))


    # ---- R4 'one arena is only ever driven by one thread': nothing that can reach an arena (or carry values that can) is
    # accepted by rustc as Send / Sync.  These are the compile-verdict witnesses and the auto-trait audit of C05 (W1 thread
    # families, R3 Send/Sync audit incl. payload probes), evaluated here as C20.R4
    if config == 'rel-all':
        from .. import runner
        from . import c05
        c05.run(runner.Sub(ctx, 'R4', 'C05', only={'W2', 'R3'}), config)      # the thread half; lifetimes of borrows inside one thread are C05's own business
    # ---- R5 a collection never changes the arena it lives in (what arena B does must not depend on arena A's collections)
    from . import arenaid
    arenaid.check(ctx, db, 'R5')
