"""Formula clauses for Vec::drain_filter / DrainFilter (shared by C13.O2, C15, C16).

std's algorithm (vec.rs at the fork) is the reference.  State: slots [0, idx-del) kept, [idx-del, idx) holes,
[idx, old_len) unprocessed, vec.len == 0 while the iterator is alive.  Terms are folded to IDX / DEL / OLD / BASE:
the iterator's private fields are exclusively borrowed while user code (predicate, destructors) runs, so a re-read
after such a call denotes the same field value or the value stored by the method itself (store forwarding).
"""
from .. import arena, prover
from ..terms import *

IDX, DEL, OLD, FLAG, BASE, LEN = sym('IDX'), sym('DEL'), sym('OLD'), sym('FLAG'), sym('BASE'), sym('LEN')
FIELDS = {'DrainFilter.idx': IDX, 'DrainFilter.del': DEL, 'DrainFilter.old_len': OLD, 'DrainFilter.panic_flag': FLAG,
          'RawVec.ptr': BASE, 'Vec.len': LEN}
SZ = sym('sizeof(T)')


def fold(t):
    if not isinstance(t, tuple) or not t:
        return t
    if t[0] == 'load' and t[1][0] == 'fld':
        for suf, s in FIELDS.items():
            if t[1][2].endswith(suf):
                return s
    if t[0] == 'addr' and t[1][0] == 'idx' and t[1][1][0] == 'deref' and t[1][1][1][0] == 'agg' and t[1][1][1][1] == 'slice':
        sl = t[1][1][1]
        return ('elem', fold(field_of(sl, 'ptr')), fold(field_of(sl, 'len')), fold(t[1][2]))
    if t[0] == 'load' and t[1][0] == 'idx' and t[1][1][0] == 'deref' and t[1][1][1][0] == 'agg' and t[1][1][1][1] == 'slice':
        sl = t[1][1][1]
        return ('elemval', fold(field_of(sl, 'ptr')), fold(field_of(sl, 'len')), fold(t[1][2]))
    r = tuple(fold(x) if isinstance(x, tuple) else x for x in t)
    if r[0] == 'app':
        if r[1] == 'wsub':
            return app('sub', r[2], r[3])
        return simplify(r)
    return r


def elem_index(t):
    """the element index of an address folded to IDX/DEL/OLD/BASE form: v[i] through the slice view, or BASE + i * size_of::<T>()
    computed on the raw pointer (`as_mut_ptr().add(i)`, `cur.sub(del)`)"""
    if not isinstance(t, tuple) or not t:
        return None
    if t[0] == 'elem' and t[1] == BASE:
        return t[3]
    if t[0] == 'addr' and t[1][0] == 'deref':
        t = t[1][1]                     # &mut *p
    d, c = lin(t)
    if c != 0 or d.get(BASE) != 1:
        return None
    idx = {}
    for k, v in d.items():
        if k == BASE:
            continue
        if k[0] == 'app' and k[1] == 'mul' and SZ in k[2:]:
            o = [x for x in k[2:] if x != SZ]
            if len(o) != 1:
                return None
            idx[o[0]] = idx.get(o[0], 0) + v
        else:
            return None
    return from_lin(idx, 0)


def body_of(db, pred):
    for b in db.fn_bodies():
        if pred(b):
            return b
    return None


def own(r):
    return [e for e in r.events if e.is_own()]


def leq(a, b):
    return lin(a) == lin(b)


def check(ctx, config, rule):
    db = ctx.db(config)
    n = [0]

    def clause(fn, name, okv, detail='', span=None):
        n[0] += 1
        if okv:
            ctx.ok(rule, 'drain_filter/%s: %s' % (fn, name), 'term equality on IDX/DEL/OLD/BASE form')
        else:
            ctx.violation(rule, 'DrainFilter::' + fn, 'df:' + name.replace(' ', '_')[:60], 'drain_filter deviates from std in %s: %s %s' % (fn, name, detail), span)

    # ---- constructor
    b = body_of(db, lambda b: b['kind'] == 'assoc_fn' and (b['meta'].get('impl_adt') or '').endswith('vec::Vec') and b['meta'].get('name') == 'drain_filter')
    if b is None:
        ctx.anchor_missing(rule, 'Vec::drain_filter')
    else:
        I, r = arena.run_fn(ctx, b['id'], config)
        ev = own(r)
        sl = [e for e in ev if e.kind == 'call' and (e.callee or '').endswith('::set_len')]
        # ... or the same store made directly (`mem::replace(&mut self.len, 0)`, `self.len = 0`)
        zs = [e for e in r.events if e.kind == 'store' and e.lv == ('fld', ('deref', ('param', 1)), 'collections::vec::Vec.len')]
        zero_ok = (len(sl) == 1 and sl[0].args[0] == ('param', 1) and sl[0].args[1] == C(0)) or (not sl and len(zs) == 1 and zs[0].val == C(0))
        clause('new', 'vec.len := 0 before any element is handed out (leak amplification)', zero_ok, '', b.get('span'))
        ret = r.ret
        good = ret is not None and ret[0] == 'agg' and field_of(ret, 'idx') == C(0) and field_of(ret, 'del') == C(0) and field_of(ret, 'panic_flag') == C(0) \
            and field_of(ret, 'vec') == ('param', 1) and fold(field_of(ret, 'old_len')) == LEN
        # the length captured is the one before it was zeroed
        ol = field_of(ret, 'old_len') if ret is not None and ret[0] == 'agg' else None
        zero_epoch = sl[0].state.epoch if sl else (zs[0].state.epoch if zs else None)
        before = ol is not None and ol[0] == 'load' and zero_epoch is not None and ol[2] <= zero_epoch
        clause('new', 'DrainFilter { idx: 0, del: 0, old_len: len before zeroing, panic_flag: false }', good and before, show(ret)[:120] if ret else '', b.get('span'))
    # ---- next
    b = body_of(db, lambda b: 'DrainFilter<' in b['id'] and (b['meta'].get('impl_trait') or '').endswith('Iterator') and b['meta'].get('name') == 'next' and b['kind'] == 'assoc_fn')
    if b is None:
        ctx.anchor_missing(rule, 'DrainFilter::next')
    else:
        I, r = arena.run_fn(ctx, b['id'], config)
        ev = own(r)
        g = I.cfg(b)
        rets = set(g.returns())
        uc = [e for e in ev if e.kind == 'usercall']
        # exits with None exactly under idx == old_len
        none_edges = []
        for e in ev:
            if e.kind == 'branch':
                for f in e.extra['added']:
                    ff = tuple(fold(x) if isinstance(x, tuple) else x for x in f)
                    if ff in (('eq', IDX, OLD), ('eq', OLD, IDX)):
                        none_edges.append(e)
        clause('next', 'the scan stops exactly when idx == old_len', len(none_edges) == 1, '', b.get('span'))
        sls = [e for e in ev if e.kind == 'slice']
        ptr_form = not sls and len(uc) == 1 and elem_index(fold(uc[0].args[0])) is not None
        at = lambda a, want: fold(a) == ('elem', BASE, OLD, want) or (ptr_form and elem_index(fold(a)) is not None and leq(elem_index(fold(a)), want))
        if ptr_form:
            # no slice view: the elements are addressed as BASE + i * size_of::<T>(); the window is what the scan guard leaves
            okw = any(tuple(fold(x) if isinstance(x, tuple) else x for x in f) in (('ne', IDX, OLD), ('ne', OLD, IDX), ('lt', IDX, OLD)) for f in uc[0].state.facts)
            clause('next', 'the element window is from_raw_parts_mut(BASE, old_len)', okw)
        else:
            clause('next', 'the element window is from_raw_parts_mut(BASE, old_len)', len(sls) == 1 and fold(sls[0].args[0]) == BASE and fold(sls[0].args[1]) == OLD)
        clause('next', 'the predicate sees &mut v[idx]', len(uc) == 1 and at(uc[0].args[0], IDX), show(fold(uc[0].args[0]))[:80] if uc else '')
        st = {k: [e for e in ev if e.kind == 'store' and e.lv[0] == 'fld' and e.lv[2].endswith('DrainFilter.' + k)] for k in ('panic_flag', 'idx', 'del')}
        evs = r.events
        if uc:
            u = evs.index(uc[0])
            pf = st['panic_flag']
            clause('next', 'panic_flag is raised before and cleared after the predicate call', len(pf) == 2 and pf[0].val == C(1) and pf[1].val == C(0) and evs.index(pf[0]) < u < evs.index(pf[1]))
            ix = st['idx']
            clause('next', 'idx := idx + 1 only after the predicate returned', len(ix) == 1 and leq(fold(ix[0].val), app('add', IDX, C(1))) and evs.index(ix[0]) > u, show(fold(ix[0].val))[:60] if ix else '')
        dl = st['del']
        okd = len(dl) == 1 and leq(fold(dl[0].val), app('add', DEL, C(1))) and any(f[0] == 'true' and '<callable>' in repr(f[1]) for f in dl[0].state.facts)
        clause('next', 'del := del + 1 exactly when the predicate said drain', okd)
        rd = [e for e in ev if e.kind == 'call' and (e.callee or '').endswith('ptr::read')]
        clause('next', 'a drained element is read out of v[idx] (the index the predicate saw)', len(rd) == 1 and at(rd[0].args[0], IDX) and any(f[0] == 'true' and '<callable>' in repr(f[1]) for f in rd[0].state.facts))
        cp = [e for e in ev if e.kind == 'copy']
        okc = len(cp) == 1 and cp[0].callee == 'copy_nonoverlapping' and at(cp[0].args[0], IDX) and cp[0].args[2] == C(1)
        if okc:
            d = fold(cp[0].args[1])
            okc = (d[0] == 'elem' and d[1] == BASE and leq(d[3], app('sub', IDX, DEL))) or (ptr_form and elem_index(d) is not None and leq(elem_index(d), app('sub', IDX, DEL)))
        clause('next', 'a kept element moves from v[idx] to v[idx - del], one element', okc)
        if cp:
            fs = {tuple(fold(x) if isinstance(x, tuple) else x for x in f) for f in cp[0].state.facts}
            clause('next', 'the back-shift of a kept element happens exactly under del > 0 and !drained', (('lt', C(0), DEL) in fs or ('ne', C(0), DEL) in fs or ('ne', DEL, C(0)) in fs) and any(f[0] == 'nottrue' and '<callable>' in repr(f[1]) for f in cp[0].state.facts))
    # ---- BackshiftOnDrop::drop
    b = body_of(db, lambda b: 'BackshiftOnDrop' in b['id'] and b['meta'].get('name') == 'drop' and 'DrainFilter' in b['id'])
    if b is None:
        ctx.anchor_missing(rule, 'DrainFilter::drop::BackshiftOnDrop::drop')
    else:
        I, r = arena.run_fn(ctx, b['id'], config)
        ev = own(r)
        cp = [e for e in ev if e.kind == 'copy']
        sl = [e for e in ev if e.kind == 'call' and (e.callee or '').endswith('::set_len')]
        okc = len(cp) == 1 and cp[0].callee == 'copy'
        if okc:
            s0, d0, c0 = (fold(x) for x in cp[0].args[:3])
            okc = leq(s0, app('add', BASE, app('mul', IDX, SZ))) and leq(d0, app('sub', app('add', BASE, app('mul', IDX, SZ)), app('mul', DEL, SZ))) and leq(c0, app('sub', OLD, IDX))
        clause('backshift', 'unprocessed tail: memmove(BASE + idx -> BASE + idx - del, old_len - idx)', okc, '', b.get('span'))
        clause('backshift', 'vec.len := old_len - del', len(sl) == 1 and leq(fold(sl[0].args[1]), app('sub', OLD, DEL)))
        # the move may be skipped only when there is no tail (old_len <= idx) or no hole (del <= 0)
        bad = []
        if cp and sl:
            # an edge that leaves the path to the copy but still reaches set_len
            for e in arena.bypass_edges(I, r, ev, cp[0], sl[0]):
                fs = [tuple(fold(x) if isinstance(x, tuple) else x for x in f) for f in e.extra['added']]
                okf = any(f in (('le', OLD, IDX), ('eq', OLD, IDX), ('eq', IDX, OLD), ('le', DEL, C(0)), ('eq', DEL, C(0)), ('eq', C(0), DEL)) for f in fs)
                if not okf:
                    bad.append((e, fs))
        clause('backshift', 'the tail move is skipped only when old_len <= idx or del == 0', bool(cp) and bool(sl) and not bad, str([[tuple(show(x) if isinstance(x, tuple) else x for x in f) for f in fs] for _, fs in bad])[:160], bad[0][0].span if bad else None)
    # ---- DrainFilter::drop
    b = body_of(db, lambda b: b['kind'] == 'assoc_fn' and 'DrainFilter<' in b['id'] and 'BackshiftOnDrop' not in b['id'] and (b['meta'].get('impl_trait') or '').endswith('Drop') and b['meta'].get('name') == 'drop')
    if b is None:
        ctx.anchor_missing(rule, 'DrainFilter::drop')
    else:
        I, r = arena.run_fn(ctx, b['id'], config)
        ev = own(r)
        fe = [e for e in ev if e.kind == 'call' and (e.callee or '').endswith('for_each')]
        if not fe:
            # `while let Some(item) = drain.next() { drop(item) }`: the same exhaustion, spelled as a loop over next()
            fe = [e for e in ev if e.kind == 'call' and 'DrainFilter<' in (e.callee or '') and (e.callee or '').endswith('Iterator>::next') and e.fn == b['id']
                  and any(e.block in blks for blks in I.cfg(b).loops().values())]
        okf = len(fe) == 1 and any(tuple(fold(x) if isinstance(x, tuple) else x for x in f) in (('eq', FLAG, C(0)), ('eq', C(0), FLAG), ('nottrue', FLAG)) for f in fe[0].state.facts)
        clause('drop', 'remaining elements are consumed only if the predicate has not panicked (!panic_flag)', okf, '', b.get('span'))
        gd = [e for e in ev if e.kind == 'drop' and 'BackshiftOnDrop' in (e.extra.get('ty') or '')]
        clause('drop', 'the back-shift guard is armed before the remaining elements are consumed', bool(fe) and bool(gd))
    ctx.floor(rule, n[0], 16, 'drain_filter formula clauses')
