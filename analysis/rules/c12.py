"""C12 — the Allocator implementation obeys the allocator contract."""
from .. import arena, prover
from ..terms import *
from ..facts import loc
from . import c01, c04

EXPLANATION = ("TermFlow on the allocator_api2 Allocator impl and the private Alloc impl for &Bump, callees inlined: (R1) glue — allocate/shrink/grow return a slice whose pointer is the "
               "inherent method's result and whose length is size(requested layout); arguments are forwarded in order; grow_zeroed zero-fills exactly [size(old)..] of the block grow "
               "returned; realloc builds (new_size, align(old)) and dispatches on new_size <= size(old); (O2) returned pointers are aligned to the new layout and MIN_ALIGN, finger "
               "stores keep the chunk invariant, the in-place grow requests round_up(size(new),MIN_ALIGN)-size(old) bytes with align(old) under align(new) <= align(old) and "
               "is_last_allocation; (R3) copy discipline — counts are size(old) for grow and size(new) for shrink, every copy_nonoverlapping has a disjointness proof (fresh block "
               "from this call, or the halving lemma delta >= (old+1)/2 => new <= delta), otherwise the call must be ptr::copy; (R4) no store or copy precedes an Err return."
               ' (R4 also) a finger store that releases memory inside an inlined callee (dealloc before the fallback allocation) must not be followed by an Err return.')
RULE = "rule instance = (rule, entry, site); distinct by (rule, entry, site)"


def halving(P, n, delta):
    """L11: le(div2(x+1), delta) and delta <= x - n and n <= x  =>  n <= delta"""
    cd = P.canon(delta)
    for f in P.facts:
        if f[0] == 'le' and f[1][0] == 'app' and f[1][1] == 'div2' and P.canon(f[2]) == cd:
            x1 = f[1][2]
            x = app('sub', x1, C(1))
            if P.le(n, x) and P.le(delta, app('sub', x, n)):
                return True
    return False


def inherent_callee(I, res, nargs=4):
    """the unsafe inherent fn(&self, NonNull<u8>, Layout, ..) called from the entry's own frame"""
    for e in res.events:
        if e.kind == 'call' and len(e.stack) == 1 and e.callee:
            b = I.db.by_path.get(e.callee)
            if b and b['meta'].get('unsafe') and len(b['meta'].get('inputs') or []) == nargs and 'NonNull<u8>' in b['meta']['inputs'][1] and not b['meta'].get('impl_trait'):
                return e
    return None


def discover_roles(A):
    roles = {}
    for key in ('Allocator::shrink', 'Allocator::grow'):
        val = A.get(key)
        if val is None:
            continue
        I, res, body = val
        ce = inherent_callee(I, res)
        if ce is not None:
            roles[key] = ce.callee
    if len(roles) < 2 and A.get('Alloc::realloc'):
        # configurations without the Allocator impl: the private Alloc::realloc dispatches to the same two
        # inherent methods; the one that raises the finger (RECLAIM store in its own frame) is the shrinker
        I, res, body = A['Alloc::realloc']
        cands = []
        for e in res.events:
            if e.kind == 'call' and len(e.stack) == 1 and e.callee:
                b = I.db.by_path.get(e.callee)
                if b and b['meta'].get('unsafe') and len(b['meta'].get('inputs') or []) == 4 and 'NonNull<u8>' in b['meta']['inputs'][1] and not b['meta'].get('impl_trait'):
                    cands.append(e.callee)
        for c in dict.fromkeys(cands):
            raises = any(s.kind == 'store' and s.stack[-1][0] == c and arena.footer_field(s) and arena.footer_field(s)[1] == 'ptr' and arena.classify_finger_store(I, res, s) == 'RECLAIM' for s in res.events)
            roles.setdefault('Allocator::shrink' if raises else 'Allocator::grow', c)
    return roles


def run(ctx, config='rel-all'):
    if config == 'rel-default':
        return
    A = arena.analyse(ctx, config)
    db = ctx.db(config)
    ctx.assume("U blocks passed in are live blocks of this arena allocated with old_layout; Allocator::shrink gets new.size <= old.size, grow gets new.size >= old.size (trait contract)",
               "non-overlap with other live blocks follows from the C01 discipline (BUMP obligations are re-checked here for these entries)")
    p = lambda i: ('param', i)
    roles = {}
    # ---- R1 glue
    for key, (lay_param, kind) in {'Allocator::allocate': (2, 'alloc'), 'Allocator::shrink': (4, 'resize'), 'Allocator::grow': (4, 'resize'), 'Allocator::grow_zeroed': (4, 'zeroed')}.items():
        val = A.get(key)
        if val is None:
            ctx.anchor_missing('R1', key)
            continue
        I, res, body = val
        fn = key
        pays = arena.success_payloads(I, res)
        if not pays:
            ctx.violation('R1', fn, 'no-success', 'no success return found')
        for i, (t, facts) in enumerate(pays):
            if t[0] == 'agg' and t[1] == 'slice' and field_of(t, 'len') == app('size', p(lay_param)):
                ctx.ok('R1', '%s: returned slice has len == size(requested layout)' % fn, 'alternative %d' % i)
            else:
                ctx.violation('R1', fn, 'return:len', 'the returned block is described as %s; its length must be size(new layout)' % show(t)[:120], body.get('span'))
        if kind == 'alloc':
            calls = [e for e in res.events if e.kind == 'call' and len(e.stack) == 1 and e.callee and 'NonNull<u8>' in ((I.db.by_path.get(e.callee) or {}).get('meta', {}).get('output') or '')]
            if calls and calls[0].args[1] == p(2):
                ctx.ok('R1', '%s forwards its layout to %s' % (fn, arena.short(calls[0].callee)), 'argument identity')
            else:
                ctx.violation('R1', fn, 'forward', 'allocate does not forward its layout unchanged', body.get('span'))
        elif kind == 'resize':
            ce = inherent_callee(I, res)
            if ce is not None and ce.args[1:] == [p(2), p(3), p(4)]:
                ctx.ok('R1', '%s forwards (ptr, old_layout, new_layout) in order to %s' % (fn, arena.short(ce.callee)), 'argument identity')
                roles[key] = ce.callee
            else:
                ctx.violation('R1', fn, 'forward', '%s does not forward (ptr, old, new) in order to the inherent method' % key, body.get('span'))
        else:
            calls = [e for e in res.events if e.kind == 'call' and len(e.stack) == 1 and (e.extra.get('trait_path') or '').endswith('Allocator::grow')]
            if calls and calls[0].args == [p(1), p(2), p(3), p(4)]:
                ctx.ok('R1', 'grow_zeroed calls grow(self, ptr, old, new)', 'argument identity')
            else:
                ctx.violation('R1', fn, 'forward', 'grow_zeroed does not call grow with its own arguments', body.get('span'))
            fills = [e for e in res.events if e.kind == 'copy' and e.callee == 'fill' and len(e.stack) == 1]
            okf = False
            if len(fills) == 1:
                tgt, v = fills[0].args[0], fills[0].args[1]
                if tgt[0] == 'call' and tgt[1].endswith('index_mut') and v == C(0):
                    base, rng = tgt[2][0], tgt[2][1]
                    grown = calls[0].ret if calls else None
                    gp = [arena.pointer_of(t) for t, _ in arena.success_payloads(I, type('R', (), {'ret': grown, 'ret_state': res.ret_state})())] if grown is not None else []
                    base_ptr = arena.pointer_of(base)
                    okf = rng[0] == 'agg' and rng[1].endswith('RangeFrom') and field_of(rng, 'start') == app('size', p(3)) and (base_ptr in gp or any(base_ptr == g for g in gp))
            loop_fill = None
            if not fills:
                # the same fill written as `for byte in block[old..].iter_mut() { *byte = 0 }`
                own = [e for e in res.events if len(e.stack) == 1]
                im = [e for e in own if e.kind == 'call' and (e.callee or '').endswith('<impl [T]>::iter_mut')]
                nx = [e for e in own if e.kind == 'call' and 'IterMut<' in (e.callee or '') and (e.callee or '').endswith('Iterator>::next')]
                zs = [e for e in own if e.kind == 'store' and e.val == C(0) and nx and nx[0].ret in subterms(e.lv)]
                src_ok = False
                if len(im) == 1 and len(nx) == 1 and nx[0].args and nx[0].args[0][0] == 'addr' and nx[0].args[0][1][0] == 'local':
                    itl = nx[0].args[0][1][2]
                    # the iterator the loop advances is the one made from that slice (its value at loop entry)
                    inits = [rec['init'].get(itl) for (bid, h), rec in res.loops.items() if bid == body['id'] and itl in rec['init']]
                    src_ok = any(v is not None and im[0].ret in subterms(v) for v in inits)
                if len(im) == 1 and len(nx) == 1 and len(zs) == 1 and src_ok:
                    tgt = im[0].args[0]
                    if tgt[0] == 'call' and tgt[1].endswith('index_mut') and arena.foreach_loop(I, res, body, nx[0], zs[0]):
                        base, rng = tgt[2][0], tgt[2][1]
                        grown = calls[0].ret if calls else None
                        gp = [arena.pointer_of(t) for t, _ in arena.success_payloads(I, type('R', (), {'ret': grown, 'ret_state': res.ret_state})())] if grown is not None else []
                        base_ptr = arena.pointer_of(base)
                        okf = rng[0] == 'agg' and rng[1].endswith('RangeFrom') and field_of(rng, 'start') == app('size', p(3)) and base_ptr in gp
                        loop_fill = nx[0]       # every successful path must run the loop (its header); an empty tail runs it zero times
            if okf:
                ctx.ok('R6', 'grow_zeroed zero-fills exactly [size(old)..] of the grown block', 'fill(index_mut(block, size(old)..), 0)')
            else:
                ctx.violation('R6', fn, 'zero-tail', 'grow_zeroed must fill exactly block[old_layout.size()..] with 0', body.get('span'))
            # ... on EVERY successful return: what is returned is the grown (and filled) block, and no path from the grow call
            # reaches a return around the fill except through the failure edge of grow's result
            if calls and (fills or loop_fill is not None):
                fill_block = fills[0].block if fills else loop_fill.block
                grown = calls[0].ret
                gp = [arena.pointer_of(t) for t, _ in arena.success_payloads(I, type('R', (), {'ret': grown, 'ret_state': res.ret_state})())]
                stray = [t for t, _ in pays if arena.pointer_of(t) not in gp]
                g = I.cfg(body)
                err_edges = set()
                for e in res.events:
                    if e.kind == 'branch' and len(e.stack) == 1 and any(f[0] == 'is' and f[2] in ('Err', 'Break') for f in e.extra['added']):
                        err_edges.add((e.block, e.extra['target']))
                around = set(g.returns()) & g.reach([calls[0].block], avoid_blocks=[fill_block], avoid_edges=err_edges)
                early = [bi for bi in g.returns() if not g.can_reach(calls[0].block, bi)] if len(g.returns()) > 1 else []
                if not stray and not around and not early:
                    ctx.ok('R6', 'grow_zeroed: every successful return hands out the block that grow returned, after the zero fill', 'payload identity + must-pass-through(fill) on the paths from the grow call')
                else:
                    ctx.violation('R6', fn, 'zero-tail:every-path', 'grow_zeroed has a successful return that does not go through grow + the zero fill (%s)' % ('block from another source: ' + show(stray[0])[:80] if stray else 'a path around the fill'), body.get('span'))
    val = A.get('Allocator::deallocate')
    if val:
        I, res, body = val
        ce = inherent_callee(I, res, nargs=3)
        if ce is not None and ce.args[1:] == [p(2), p(3)]:
            ctx.ok('R1', 'deallocate forwards (ptr, layout) to %s' % arena.short(ce.callee), 'argument identity')
        else:
            ctx.violation('R1', 'Allocator::deallocate', 'forward', 'deallocate does not forward (ptr, layout)', body.get('span'))
    val = A.get('Alloc::realloc')
    if val:
        I, res, body = val
        newl = ('layout', p(4), app('align', p(3)))
        calls = [e for e in res.events if e.kind == 'call' and len(e.stack) == 1 and e.callee in roles.values()]
        seen = set()
        for e in calls:
            role = [k for k, v in roles.items() if v == e.callee][0]
            seen.add(role)
            args_ok = e.args[1:] == [p(2), p(3), newl]
            P = prover.Prover(I, e.state.facts)
            guard = P.le(p(4), app('size', p(3))) if role == 'Allocator::shrink' else P.lt(app('size', p(3)), p(4))
            if args_ok and guard:
                ctx.ok('R1', 'realloc -> %s(ptr, layout, Layout(new_size, align(layout))) under %s' % (arena.short(e.callee), 'new_size <= old_size' if role.endswith('shrink') else 'new_size > old_size'), 'argument identity + must-fact')
            else:
                ctx.violation('R1', 'Alloc::realloc', 'dispatch:' + role.split('::')[1], 'realloc calls %s with %s (guard established: %s)' % (arena.short(e.callee), [show(a)[:40] for a in e.args[1:]], guard), e.span)
        if roles and seen != set(roles):
            ctx.violation('R1', 'Alloc::realloc', 'dispatch:missing', 'realloc does not dispatch to both shrink and grow')
    for k, v in discover_roles(A).items():
        roles.setdefault(k, v)
    # ---- O2 alignment of results + chunk invariant at stores (shared machinery)
    specs = c04.entry_specs()
    for key in ('Allocator::allocate', 'Allocator::shrink', 'Allocator::grow', 'Allocator::grow_zeroed', 'Alloc::realloc', 'Allocator::deallocate', 'Alloc::dealloc'):
        val = A.get(key)
        if val is None:
            continue
        I, res, body = val
        req, axl = specs.get(key, (None, []))
        axioms = set(axl) | set(c01.ENTRY_AXIOMS.get(key, ()))
        for i, (t, facts) in enumerate(arena.success_payloads(I, res) if req is not None else []):
            ptr = arena.pointer_of(t)
            ax = set(axioms)
            for e in res.events:
                if e.kind == 'store' and arena.bump_field(e) and arena.bump_field(e)[1] == 'current_chunk_footer':
                    ax.add(('footer', e.val))
            P = prover.Prover(I, facts, extra_axioms=ax)
            for nm, d in (('align(new layout)', app('align', req)), ('MIN_ALIGN', arena.MIN)):
                if P.aligned(ptr, d):
                    ctx.ok('O2', '%s alternative %d aligned to %s' % (key, i, nm), show(ptr)[:80])
                else:
                    ctx.violation('O2', key, 'return:' + nm, 'returned block %s not provably aligned to %s' % (show(ptr)[:160], nm), body.get('span'))
        ords = c01.ordinal_keys([e for e in res.events if e.kind == 'store'])
        for e in res.events:
            if e.kind == 'store' and arena.footer_field(e) and arena.footer_field(e)[1] == 'ptr':
                fn = arena.short(arena.innermost(e))
                c01.check_finger_store(ctx, key, I, res, e, fn, ords.get((fn, e.block, e.span), 0), '%s [%s]' % (loc(e.span), arena.stack_str(e)), axioms, rules={'R1': 'O2', 'O2': 'O2', 'R3': 'O2'})
    # in-place grow request
    val = A.get('Allocator::grow')
    if val and 'Allocator::grow' in roles:
        I, res, body = val
        gfr = [e for e in res.events if e.kind == 'call' and e.callee == roles['Allocator::grow'] and len(e.stack) == 1]
        inner = [e for e in res.events if e.kind == 'call' and len(e.stack) >= 2 and arena.owner_fn(I, e) == roles['Allocator::grow'] and e.args and len(e.args) == 2
                 and e.args[1][0] == 'layout' and ('Option<' in ((I.db.by_path.get(e.callee) or {}).get('meta', {}).get('output') or '') and 'NonNull<u8>' in ((I.db.by_path.get(e.callee) or {}).get('meta', {}).get('output') or ''))]
        if inner:
            e = inner[0]
            L = e.args[1]
            P = prover.Prover(I, e.state.facts)
            want = ('app', 'wsub', app('round_up', app('size', p(4)), arena.MIN), app('size', p(3)))
            ok_sz = L[1] == want or P.eq(L[1], app('sub', app('round_up', app('size', p(4)), arena.MIN), app('size', p(3))))
            ok_al = L[2] == app('align', p(3))
            ok_gate = P.le(app('align', p(4)), app('align', p(3))) and bool(arena.reclaim_precondition(I, e, cur_footer(e)))
            for nm, okv in (('requests round_up(size(new), MIN_ALIGN) - size(old) bytes', ok_sz), ('with align(old)', ok_al), ('under align(new) <= align(old) and is_last_allocation(ptr)', ok_gate)):
                if okv:
                    ctx.ok('O2', 'in-place grow %s' % nm, show(L)[:100])
                else:
                    ctx.violation('O2', arena.short(roles['Allocator::grow']), 'in-place:' + nm.split(' ')[0], 'the in-place grow path %s does not hold (layout %s)' % (nm, show(L)[:120]), e.span)
        else:
            ctx.violation('O2', arena.short(roles['Allocator::grow']), 'in-place:missing', 'grow has no in-place extension path through the bumping function')
    copy_discipline(ctx, A, roles, specs, 'R3', 7)
    must_copy(ctx, A, 'R7')
    stays_put_fits(ctx, A, 'R8')
    check_err_untouched(ctx, db, config, roles, 'R4')
    check_alloc_defaults(ctx, db, config, 'R5')


def check_alloc_defaults(ctx, db, config, RULE='R5'):
    """the provided methods of the crate's Alloc trait that the collections go through (alloc_zeroed, alloc_array,
    usable_size, grow_in_place / shrink_in_place) and the &Bump impl's dealloc"""
    p = lambda i: ('param', i)
    n = 0

    def fn(path_suffix):
        bs = [b for b in db.fn_bodies() if b['kind'] == 'assoc_fn' and b['id'].endswith(path_suffix)]
        if not bs:
            ctx.anchor_missing(RULE, path_suffix)
        return bs[0] if bs else None

    def verdict(name, okv, what, b):
        if okv:
            ctx.ok(RULE, '%s: %s' % (name, what), 'call / return term identity')
        else:
            ctx.violation(RULE, name, 'default:' + what.replace(' ', '_')[:50], '%s must be: %s' % (name, what), b.get('span'))
    b = fn('alloc::Alloc::alloc_zeroed')
    if b:
        I, r = arena.run_fn(ctx, b['id'], config)
        own = [e for e in r.events if len(e.stack) == 1]
        al = [e for e in own if e.kind == 'call' and (e.extra.get('trait_path') or '') == 'alloc::Alloc::alloc']
        wb = [e for e in own if e.kind == 'copy' and e.callee == 'write_bytes']
        okv = len(al) == 1 and al[0].args == [p(1), p(2)] and len(wb) == 1 and wb[0].args[1] == C(0) and wb[0].args[2] == app('size', p(2)) and al[0].ret in subterms(wb[0].args[0]) and r.ret == al[0].ret
        n += 1
        verdict('Alloc::alloc_zeroed', okv, 'alloc(layout), then exactly layout.size() zero bytes written at the returned pointer, which is returned', b)
    b = fn('alloc::Alloc::alloc_array')
    if b:
        I, r = arena.run_fn(ctx, b['id'], config)
        own = [e for e in r.events if len(e.stack) == 1]
        la = [e for e in own if e.kind == 'call' and (e.callee or '').endswith('Layout::array')]
        al = [e for e in own if e.kind == 'call' and (e.extra.get('trait_path') or '') == 'alloc::Alloc::alloc']
        okv = len(la) == 1 and la[0].args == [p(2)] and len(al) == 1 and al[0].args[0] == p(1) and la[0].ret in subterms(al[0].args[1]) and any(f[0] == 'lt' and f[1] == C(0) for f in al[0].state.facts)
        n += 1
        verdict('Alloc::alloc_array', okv, 'alloc(Layout::array::<T>(n)) only for a non-zero size, Err otherwise', b)
    b = fn('alloc::Alloc::usable_size')
    if b:
        I, r = arena.run_fn(ctx, b['id'], config)
        sz = app('size', p(2))
        okv = r.ret is not None and r.ret[0] == 'agg' and [v for _, v in r.ret[3]] == [sz, sz]
        n += 1
        verdict('Alloc::usable_size', okv, '(layout.size(), layout.size())', b)
    for name in ('grow_in_place', 'shrink_in_place'):
        b = fn('alloc::Alloc::' + name)
        if b:
            I, r = arena.run_fn(ctx, b['id'], config)
            alts = [t for t, _ in arena.alternatives(I, r.ret, set())] if r.ret is not None else []
            us = [e for e in r.events if len(e.stack) == 1 and e.kind == 'call' and (e.extra.get('trait_path') or '') == 'alloc::Alloc::usable_size']
            okv = len(us) == 1 and {t[2] for t in alts if t[0] == 'agg'} == {'Ok', 'Err'} and not [e for e in r.events if e.kind in ('store', 'copy')]
            n += 1
            verdict('Alloc::' + name, okv, 'a pure test against usable_size (no memory is touched): Ok or Err(CannotReallocInPlace)', b)
    b = fn("Bump<MIN_ALIGN> as alloc::Alloc>::dealloc")
    if b:
        I, r = arena.run_fn(ctx, b['id'], config)
        ce = [e for e in r.events if len(e.stack) == 1 and e.kind == 'call' and (e.callee or '').endswith('Bump::<MIN_ALIGN>::dealloc')]
        okv = len(ce) == 1 and ce[0].args[1:] == [p(2), p(3)]
        n += 1
        verdict('<&Bump as Alloc>::dealloc', okv, 'forwards (ptr, layout) to Bump::dealloc', b)
    ctx.floor(RULE, n, 6, 'provided methods of the Alloc trait used by the collections')


def check_err_untouched(ctx, db, config, roles, RULE='R4'):
    # ---- R4 error leaves the block untouched
    for key, callee in roles.items():
        b = db.by_path.get(callee)
        if not b:
            continue
        J, r = arena.run_fn(ctx, b['id'], config)
        g = J.cfg(b)
        fail_blocks = set()
        for bi in g.reachable:
            blk = b['blocks'][bi]
            for s in blk['stmts']:
                if s['k'] == 'assign' and s['place']['l'] == 0 and not s['place']['proj'] and s['rv']['k'] == 'agg' and s['rv'].get('variant', '').split('#')[0] in ('None', 'Err'):
                    fail_blocks.add(bi)
            t = blk['term']
            if t['k'] == 'call' and t['dest']['l'] == 0 and (t['callee'].get('path') or '').endswith('FromResidual::from_residual'):
                fail_blocks.add(bi)
        bad = 0
        for e in r.events:
            if len(e.stack) == 1 and (e.kind == 'copy' or (e.kind == 'store' and arena.footer_field(e))):
                if g.reach([e.block]) & fail_blocks:
                    bad += 1
                    ctx.violation(RULE, arena.short(callee), 'effect-then-Err', 'a %s is followed by a path that returns Err: the caller still owns the original block, which may have been moved or clobbered' % e.kind, e.span)
            elif len(e.stack) > 1 and e.kind == 'store' and arena.footer_field(e) and arena.footer_field(e)[1] == 'ptr':
                # a finger store in an inlined callee that *releases* memory (raises the finger): the caller's block is given up
                cls = arena.classify_finger_store(J, r, e)
                if cls in ('RECLAIM', 'SAVED', 'EMPTY', 'FULL', 'OTHER') or cls.startswith('MIXED'):
                    if g.reach([e.stack[1][1]]) & fail_blocks:
                        bad += 1
                        ctx.violation(RULE, arena.short(callee), 'release-then-Err', 'the block is released (%s finger store in %s) on a path that can still return Err: on failure the caller keeps a block the arena will hand out again' % (cls, arena.short(arena.innermost(e))), e.span)
        if not bad:
            ctx.ok(RULE, '%s: no own store/copy can be followed by an Err return (%d failure blocks)' % (arena.short(callee), len(fail_blocks)), 'CFG reachability')


def copy_discipline(ctx, A, roles, specs, RULE_NAME, floor):
    p = lambda i: ('param', i)
    # ---- R3 copy discipline
    ncopy = 0
    for key, role_n in (('Allocator::shrink', 4), ('Allocator::grow', 3), ('Alloc::realloc', None)):
        val = A.get(key)
        if val is None:
            continue
        I, res, body = val
        axioms = set(specs[key][1]) | set(c01.ENTRY_AXIOMS.get(key, ()))
        fresh_ptrs = []
        for e in res.events:
            if e.kind == 'call' and e.callee and e.ret is not None and is_fallible_alloc(I, e.callee) and e.callee not in roles.values():
                fresh_ptrs.append(I.project_variant(None, e.ret, 'Ok', '0'))
        for e in res.events:
            if e.kind != 'copy' or e.callee == 'fill':
                continue
            ncopy += 1
            fn = arena.short(arena.innermost(e))
            src, dst, n = e.args[0], e.args[1], e.args[2]
            # the frame of the inherent shrink / grow the copy belongs to: the innermost frame, or the function a private
            # helper / closure it sits in was extracted from
            stk = e.stack
            while len(stk) > 1 and stk[-1][0] not in roles.values() and I.exclusive_helper(stk[-1][0], stk[-2][0]):
                stk = stk[:-1]
            if stk[-1][0] not in roles.values():
                # a helper shared by shrink and grow: in this call stack the copy belongs to the nearest enclosing
                # inherent shrink / grow (the count is already expressed in that caller's terms)
                k = len(e.stack)
                while k > 1 and e.stack[k - 1][0] not in roles.values():
                    k -= 1
                if e.stack[k - 1][0] in roles.values():
                    stk = e.stack[:k]
            frame_fn = stk[-1][0]
            if frame_fn == roles.get('Allocator::shrink'):
                want_n = app('size', e.state.env.get((stk, 4)))
                what = 'size(new)'
            elif frame_fn == roles.get('Allocator::grow'):
                want_n = app('size', e.state.env.get((stk, 3)))
                what = 'size(old)'
            else:
                want_n, what = None, '?'
            P = arena.mk_prover(I, e, res, axioms | arena.reclaim_precondition(I, e, cur_footer(e)))
            if want_n is not None and (n == want_n or P.eq(n, want_n)):
                ctx.ok(RULE_NAME, '%s via %s: copies %s bytes = min(old,new)' % (fn, key, what), show(n)[:60])
            else:
                ctx.violation(RULE_NAME, fn, 'copy:count', 'copies %s bytes; expected %s (the first min(old,new) bytes must be preserved, no more)' % (show(n)[:80], what), e.span)
            if e.callee == 'copy':
                ctx.ok(RULE_NAME, '%s via %s: overlapping-safe ptr::copy' % (fn, key), 'memmove semantics')
                continue
            if dst in fresh_ptrs or any(dst == f for f in fresh_ptrs):
                ctx.ok(RULE_NAME, '%s via %s: copy_nonoverlapping into a block freshly allocated in this call' % (fn, key), 'fresh (disjoint from the live source block by C01)')
                continue
            delta = P.norm(app('sub', P.canon(dst), P.canon(src)))
            if halving(P, n, delta) or P.le(n, delta):
                ctx.ok(RULE_NAME, '%s via %s: copy_nonoverlapping with n <= dst - src' % (fn, key), 'L11 halving lemma: delta >= (old+1)/2 and delta <= old - new')
            else:
                ctx.violation(RULE_NAME, fn, 'copy:overlap', 'copy_nonoverlapping(%s -> %s, %s) has no disjointness proof (not a fresh block, and n <= dst - src is not entailed): must be ptr::copy or guarded' % (show(src)[:40], show(dst)[:80], show(n)[:40]), e.span)
    ctx.floor(RULE_NAME, ncopy, floor, 'copy sites in shrink/grow over the entry points')


def must_copy(ctx, A, RULE='R7'):
    """'keeps the first min(old,new) bytes': a successful shrink / grow / realloc either returns the caller's pointer itself
    (the bytes stay where they are) or a pointer that is the destination of a copy from the caller's block made in this call.
    (How many bytes, and that source and destination may overlap, is R3; this rule is about the copy being there at all: a
    moved block whose contents were left behind passes every extent check.)"""
    n = 0
    for key in ('Allocator::shrink', 'Allocator::grow', 'Alloc::realloc'):
        val = A.get(key)
        if val is None:
            continue
        I, res, body = val
        src_ptr = ('param', 2)
        covered = {src_ptr}
        for e in res.events:
            if e.kind == 'copy' and e.callee != 'fill' and e.args[0] == src_ptr:
                covered.update(arena.phi_leaves(e.args[1]))
        missing = []
        nalt = 0
        old_sz = app('size', ('param', 3))
        for t, fs in arena.success_payloads(I, res):
            if any(f[0] == 'eq' and len(f) == 3 and set(f[1:]) == {C(0), old_sz} for f in fs):
                continue        # nothing to keep: the old block is empty on this path
            for x in arena.phi_leaves(arena.pointer_of(t)):
                nalt += 1
                if x not in covered:
                    missing.append(x)
        n += 1
        fn = arena.short(body['id'])
        if nalt and not missing:
            ctx.ok(RULE, '%s: every pointer it can return is the caller\'s own or the destination of a copy from the caller\'s block' % key, '%d return alternatives' % nalt)
        else:
            ctx.violation(RULE, fn, 'moved-without-copy', '%s can return %s, which is neither the block it was given nor the destination of a copy from it: the first min(old,new) bytes are not preserved' % (key, show(missing[0])[:100] if missing else 'nothing'), body.get('span'))
    ctx.floor(RULE, n, 2, 'reallocating entry points checked for the copy')


def stays_put_fits(ctx, A, RULE='R8'):
    """a block handed back *where it was* by a growing call must fit inside what the caller owned: the caller owns exactly
    size(old) bytes at ptr (what lies behind them - alignment padding or a neighbour - is the arena's business, and after a
    shrink that raised the alignment in place it is a live neighbour), so on every successful return of grow / realloc whose
    pointer is the caller's own pointer, size(new) <= size(old) must follow from the facts of that path. (A block that moved is
    covered by the bump obligations and R7.)"""
    n = 0
    for key, newsz in (('Allocator::grow', app('size', ('param', 4))), ('Alloc::realloc', ('param', 4)), ('Bump::grow', app('size', ('param', 4)))):
        val = A.get(key)
        if val is None:
            continue
        I, res, body = val
        src_ptr = ('param', 2)
        old_sz = app('size', ('param', 3))
        fn = arena.short(body['id'])
        n += 1
        nalt = nsame = 0
        for t, fs in arena.success_payloads(I, res):
            for x in arena.phi_leaves(arena.pointer_of(t)):
                nalt += 1
                if x != src_ptr:
                    continue
                nsame += 1
                P = prover.Prover(I, fs)
                if P.vacuous() or P.le(newsz, old_sz):
                    ctx.ok(RULE, '%s: returns the caller\'s pointer only where size(new) <= size(old)' % key, 'path facts')
                else:
                    ctx.violation(RULE, fn, 'grown-in-place-without-reserving', '%s can return the caller\'s own pointer on a path where size(new) <= size(old) is not entailed: the bytes behind the old block were never reserved for it (they may belong to a live neighbour)' % key, body.get('span'))
        if not nsame:
            ctx.ok(RULE, '%s: never returns the caller\'s pointer unchanged (%d return alternatives)' % (key, nalt), 'success payloads')
    ctx.floor(RULE, n, 2, 'growing entry points checked for blocks returned in place')


def is_fallible_alloc(I, callee):
    out = ((I.db.by_path.get(callee) or {}).get('meta', {}).get('output') or '')
    return 'Result<' in out and 'NonNull<u8>' in out


def cur_footer(e):
    for k, v in e.state.mem.items():
        pass
    # the current footer as the code last loaded it: search the facts/args for load(.. current_chunk_footer)
    for f in e.state.facts:
        for t in subterms(f):
            if isinstance(t, tuple) and t and t[0] == 'load' and t[1][0] == 'fld' and t[1][2].endswith('.current_chunk_footer'):
                return t
    return ('opaque', 0, 'nofooter')


