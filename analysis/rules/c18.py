"""C18 — requested capacity is honoured and growth is geometric (the formulas behind it)."""
from .. import arena, prover
from ..terms import *
from ..facts import loc
from . import c01

EXPLANATION = ("TermFlow formulas: (O6) refusal is exact — every edge of the bumping function that leads to the None return carries a strict fact capacity < need (or the rounding "
               "overflow, or aligned finger < chunk start), with capacity = finger - data and need = round_up(size, MIN_ALIGN or align): an exact fit is served; (O1) the first chunk "
               "built from a capacity can hold round_up(capacity, MIN_ALIGN) and starts empty; (O2) chunk_capacity() is finger - data, the very term the fast path compares; "
               "(O3) the slow path's first candidate is max(2 * (size(current layout) - FOOTER_SIZE), size(request), default), later candidates only halve, and the chunk obtained is at "
               "least as large as its candidate; (O4) RawVec's amortized size is max(2*cap, used+extra) with a checked sum; (R5) with_capacity_in records exactly the requested capacity "
               "and push reserves only under len == cap."
               ' (O5) growth strategy constant per entry point; (O7) the chunk-acquiring slow path is only called after the bumping function refused the same layout; (O8) every growing primitive reserves exactly the number of elements it adds.')
RULE = "rule instance = (rule, function/site); distinct by (rule, function, site)"


def fail_blocks_of(b, g):
    out = set()
    for bi in g.reachable:
        blk = b['blocks'][bi]
        for s in blk['stmts']:
            if s['k'] == 'assign' and s['place']['l'] == 0 and not s['place']['proj'] and s['rv']['k'] == 'agg' and s['rv'].get('variant', '').split('#')[0] in ('None', 'Err'):
                out.add(bi)
        t = blk['term']
        if t['k'] == 'call' and t['dest']['l'] == 0 and (t['callee'].get('path') or '').endswith('FromResidual::from_residual'):
            out.add(bi)
    return out


def check_exact_refusal(ctx, A, config, RULE_NAME):
    # ---- O6 exact refusal in the bumping function
    val = A.get('try_alloc_layout')
    if not val:
        ctx.anchor_missing(RULE_NAME, 'Bump::try_alloc_layout')
        return None
    I, res, body = val
    fast_ids = {arena.innermost(e) for e in res.events if e.kind == 'store' and arena.footer_field(e) and arena.footer_field(e)[1] == 'ptr' and arena.classify_finger_store(I, res, e) == 'BUMP'}
    n6 = 0
    for fid in sorted(fast_ids):
        b = I.bodies.get(fid)
        J, r = arena.run_fn(ctx, b['id'], config)
        g = J.cfg(b)
        fb = fail_blocks_of(b, g)
        store_blocks = {e.block for e in r.events if e.kind == 'store' and len(e.stack) == 1 and arena.footer_field(e)}
        L = ('param', 2)
        F = ('load', ('fld', ('deref', ('param', 1)), 'Bump.current_chunk_footer'), 0)
        fin = arena.loadf(F, 'ptr')
        data = arena.loadf(F, 'data')
        # blocks that make the value under construction a failure (`None` / `Err(..)` assigned to any local): an arm that
        # evaluates to None and is tested by a later `?` refuses just like an early `return None`
        none_blocks = set()
        for bi in g.reachable:
            for s_ in b['blocks'][bi]['stmts']:
                if s_['k'] == 'assign' and not s_['place']['proj'] and s_['rv']['k'] == 'agg' and s_['rv'].get('variant', '').split('#')[0] in ('None', 'Err'):
                    none_blocks.add(bi)
        for e in r.events:
            if e.kind != 'branch' or len(e.stack) != 1:
                continue
            t = e.extra['target']
            reach = g.reach([t])
            if (g.reach([t], avoid_blocks=none_blocks) & store_blocks) or not (reach & fb):
                continue
            # refusal edge
            if not (g.reach([e.block], avoid_blocks=none_blocks) & store_blocks):
                continue     # already inside a refusal region
            n6 += 1
            added = e.extra['added']
            about_space = lambda f: any(isinstance(t, tuple) and t and ((t[0] == 'load' and t[1][0] == 'fld' and t[1][2].startswith('ChunkFooter.')) or (t[0] == 'app' and t[1] == 'round_up')) for t in subterms(f))
            strict = [f for f in added if f[0] == 'lt' and about_space(f)]
            nonstrict = [f for f in added if f[0] == 'le' and about_space(f)]
            overflow = [f for f in added if f[0] == 'is' and f[2] in ('None', 'Break')]
            where = 'bb%d->bb%d' % (e.block, t)
            if overflow and not strict and not nonstrict:
                ctx.ok(RULE_NAME, '%s %s: refusal on rounding overflow' % (arena.short(fid), where), 'is(checked_add, None)')
                continue
            good = False
            for f in strict:
                capt, need = f[1], f[2]
                P = prover.Prover(J, e.state.facts)
                def ok_need(nd, depth=0):
                    # the amount the request needs: round_up(size, MIN_ALIGN | align), possibly chosen per branch and merged
                    if nd[0] == 'phi' and depth < 3:
                        return all(ok_need(x, depth + 1) for _, x in nd[2])
                    return nd[0] == 'app' and nd[1] == 'round_up' and nd[2] == app('size', L) and nd[3] in (arena.MIN, app('align', L))
                if ok_need(need):
                    base = capt[2] if capt[0] == 'app' and capt[1] in ('wsub', 'sub') and len(capt) == 4 else None
                    low = capt[3] if capt[0] == 'app' and capt[1] in ('wsub', 'sub') and len(capt) == 4 else None
                    if low == data and (base == fin or (base is not None and base[0] == 'app' and base[1] == 'round_down' and base[2] == fin)):
                        good = True
                if need == data and capt[0] == 'app' and capt[1] == 'round_down' and capt[2] == fin:
                    good = True      # aligned finger below the chunk start
            if good:
                ctx.ok(RULE_NAME, '%s %s: refuses only when capacity < need (strict)' % (arena.short(fid), where), '; '.join(show(x)[:50] for x in strict[0][1:]))
            else:
                ctx.violation(RULE_NAME, arena.short(fid), 'refusal:' + ('nonstrict' if nonstrict else 'shape'),
                              'an edge to the None return is taken under %s; a request must be refused only when finger - data < round_up(size, MIN_ALIGN|align) strictly (an exact fit must be served)' % ([ (f[0],) + tuple(show(x)[:60] for x in f[1:]) for f in (nonstrict or list(added))][:2]), e.span)
    ctx.floor(RULE_NAME, n6, 5, 'refusal edges of the bumping function')
    return val


def check_slow_path_guard(ctx, db, config, RULE='O7'):
    # ---- O7 a new chunk is requested only after the current chunk refused the request: the chunk-acquiring slow path is
    # called from one place, under the None fact of the bumping function for the same layout.  (Going to the slow path
    # directly obtains a doubled chunk per call although the current one has room: linear chunk count, unbounded overhead.)
    slow = [b for b in db.fn_bodies() if b['kind'] == 'assoc_fn' and b['meta'].get('impl_adt') == 'Bump' and b['meta'].get('name') == 'alloc_layout_slow']
    if not slow:
        ctx.anchor_missing(RULE, 'Bump::alloc_layout_slow')
    else:
        callers = db.callers_of(slow[0]['meta']['path']) + [c for c in db.callers_of(slow[0]['id']) if c not in db.callers_of(slow[0]['meta']['path'])]
        seen = set()
        n7 = 0
        for cb, bi, t in callers:
            if (cb['id'], bi) in seen:
                continue
            seen.add((cb['id'], bi))
            n7 += 1
            fn = arena.short(cb['id'])
            if cb['kind'] == 'closure' and '::{closure' in cb['id']:
                # the call sits in a closure (`fast(..).or_else(|| slow(..))`): it is judged where the closure runs, in
                # the function that owns it, under the facts of the combinator's None / Err arm
                pid = cb['id'][:cb['id'].index('::{closure')]
                J, r = arena.run_fn(ctx, pid, config)
                ce = [e for e in r.events if e.kind == 'call' and len(e.stack) >= 2 and e.stack[-1][0] == cb['id'] and e.block == bi]
                depth = 1
            else:
                J, r = arena.run_fn(ctx, cb['id'], config)
                ce = [e for e in r.events if e.kind == 'call' and len(e.stack) == 1 and e.block == bi]
                depth = 1
            okv = False
            if ce:
                L = ce[0].args[1] if len(ce[0].args) > 1 else None
                for f in ce[0].state.facts:
                    if f[0] == 'is' and f[2] == 'None':
                        # the value known to be None is the result of the bumping function for the same layout
                        for c2 in r.events:
                            if c2.kind == 'call' and len(c2.stack) == depth and c2.ret is not None and (c2.callee or '').endswith('::try_alloc_layout_fast') and len(c2.args) > 1 and c2.args[1] == L:
                                if f[1] == c2.ret or c2.ret in subterms(f[1]) or f[1] in subterms(c2.ret):
                                    okv = True
            if okv:
                ctx.ok(RULE, '%s calls the chunk-acquiring slow path only after try_alloc_layout_fast returned None for the same layout' % fn, 'must-fact at the call')
            else:
                ctx.violation(RULE, fn, 'slow-path-unguarded', '%s calls alloc_layout_slow on a path where the current chunk was not tried (no None result of try_alloc_layout_fast for the same layout is known): a new chunk is requested although the request may fit' % fn, t.get('span'))
        ctx.floor(RULE, n7, 1, 'call sites of the chunk-acquiring slow path')


def runner_sub(ctx, rule, origin):
    from .. import runner
    return runner.Sub(ctx, rule, origin)


# private helpers and the public method they serve (used when the helper no longer exists as a function): name -> (caller, amount reserved there)
INLINED_INTO = {'append_elements': ('append', ('load', ('fld', ('deref', ('param', 2)), 'collections::vec::Vec.len'), 0)),
                'extend_with': ('resize', ('app', 'wsub', ('param', 2), ('load', ('fld', ('deref', ('param', 1)), 'collections::vec::Vec.len'), 0))),
                # merged into insert_str: the bytes are string.as_bytes(), so the amount is its length (the term of that call is
                # looked up in the analysed body, see O8)
                'insert_bytes': ('insert_str', 'len-of-as_bytes(param 3)')}


def run(ctx, config='rel-all'):
    A = arena.analyse(ctx, config)
    db = ctx.db(config)
    ctx.assume("J2 data <= finger (capacity does not wrap)", "asymptotic request-count / overhead bounds are not decided, only the growth formulas")
    val = check_exact_refusal(ctx, A, config, 'O6')
    if not val:
        return
    I, res, body = val
    # ---- O1 constructor
    v = A.get('try_with_min_align_and_capacity')
    if v:
        I1, r1, b1 = v
        n = 0
        ords = c01.ordinal_keys([e for e in r1.events if e.kind == 'store'])
        for e in r1.events:
            if e.kind == 'store' and arena.footer_agg(e):
                n += 1
                fn = arena.short(arena.innermost(e))
                # the request the constructor built: Layout(capacity, MIN_ALIGN)
                req = c01.request_layout(I1, e)
                P = arena.mk_prover(I1, e, r1)
                okreq = req is not None and P.eq(app('size', req), ('param', 1)) and app('align', req) == arena.MIN
                if okreq:
                    ctx.ok('O1', 'constructor sizes the first chunk for Layout(capacity, MIN_ALIGN)', show(req)[:80])
                else:
                    ctx.violation('O1', 'Bump::try_with_min_align_and_capacity', 'request', 'the first chunk is not requested for (capacity, MIN_ALIGN): %s' % (show(req)[:100] if req else None), e.span)
                c01.check_footer_agg(ctx, 'try_with_min_align_and_capacity', I1, r1, e, fn, 0, '%s' % loc(e.span)) if False else None
                A_, aggv = arena.footer_agg(e)
                g = field_of(aggv, 'data')
                d, c = lin(P.norm(A_))
                if g is not None and d.get(g) == 1:
                    rest = dict(d)
                    del rest[g]
                    nn = from_lin(rest, c)
                    if P.le(app('round_up', ('param', 1), arena.MIN), nn):
                        ctx.ok('O1', 'first chunk holds round_up(capacity, MIN_ALIGN) usable bytes', 'le(round_up(capacity, MIN_ALIGN), n)')
                    else:
                        ctx.violation('O1', fn, 'capacity-fit', 'cannot establish round_up(capacity, MIN_ALIGN) <= usable size %s of the first chunk' % show(nn)[:100], e.span)
                    ptr = field_of(aggv, 'ptr')
                    if ptr == A_ or (ptr[0] == 'app' and ptr[1] == 'round_down' and ptr[2] == A_):
                        ctx.ok('O1', 'first chunk starts empty (finger at the footer)', show(ptr)[:60])
                    else:
                        ctx.violation('O1', fn, 'initial-finger', 'the first chunk does not start with its finger at the footer', e.span)
        if n == 0:
            ctx.violation('O1', 'Bump::try_with_min_align_and_capacity', 'no-chunk', 'the capacity constructor creates no chunk')
    else:
        ctx.anchor_missing('O1', 'Bump::try_with_min_align_and_capacity')
    # ---- O2 chunk_capacity
    v = A.get('chunk_capacity')
    if v:
        I2, r2, b2 = v
        F = ('load', ('fld', ('deref', ('param', 1)), 'Bump.current_chunk_footer'), 0)
        want = ('app', 'wsub', arena.loadf(F, 'ptr'), arena.loadf(F, 'data'))
        if r2.ret == want:
            ctx.ok('O2', 'chunk_capacity() == finger - data of the current chunk (the term the fast path compares against)', show(r2.ret)[:80])
        else:
            ctx.violation('O2', 'Bump::chunk_capacity', 'return', 'chunk_capacity() returns %s' % show(r2.ret)[:120], b2.get('span'))
    else:
        ctx.anchor_missing('O2', 'Bump::chunk_capacity')
    # ---- O3 slow path candidates
    I, res, body = val
    fsz = I.size_of('ChunkFooter')
    ff = [e for e in res.events if e.kind == 'call' and e.callee == 'core::iter::sources::from_fn::from_fn']
    hl = [] if ff else arena.halving_loops(res)
    if not ff and not hl:
        ctx.violation('O3', 'slow path', 'generator', 'the slow path has no candidate search (neither an iter::from_fn generator nor a loop that halves a size)')
    F = ('load', ('fld', ('deref', ('param', 1)), 'Bump.current_chunk_footer'), 0)
    doubling = app('mul', ('app', 'wsub', app('size', arena.loadf(F, 'layout')), fsz), C(2))
    for key, rec, l in hl:
        # the search written as a plain loop: the loop variable starts at the first candidate and is only ever halved
        v0 = rec['init'].get(l)
        if v0 is not None and v0[0] == 'app' and v0[1] == 'max' and doubling in set(v0[2:]) and app('size', ('param', 2)) in set(v0[2:]):
            ctx.ok('O3', 'first candidate = max(2*(size(cur.layout) - FOOTER_SIZE), size(request), default)', show(v0)[:120])
        else:
            ctx.violation('O3', arena.short(key[0]), 'first-candidate', 'the initial candidate size of the slow path is not max(2 * usable size of the current chunk, size(request), ..): growth would not be geometric', body.get('span'))
        ctx.ok('O3', 'later candidates only halve (%d back edge(s) base := base/2)' % len(rec['step']), show(rec['sym'][l])[:60])
    for e in ff:
        clo = e.args[0]
        cid = clo[1][len('closure:'):] if clo[0] == 'agg' else None
        from ..stdmodel import _mutated_upvars
        mut = _mutated_upvars(I, cid) if cid else set()
        found = False
        for name, up in (clo[3] if clo[0] == 'agg' else ()):
            idx = int(name[5:])
            if idx in mut and up[0] == 'addr' and up[1][0] == 'local':
                v0 = e.state.env.get((up[1][1], up[1][2]))
                if v0 is not None and v0[0] == 'app' and v0[1] == 'max':
                    ops = set(v0[2:])
                    if doubling in ops and app('size', ('param', 2)) in ops:
                        found = True
                        ctx.ok('O3', 'first candidate = max(2*(size(cur.layout) - FOOTER_SIZE), size(request), default)', show(v0)[:120])
        if not found:
            ctx.violation('O3', arena.short(arena.innermost(e)), 'first-candidate', 'the initial candidate size of the slow path is not max(2 * usable size of the current chunk, size(request), ..): growth would not be geometric', e.span)
        # halving only
        if cid:
            Jc, rc = arena.run_fn(ctx, cid, config)
            sts = [s for s in rc.events if s.kind == 'store' and len(s.stack) == 1]
            halves = [s for s in sts if s.val[0] == 'app' and s.val[1] == 'div2']
            if halves and all(s.val[0] == 'app' and s.val[1] == 'div2' or s.val[0] in ('cmp', 'c') for s in sts):
                ctx.ok('O3', 'later candidates only halve (%d store(s) base := base/2)' % len(halves), show(halves[0].val)[:60])
            else:
                ctx.violation('O3', arena.short(cid), 'candidate-update', 'the candidate size is updated by something other than halving: %s' % [show(s.val)[:40] for s in sts], body.get('span'))
    # chunk at least as large as its candidate
    hsyms = {rec['sym'][l] for key, rec, l in hl}
    for e in res.events:
        if e.kind == 'store' and arena.footer_agg(e):
            A_, aggv = arena.footer_agg(e)
            g = field_of(aggv, 'data')
            P = arena.mk_prover(I, e, res)
            d, c = lin(P.norm(A_))
            if g is not None and d.get(g) == 1:
                rest = dict(d)
                del rest[g]
                nn = from_lin(rest, c)
                cands = [t for t in subterms(nn) if isinstance(t, tuple) and t and t[0] == 'opaque' and (str(t[2]).startswith('captured') or t in hsyms)]
                if cands and all(P.le(cnd, nn) for cnd in cands):
                    ctx.ok('O3', 'the chunk obtained is at least as large as the candidate size it was built from', 'le(candidate, n)')
                else:
                    ctx.violation('O3', arena.short(arena.innermost(e)), 'chunk>=candidate', 'cannot establish candidate <= usable size of the new chunk', e.span)
    # ---- O4 RawVec amortized growth
    am = [b for b in db.fn_bodies() if b['meta'].get('name') == 'amortized_new_size' and (b['meta'].get('impl_adt') or '').endswith('RawVec')]
    if config != 'rel-default':
        ctx.floor('O4', len(am), 1, 'RawVec::amortized_new_size')
    for b in am:
        J, r = arena.run_fn(ctx, b['id'], config)
        pays = arena.success_payloads(J, r)
        cap = ('load', ('fld', ('deref', ('param', 1)), 'collections::raw_vec::RawVec.cap'), 0)
        want = app('max', app('add', ('param', 2), ('param', 3)), app('mul', cap, C(2)))
        req, dbl = app('add', ('param', 2), ('param', 3)), app('mul', cap, C(2))

        def is_max(t):
            if t == want:
                return True
            if t[0] == 'phi':
                pf = J.phi_facts.get(t[1][:2], {})
                seen = set()
                for p_, x in t[2]:
                    fs = set(pf.get(p_, ()))
                    if x == req and (('lt', dbl, req) in fs or ('le', dbl, req) in fs):
                        seen.add('req')
                    elif x == dbl and (('le', req, dbl) in fs or ('lt', req, dbl) in fs):
                        seen.add('dbl')
                    else:
                        return False
                return seen == {'req', 'dbl'}
            return False
        okv = bool(pays) and all(is_max(t) for t, _ in pays)
        if not okv and pays:
            # max(..) written as if / else: the alternatives are the two operands, each under the comparison that selects it
            kinds = set()
            for t, fs in pays:
                if t == req and (('lt', dbl, req) in fs or ('le', dbl, req) in fs):
                    kinds.add('req')
                elif t == dbl and (('le', req, dbl) in fs or ('lt', req, dbl) in fs):
                    kinds.add('dbl')
                else:
                    kinds.add('other')
            okv = kinds == {'req', 'dbl'}
        checked = any(f[0] in ('is', 'nooverflow') and 'checked_add' in repr(f) for _, fs in pays for f in fs)
        if okv and checked:
            ctx.ok('O4', 'amortized_new_size == max(2*cap, used + extra) with a checked sum', show(want)[:80])
        else:
            ctx.violation('O4', 'RawVec::amortized_new_size', 'formula', 'amortized growth is %s (checked sum: %s); expected max(2*cap, used_cap + needed_extra)' % ([show(t)[:100] for t, _ in pays][:2], checked), b.get('span'))
    # ---- O5 every growing entry point of Vec / String reaches the raw buffer with the amortized (doubling) strategy; only
    # the *_exact flavours (and shrink) use the exact one.  A growing entry that reserves exactly re-allocates on every call:
    # the number of reallocations becomes linear in the elements stored.
    if config != 'rel-default':
        AMORTIZED = [('vec::Vec', 'reserve'), ('vec::Vec', 'try_reserve'), ('vec::Vec', 'push'), ('vec::Vec', 'insert'), ('vec::Vec', 'append_elements'), ('vec::Vec', 'extend_from_slice_copy'),
                     ('vec::Vec', 'extend_with'), ('string::String', 'reserve'), ('string::String', 'push'), ('string::String', 'push_str'), ('string::String', 'insert_bytes')]
        EXACT = [('vec::Vec', 'reserve_exact'), ('vec::Vec', 'try_reserve_exact'), ('string::String', 'reserve_exact')]
        n5 = 0
        for (adt, name), want in [(k, 'Amortized') for k in AMORTIZED] + [(k, 'Exact') for k in EXACT]:
            bs = [x for x in db.fn_bodies() if x['kind'] == 'assoc_fn' and x['meta'].get('name') == name and (x['meta'].get('impl_adt') or '').endswith(adt) and not x['meta'].get('impl_trait')]
            if not bs and name in INLINED_INTO:
                # a private helper that was inlined into its only caller: the caller is the growing entry point
                name = INLINED_INTO[name][0]
                bs = [x for x in db.fn_bodies() if x['kind'] == 'assoc_fn' and x['meta'].get('name') == name and (x['meta'].get('impl_adt') or '').endswith(adt) and not x['meta'].get('impl_trait')]
            if not bs:
                ctx.anchor_missing('O5', '%s::%s' % (adt, name))
                continue
            J, r = arena.run_fn(ctx, bs[0]['id'], config)
            strat = set()
            for e in r.events:
                if e.kind == 'call' and e.callee and e.callee.endswith('::reserve_internal') and len(e.args) >= 5:
                    a = e.args[4]
                    strat.add(a[2] if a[0] == 'agg' else show(a)[:30])
            n5 += 1
            fn = '%s::%s' % (adt.split('::')[-1], name)
            if strat == {want}:
                ctx.ok('O5', '%s reaches RawVec::reserve_internal with ReserveStrategy::%s' % (fn, want), 'constant strategy argument along the inlined call chain')
            else:
                ctx.violation('O5', fn, 'strategy', '%s reaches the raw buffer with strategy %s, expected %s (growth through this entry point would %s)' % (fn, sorted(strat) or 'none', want, 'not be geometric' if want == 'Amortized' else 'over-allocate'), bs[0].get('span'))
        ctx.floor('O5', n5, 14, 'growing entry points of Vec / String checked for their growth strategy')
    check_slow_path_guard(ctx, db, config, 'O7')
    # ---- O8 a collection with spare capacity does not move: every growing primitive reserves exactly the number of elements
    # it is about to add (reserving more makes an insertion that fits reallocate)
    if config != 'rel-default':
        P1, P2, P3 = ('param', 1), ('param', 2), ('param', 3)
        WANT = [('vec::Vec', 'push', C(1)), ('vec::Vec', 'insert', C(1)), ('vec::Vec', 'append_elements', app('len', P2)), ('vec::Vec', 'extend_from_slice_copy', app('len', P2)),
                ('vec::Vec', 'extend_with', P2), ('string::String', 'insert_bytes', app('len', P3))]
        n8 = 0
        for adt, name, want in WANT:
            bs = [x for x in db.fn_bodies() if x['kind'] == 'assoc_fn' and x['meta'].get('name') == name and (x['meta'].get('impl_adt') or '').endswith(adt) and not x['meta'].get('impl_trait')]
            if not bs and name in INLINED_INTO:
                name, want = INLINED_INTO[name]
                bs = [x for x in db.fn_bodies() if x['kind'] == 'assoc_fn' and x['meta'].get('name') == name and (x['meta'].get('impl_adt') or '').endswith(adt) and not x['meta'].get('impl_trait')]
            if not bs:
                ctx.anchor_missing('O8', '%s::%s' % (adt, name))
                continue
            J, r = arena.run_fn(ctx, bs[0]['id'], config)
            rs = [e for e in r.events if e.kind == 'call' and len(e.stack) == 1 and (e.callee or '').endswith('::reserve')]
            if want == 'len-of-as_bytes(param 3)':
                ab = [e for e in r.events if e.kind == 'call' and len(e.stack) == 1 and (e.callee or '').endswith('::as_bytes') and e.args and e.args[0] == P3 and e.ret is not None]
                want = app('len', ab[0].ret) if ab else app('len', P3)
            n8 += 1
            fn = '%s::%s' % (adt.split('::')[-1], name)
            if len(rs) == 1 and rs[0].args[-1] == want:
                ctx.ok('O8', '%s reserves exactly %s additional elements' % (fn, show(want)), 'argument term of the reserve call')
            else:
                ctx.violation('O8', fn, 'reserve-amount', '%s must reserve exactly %s additional elements; it reserves %s' % (fn, show(want), [show(e.args[-1])[:60] for e in rs]), bs[0].get('span'))
        ctx.floor('O8', n8, 6, 'growing primitives checked for their reserve amount')
    # ---- O12 (requirement side of O8, no table): in *every* method of the collections that reserves in its own frame and then raises
    # the length in its own frame, the amount reserved is the amount the length grows by - more makes an insertion that fits move the
    # buffer (or take a new chunk), less is C19's business
    if config != 'rel-default':
        def _has_call(b, names):
            for bl in b['blocks']:
                t = bl['term']
                if t['k'] == 'call':
                    pth = (t['callee'].get('resolved') or {}).get('path') or t['callee'].get('path') or ''
                    if pth.split('::')[-1] in names:
                        return True
            return False

        def _len_assign(b):
            return any(st.get('k') == 'assign' and any(e['k'] == 'field' and e.get('name') == 'len' for e in st['place']['proj']) for bl in b['blocks'] for st in bl['stmts'])
        n12 = 0
        for b in db.fn_bodies():
            if b['kind'] != 'assoc_fn' or not (b.get('span') or '').startswith('src/collections/'):
                continue
            if not _has_call(b, ('reserve', 'reserve_exact')) or not (_has_call(b, ('set_len',)) or _len_assign(b)):
                continue
            J, r = arena.run_fn(ctx, b['id'], config)
            rs = [e for e in r.events if e.kind == 'call' and e.is_own() and (e.callee or '').split('::')[-1] in ('reserve', 'reserve_exact')]
            sl = [e for e in r.events if e.is_own() and ((e.kind == 'call' and (e.callee or '').endswith('::set_len')) or (e.kind == 'store' and e.lv and e.lv[0] == 'fld' and e.lv[2].endswith('.len')))]
            for e in sl:
                val = e.args[1] if e.kind == 'call' else e.val
                before = [x for x in rs if r.events.index(x) < r.events.index(e)]
                if not before or not isinstance(val, tuple):
                    continue
                # val = load(len) + k
                parts = lin(val)
                if parts is None:
                    continue
                terms_, const = parts
                lens = [t for t, c in terms_.items() if c == 1 and isinstance(t, tuple) and t[0] == 'load' and t[1][0] == 'fld' and t[1][2].endswith('.len')]
                if len(lens) != 1:
                    continue
                rest = dict(terms_)
                del rest[lens[0]]
                n12 += 1
                amt = before[-1].args[-1]
                pa = lin(amt)
                fn = arena.short(b['id'])
                if pa is not None and pa[1] == const and pa[0] == rest:
                    ctx.ok('O12', '%s reserves exactly what it adds to the length (%s)' % (fn, show(amt)[:60]), 'linear form of reserve amount == length increase')
                else:
                    P = prover.Prover(J, e.state.facts, use_J=False)
                    k = app('sub', val, lens[0])
                    if P.eq(amt, k):
                        ctx.ok('O12', '%s reserves exactly what it adds to the length (%s)' % (fn, show(amt)[:60]), 'prover')
                    else:
                        ctx.violation('O12', fn, 'reserve-vs-growth', '%s reserves %s additional elements and then raises the length by %s: a collection whose spare capacity would have held the new elements is reallocated (or the reservation is too small)' % (fn, show(amt)[:60], show(simplify(k))[:80]), e.span)
        ctx.floor('O12', n12, 4, 'own-frame (reserve, length increase) pairs')
    # ---- R13 a collection keeps the buffer it reserved: no method replaces a whole Vec / String / RawVec reachable from one parameter
    # by a value derived from another parameter (`mem::swap(self, other)` in an append fast path hands the reserved capacity of the
    # destination to the source) - the whole-value overwrite rule of C20.R5, whose violation also voids the capacity promise
    if config != 'rel-default':
        from . import arenaid
        arenaid.check(ctx, db, 'R13')
    # ---- O9 constructor glue: the convenience constructors hand their capacity on unchanged (new / try_new / default with 0) and a
    # fresh arena has no limit; min_align() reports the const parameter
    def bump_fn(name):
        bs = [b for b in db.fn_bodies() if b['kind'] == 'assoc_fn' and b['meta'].get('impl_adt') == 'Bump' and b['meta'].get('name') == name]
        if not bs:
            ctx.anchor_missing('O9', 'Bump::' + name)
        return bs[0] if bs else None
    n9 = 0
    FAMILY = ('with_capacity', 'try_with_capacity', 'with_min_align_and_capacity', 'try_with_min_align_and_capacity')
    for name, callee, arg in (('new', '::with_capacity', C(0)), ('try_new', '::try_with_capacity', C(0)), ('with_capacity', '::try_with_capacity', ('param', 1)),
                              ('try_with_capacity', '::try_with_min_align_and_capacity', ('param', 1)), ('with_min_align_and_capacity', '::try_with_min_align_and_capacity', ('param', 1))):
        b = bump_fn(name)
        if not b:
            continue
        J, r = arena.run_fn(ctx, b['id'], config)
        cs = [e for e in r.events if e.kind == 'call' and len(e.stack) == 1 and (e.callee or '').endswith(callee)]
        if not cs:
            # any other member of the capacity-constructor family is as good: they all end in try_with_min_align_and_capacity
            cs = [e for e in r.events if e.kind == 'call' and len(e.stack) == 1 and 'Bump::<' in (e.callee or '') and (e.callee or '').split('::')[-1] in FAMILY and (e.callee or '').split('::')[-1] != name]
        n9 += 1
        if len(cs) == 1 and cs[0].args == [arg]:
            ctx.ok('O9', 'Bump::%s forwards capacity %s to %s' % (name, show(arg), callee[2:]), 'argument identity')
        else:
            ctx.violation('O9', 'Bump::' + name, 'capacity-forward', 'Bump::%s must hand capacity %s on to %s unchanged; calls: %s' % (name, show(arg), callee[2:], [(e.callee.split('::')[-1], [show(a)[:30] for a in e.args]) for e in cs]), b.get('span'))
    b = bump_fn('min_align')
    if b:
        J, r = arena.run_fn(ctx, b['id'], config)
        n9 += 1
        if r.ret == sym('MIN_ALIGN'):
            ctx.ok('O9', 'Bump::min_align() returns MIN_ALIGN', 'return term')
        else:
            ctx.violation('O9', 'Bump::min_align', 'return', 'min_align() returns %s' % show(r.ret)[:60], b.get('span'))
    ctx.floor('O9', n9, 6, 'constructor / accessor glue of Bump')
    # ---- O10 iterator-driven growth reserves the LOWER bound of the size hint (the upper bound of a filtered source is the size
    # of the source, not of what arrives: reserving it makes the space held unrelated to the space used, and makes a vector
    # whose spare capacity would have sufficed move)
    if config != 'rel-default':
        n10 = 0
        for b in db.fn_bodies():
            mm = b['meta']
            adt = mm.get('impl_adt') or ''
            if b['kind'] != 'assoc_fn' or not any(adt.endswith(x) for x in ('vec::Vec', 'string::String', 'vec::Splice', 'vec::Drain', 'boxed::Box')):
                continue
            if not any((t.get('callee') or {}).get('path', '').endswith('::size_hint') for blk in b['blocks'] for t in [blk['term']] if t['k'] == 'call'):
                continue
            J, r = arena.run_fn(ctx, b['id'], config)
            for e in r.events:
                if e.kind != 'call' or not e.is_own() or not e.callee:
                    continue
                nm = e.callee.split('::')[-1]
                if nm not in ('reserve', 'reserve_exact', 'move_tail', 'try_reserve', 'try_reserve_exact') or not e.args:
                    continue
                amt = e.args[-1]
                hints = [x for x in subterms(amt) if isinstance(x, tuple) and x and x[0] == 'call' and x[1].endswith('::size_hint')]
                if not hints:
                    continue
                n10 += 1
                upper = [x for x in subterms(amt) if isinstance(x, tuple) and x[:2] == ('app', 'proj') and x[3].endswith('.1') and x[2] in hints]
                lower = [x for x in subterms(amt) if isinstance(x, tuple) and x[:2] == ('app', 'proj') and x[3].endswith('.0') and x[2] in hints]
                fn = arena.short(b['id'])
                if upper or not lower:
                    ctx.violation('O10', fn, 'reserve-upper-bound', '%s sizes its reservation from the size hint as %s: only the lower bound may be reserved (an upper bound is unrelated to the number of elements that arrive)' % (fn, show(amt)[:100]), e.span)
                else:
                    ctx.ok('O10', '%s reserves from the lower bound of the size hint only' % fn, show(amt)[:80])
        ctx.floor('O10', n10, 3, 'size-hint driven reservations in the collections')
    # ---- O11 a reservation never shrinks: the raw buffer is only re-sized (reserve_internal) on a path where the spare capacity
    # is smaller than what was asked for, cap() - used < additional; otherwise reserve_exact(n) with n below the spare capacity
    # would cut the buffer down to len + n and a later insertion that fitted before would move it
    if config != 'rel-default':
        n11 = 0
        for name in ('reserve', 'reserve_exact', 'try_reserve', 'try_reserve_exact'):
            bs = [x for x in db.fn_bodies() if x['kind'] == 'assoc_fn' and x['meta'].get('name') == name and (x['meta'].get('impl_adt') or '').endswith('raw_vec::RawVec') and not x['meta'].get('impl_trait')]
            if not bs:
                ctx.anchor_missing('O11', 'RawVec::' + name)
                continue
            J, r = arena.run_fn(ctx, bs[0]['id'], config)
            used, extra = ('param', 2), ('param', 3)
            for e in r.events:
                if e.kind == 'call' and (e.callee or '').endswith('::reserve_internal'):
                    n11 += 1
                    guarded = any(f[0] == 'lt' and len(f) == 3 and f[2] == extra and isinstance(f[1], tuple) and f[1][:2] in (('app', 'wsub'), ('app', 'sub')) and f[1][3] == used for f in e.state.facts)
                    if guarded:
                        ctx.ok('O11', 'RawVec::%s re-sizes the buffer only under cap() - used < additional' % name, 'must-fact at the reserve_internal call')
                    else:
                        ctx.violation('O11', 'RawVec::' + name, 'unguarded-resize', 'RawVec::%s reaches reserve_internal on a path where the spare capacity is not known to be insufficient: a reservation smaller than the spare capacity would shrink the buffer' % name, e.span)
        ctx.floor('O11', n11, 4, 'calls of the re-sizing routine from the reserve family')
    # ---- R10 the headroom the slow path compares candidates against is limit - allocated_bytes: the counter must be exact
    # on every store (C08.O1), or candidates that fit are refused and the chunk sequence stops doubling
    from . import c08
    fsz = arena.ArenaInterp(db).size_of('ChunkFooter')
    if is_c(fsz):
        c08.check_j4(runner_sub(ctx, 'R10', 'C08'), A, db, fsz, 'O1')
    # ---- R5 capacities
    if config != 'rel-default':
        for path, nav in (("collections::raw_vec::RawVec::<'a, T>::with_capacity_in", ()), ("collections::vec::Vec::<'bump, T>::with_capacity_in", ('buf',)), ("collections::string::String::<'bump>::with_capacity_in", ('vec', 'buf'))):
            b = db.by_path.get(path) or db.bodies.get(path)
            cand = [x for x in db.fn_bodies() if x['meta'].get('name') == 'with_capacity_in' and x['meta'].get('impl_adt', '').split('::')[-1] == path.split('::')[2].split('<')[0].strip()]
            b = cand[0] if cand else None
            if not b:
                ctx.anchor_missing('R5', path)
                continue
            J, r = arena.run_fn(ctx, b['id'], config)
            t = r.ret
            for f in nav:
                t = field_of(t, f) if t is not None and t[0] == 'agg' else None
            capv = field_of(t, 'cap') if t is not None and t[0] == 'agg' else None
            if capv == ('param', 1):
                ctx.ok('R5', '%s records cap == requested capacity' % arena.short(b['id']), 'returned aggregate')
            else:
                ctx.violation('R5', arena.short(b['id']), 'cap', 'with_capacity_in records capacity %s, not the requested one' % (show(capv)[:60] if capv else None), b.get('span'))
        pb = [x for x in db.fn_bodies() if x['meta'].get('name') == 'push' and (x['meta'].get('impl_adt') or '').endswith('vec::Vec')]
        for b in pb:
            J, r = arena.run_fn(ctx, b['id'], config)
            calls = [e for e in r.events if e.kind == 'call' and len(e.stack) == 1 and e.callee and e.callee.endswith('::reserve')]
            ln = ('load', ('fld', ('deref', ('param', 1)), 'collections::vec::Vec.len'), 0)
            okv = bool(calls) and all(any(f[0] == 'eq' and ln in f[1:] and 'RawVec.cap' in repr(f) for f in e.state.facts) for e in calls)
            if okv:
                ctx.ok('R5', 'Vec::push reserves only under len == capacity', 'must-fact at the reserve call')
            else:
                ctx.violation('R5', 'Vec::push', 'reserve-guard', 'push calls reserve on a path where len == capacity is not established (a vector with spare capacity could move)', b.get('span'))
