"""Full-view forwarding of the trait impls on collections::Vec / collections::String (C13.R8, C14.R6).

std implements comparison, hashing, formatting, indexing and the borrow/as-ref conversions of Vec / String by handing the
*whole* initialised view (`&self[..]`, all of buf.ptr / len) to the same-named method of the same trait on the slice / str,
with the operands in order, and returns what that method returns.  The rule is evaluated on TermFlow call events (callees
resolved, `Deref`/`Index<RangeFull>` view construction inlined), so it does not depend on how the view is spelled.
"""
from .. import arena
from ..terms import *

FORWARD = ('cmp::PartialEq', 'cmp::PartialOrd', 'cmp::Ord', 'hash::Hash', 'fmt::Debug', 'fmt::Display', 'ops::index::Index', 'ops::index::IndexMut')
VIEW_RETURN = ('borrow::Borrow', 'borrow::BorrowMut', 'convert::AsRef', 'convert::AsMut', 'ops::deref::Deref', 'ops::deref::DerefMut')


def root_param(t, depth=0):
    """the parameter a place/term is rooted in, if it is rooted in exactly one"""
    ps = {x[1] for x in subterms(t) if isinstance(x, tuple) and len(x) == 2 and x[0] == 'param'}
    return ps.pop() if len(ps) == 1 else None


def full_view(t, k, depth=0):
    """t denotes the whole initialised contents of parameter k (a Vec / String / reference to one), or parameter k itself"""
    if depth > 6 or not isinstance(t, tuple) or not t:
        return False
    if t == ('param', k):
        return True
    if t[0] == 'agg' and t[1] == 'slice':
        p, n = field_of(t, 'ptr'), field_of(t, 'len')
        okp = p is not None and p[0] == 'load' and p[1][0] == 'fld' and p[1][2].endswith('RawVec.ptr') and root_param(p) == k
        okn = n is not None and n[0] == 'load' and n[1][0] == 'fld' and n[1][2].endswith('Vec.len') and root_param(n) == k
        return okp and okn
    if t[0] == 'call' and (t[1].endswith('::index') or t[1].endswith('::index_mut')) and len(t[2]) == 2 and t[2][1][0] == 'agg' and t[2][1][1].endswith('RangeFull'):
        return full_view(t[2][0], k, depth + 1)
    if t[0] == 'addr' and t[1][0] == 'fld' and t[1][2].endswith('String.vec') and t[1][1] == ('deref', ('param', k)):
        return True
    if t[0] == 'addr' and t[1] == ('deref', ('param', k)):
        return True
    return False


def check(ctx, config, rule, adt_suffix, floor):
    db = ctx.db(config)
    n = 0
    for b in db.fn_bodies():
        m = b['meta']
        tr = m.get('impl_trait') or ''
        if b['kind'] != 'assoc_fn' or not (m.get('impl_adt') or '').endswith(adt_suffix) or not tr:
            continue
        fwd = any(tr.endswith(x) for x in FORWARD)
        view = any(tr.endswith(x) for x in VIEW_RETURN)
        if not (fwd or view):
            continue
        name = m['name']
        if name == 'assert_fields_are_eq':
            continue
        if fwd and tr.split('::')[-1] in ('Index', 'IndexMut') and any('RangeFull' in i for i in (m.get('inputs') or [])[1:]):
            fwd, view = False, True     # self[..] is the view constructor itself
        I, r = arena.run_fn(ctx, b['id'], config)
        fn = arena.short(b['id'])
        ins = m.get('inputs') or []
        n += 1
        if view:
            # the result is the full view of self (or self itself for the reflexive AsRef<Vec>)
            if r.ret is not None and full_view(r.ret, 1):
                ctx.ok(rule, '%s returns the whole initialised view of self' % fn, 'return term')
            else:
                ctx.violation(rule, fn, 'view', '%s must expose exactly the whole initialised contents of self (buf.ptr, len); it returns %s' % (fn, show(r.ret)[:100] if r.ret is not None else None), b.get('span'))
            continue
        own = [e for e in r.events if e.is_own() and e.kind == 'call']
        same = [e for e in own if (e.extra.get('trait_path') or '').split('::')[-1] == name and (e.extra.get('callee') or {}).get('trait') == tr
                and not (len(e.args) == 2 and e.args[1][0] == 'agg' and e.args[1][1].endswith('RangeFull') and ((e.callee or '').endswith('::index') or (e.callee or '').endswith('::index_mut')))]
        # the String -> Vec -> slice chain forwards twice; the outermost own-frame call is what counts
        if len(same) != 1:
            others = sorted({(e.extra.get('trait_path') or e.callee or '?').split('::')[-1] for e in own})
            ctx.violation(rule, fn, 'forward-target', '%s (impl of %s) must make exactly one call to %s::%s on the contents; own-frame calls: %s' % (fn, tr.split('::')[-1], tr.split('::')[-1], name, others[:6]), b.get('span'))
            continue
        e = same[0]
        bad = None
        # String: hashing and formatting are defined on `str` (a byte slice hashes / prints differently): the forwarded impl must be str's
        if adt_suffix.endswith('string::String') and tr.split('::')[-1] in ('Hash', 'Display', 'Debug'):
            ce = e.callee or ''
            if not (' for str>' in ce or ce.startswith('<str as ')):
                ctx.violation(rule, fn, 'forward-type', '%s must forward to the %s impl of `str` (std hashes / formats a String as its str), it calls %s' % (fn, tr.split('::')[-1], ce[-70:]), e.span)
                continue
        for k, a in enumerate(e.args, start=1):
            if k <= len(ins) and full_view(a, k):
                continue
            if a == ('param', k):
                continue
            # operand k is not a container of this crate (slice, array, str, Cow, formatter, hasher, index): it must be derived from parameter k only
            if root_param(a) == k and not any(isinstance(x, tuple) and x and x[0] == 'agg' and x[1] == 'slice' for x in subterms(a)):
                continue
            bad = (k, a)
            break
        if bad is None and tr.split('::')[-1] not in ('Index', 'IndexMut', 'Hash') and r.ret != e.ret:
            bad = ('ret', r.ret)
        if bad is None and tr.split('::')[-1] in ('Index', 'IndexMut') and r.ret != e.ret:
            bad = ('ret', r.ret)
        if bad is None:
            ctx.ok(rule, '%s forwards to %s::%s on the whole contents, operands in order, result returned' % (fn, tr.split('::')[-1], name), 'call event arguments are full views of the parameters')
        elif bad[0] == 'ret':
            ctx.violation(rule, fn, 'forward-result', '%s does not return the result of the forwarded %s::%s (%s)' % (fn, tr.split('::')[-1], name, show(bad[1])[:80] if bad[1] is not None else None), b.get('span'))
        else:
            ctx.violation(rule, fn, 'forward-operand%d' % bad[0], '%s: operand %d of the forwarded %s::%s is %s, not the whole contents of parameter %d' % (fn, bad[0], tr.split('::')[-1], name, show(bad[1])[:100], bad[0]), e.span)
    ctx.floor(rule, n, floor, 'forwarding / view trait methods on %s' % adt_suffix.split('::')[-1])
    return n
