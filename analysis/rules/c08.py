"""C08 — byte accounting matches what the arena really holds (J4 at every store of allocated_bytes)."""
from .. import arena, prover, termflow
from ..terms import *
from ..facts import loc
from . import c01

EXPLANATION = ("TermFlow term equalities: (O1) every store to ChunkFooter.allocated_bytes (who-may-write: the acquirer's footer aggregate, reset, the static initializer) equals "
               "prev.allocated_bytes + (layout.size - FOOTER_SIZE) of that very chunk, with prev the value stored in the same footer's prev field (0 for the sentinel; for reset the "
               "prev link was just set to the sentinel); 'with footer' and 'without footer' sizes are distinct linear terms; (O2) allocated_bytes() is a load of the current "
               "footer's field and allocated_bytes_including_metadata() = allocated_bytes() + count(raw chunk iterator from the current footer) * size_of::<ChunkFooter>(); "
               "(R3) only functions that acquire or release chunks store the counter."
               ' (R5) current_chunk_footer only moves to a chunk acquired in the same call (no held chunk is unlinked); (R6) the raw chunk iterator that counts footers starts at the current chunk and stops only at the sentinel (C10.R2).')
RULE = "rule instance = (rule, store site / accessor); distinct by (rule, function, site)"


def run(ctx, config='rel-all'):
    A = arena.analyse(ctx, config)
    db = ctx.db(config)
    footer_size = arena.ArenaInterp(db).size_of('ChunkFooter')
    if not is_c(footer_size):
        ctx.anchor_missing('O1', 'size_of::<ChunkFooter>()')
        return
    ctx.assume("A1 no overflow in the accumulated counter (bounded by the address space)", "J3 layout.size == usable + FOOTER_SIZE (C01.O5)")
    writers = check_j4(ctx, A, db, footer_size, 'O1')
    # ---- R3 who writes
    acq = {f for f, _ in c01.global_alloc_callers(db).get('alloc', [])}
    rel_callers = set()
    for rf in {f for f, _ in c01.global_alloc_callers(db).get('dealloc', [])}:
        for cb, bi, t in db.callers_of(rf):
            rel_callers.add(cb['id'])
    for w in sorted(writers):
        if w in acq or w in rel_callers:
            ctx.ok('R3', '%s stores allocated_bytes and %s a chunk' % (arena.short(w), 'acquires' if w in acq else 'releases'), 'who-may-write inventory')
        else:
            ctx.violation('R3', arena.short(w), 'store(allocated_bytes)', 'allocated_bytes is written by a function that neither acquires nor releases a chunk')
    # ---- R5 the chain the accessors walk only ever grows by a freshly acquired chunk: nothing unlinks a held chunk
    # (shared with C01.R7) -- an unlinked chunk is still held from the global allocator but no longer counted
    nccf = 0
    for key, v in A.items():
        if v is None:
            continue
        nccf += len([e for e in v[1].events if e.kind == 'store' and arena.bump_field(e) and arena.bump_field(e)[1] == 'current_chunk_footer'])
        c01.check_ccf_stores(ctx, key, v[0], v[1], 'R5')
    ctx.floor('R5', nccf, 12, 'stores to current_chunk_footer over the entry points')
    # ---- R6 allocated_bytes_including_metadata() counts footers through the raw chunk iterator: that count is the number of
    # chunks held only if the iterator starts at the current chunk, follows prev and stops at nothing but the sentinel (C10.R2)
    from .. import runner
    from . import c10
    c10.check_raw_iterator(runner.Sub(ctx, 'R6', 'C10'), db, config, A, only_raw=True)
    # ---- R7 reset re-establishes the counter on EVERY path that released chunks (the path obligations of C06 on reset)
    from . import c06
    c06.run(runner.Sub(ctx, 'R7', 'C06'), config, shares=False)
    # ---- O2 accessors
    val = A.get('allocated_bytes')
    if val:
        I, res, body = val
        r = res.ret
        okv = r is not None and r[0] == 'load' and r[1][0] == 'fld' and r[1][2] == 'ChunkFooter.allocated_bytes' and r[1][1][0] == 'deref' and is_ccf_load(r[1][1][1])
        if okv:
            ctx.ok('O2', 'allocated_bytes() == load(current footer . allocated_bytes)', show(r)[:80])
        else:
            ctx.violation('O2', 'Bump::allocated_bytes', 'return', 'allocated_bytes() returns %s, not the current footer\'s counter' % show(r)[:100], body.get('span'))
    else:
        ctx.anchor_missing('O2', 'Bump::allocated_bytes')
    val = A.get('allocated_bytes_including_metadata')
    if val:
        I, res, body = val
        r = res.ret
        d, c = lin(r) if r is not None else ({}, 0)
        ab_terms = [k for k, v in d.items() if v == 1 and k[0] == 'load' and k[1][0] == 'fld' and k[1][2] == 'ChunkFooter.allocated_bytes' and is_ccf_load(k[1][1][1])]
        cnt_terms = [(k, v) for k, v in d.items() if k[0] == 'call' and k[1].endswith('Iterator::count')]
        its = [(k[2][0], v) for k, v in cnt_terms]
        # a hand-written counting loop over the same iterator denotes the same number as Iterator::count
        for k, v in d.items():
            if k[0] == 'opaque':
                ci = arena.counted_iterator(I, res, k)
                if ci is not None:
                    its.append((ci, v))
        okv = c == 0 and len(d) == 2 and len(ab_terms) == 1 and len(its) == 1 and its[0][1] == footer_size[1]
        if okv:
            it = its[0][0]
            start = field_of(it, 'footer') if it[0] == 'agg' else None
            okv = start is not None and is_ccf_load(start)
        if okv:
            ctx.ok('O2', 'allocated_bytes_including_metadata() == allocated_bytes() + count(chunks from current footer) * %d' % footer_size[1], show(r)[:120])
        else:
            ctx.violation('O2', 'Bump::allocated_bytes_including_metadata', 'return', 'returns %s; expected allocated_bytes() + count(raw chunk iterator from the current footer) * size_of::<ChunkFooter>()' % show(r)[:160], body.get('span'))
    else:
        ctx.anchor_missing('O2', 'Bump::allocated_bytes_including_metadata')


def check_j4(ctx, A, db, footer_size, RULE_NAME):
    sites = set()
    writers = set()
    for key, val in A.items():
        if val is None:
            continue
        I, res, body = val
        for e in res.events:
            if e.kind != 'store':
                continue
            fa = arena.footer_agg(e)
            ff = arena.footer_field(e)
            fn = arena.short(arena.innermost(e))
            if fa:
                Aaddr, aggv = fa
                ab, prev, lay = field_of(aggv, 'allocated_bytes'), field_of(aggv, 'prev'), field_of(aggv, 'layout')
                sites.add((fn, 'agg'))
                writers.add(arena.owner_fn(I, e))
                P = arena.mk_prover(I, e, res)
                want = app('add', ('load', ('fld', ('deref', prev), 'ChunkFooter.allocated_bytes'), None), app('sub', app('size', lay), footer_size))
                okv = False
                # the load epoch of prev.allocated_bytes is whatever the code read: accept any epoch of that location
                d, c = lin(P.norm(ab))
                pbase = prev[1] if prev[0] == 'addr' else ('deref', prev)
                loads = [k for k in d if k[0] == 'load' and k[1] == ('fld', pbase, 'ChunkFooter.allocated_bytes') and d[k] == 1]
                if len(loads) == 1:
                    rest = dict(d)
                    del rest[loads[0]]
                    usable = from_lin(rest, c)
                    okv = P.eq(usable, app('sub', app('size', lay), footer_size))
                if okv:
                    ctx.ok(RULE_NAME, '%s via %s: new footer.allocated_bytes == prev.allocated_bytes + (layout.size - FOOTER_SIZE)' % (fn, key), 'linear term equality, prev = the footer stored in .prev')
                else:
                    ctx.violation(RULE_NAME, fn, 'write(ChunkFooter{allocated_bytes})', 'new chunk records allocated_bytes = %s, which is not prev.allocated_bytes + (layout.size - %d) for prev=%s layout.size=%s' % (show(ab)[:120], footer_size[1], show(prev)[:40], show(app('size', lay))[:80]), e.span)
            elif ff and ff[1] == 'allocated_bytes':
                F = ff[0]
                sites.add((fn, 'field'))
                writers.add(arena.owner_fn(I, e))
                P = arena.mk_prover(I, e, res)
                # prev of F must be the sentinel at this point (accumulated bytes of the sentinel are 0)
                prev_stores = [s for s in res.events[:res.events.index(e)] if s.kind == 'store' and arena.footer_field(s) == (F, 'prev')]
                prev_now = prev_stores[-1].val if prev_stores else I.read(e.state.copy(), ('fld', ('deref', F), 'ChunkFooter.prev'))
                prev_is_sentinel = prev_now[0] == 'addr' and prover.root_static(prev_now[1]) == 'EMPTY_CHUNK'
                lay = ('load', ('fld', ('deref', F), 'ChunkFooter.layout'), 0)
                eqv = P.eq(e.val, app('sub', app('size', lay), footer_size))
                if prev_is_sentinel and eqv:
                    ctx.ok(RULE_NAME, '%s via %s: allocated_bytes := layout.size - FOOTER_SIZE with prev == sentinel (0 bytes)' % (fn, key), 'linear term equality')
                else:
                    ctx.violation(RULE_NAME, fn, 'store(ChunkFooter.allocated_bytes)', 'allocated_bytes := %s; expected size(F.layout) - %d with F.prev being the sentinel (prev now: %s)' % (show(e.val)[:120], footer_size[1], show(prev_now)[:60]), e.span)
    ctx.floor(RULE_NAME, len(sites), 2, 'stores of allocated_bytes (acquirer aggregate, reset)')
    # the static initializer
    sb = [b for b in db.raw['bodies'] if b['kind'] == 'static' and b['id'].endswith('EMPTY_CHUNK')]
    if sb:
        J = arena.ArenaInterp(db)
        r = J.run_entry(sb[0]['id'])
        v = r.ret
        inner = field_of(v, '0') if v and v[0] == 'agg' else None
        ab = field_of(inner, 'allocated_bytes') if inner and inner[0] == 'agg' else None
        if ab == C(0):
            ctx.ok(RULE_NAME, 'static EMPTY_CHUNK.allocated_bytes == 0', 'evaluated initializer body')
        else:
            ctx.violation(RULE_NAME, 'EMPTY_CHUNK', 'init(allocated_bytes)', 'the sentinel accounts %s bytes' % (show(ab) if ab else '?'))
    else:
        ctx.anchor_missing(RULE_NAME, 'static EMPTY_CHUNK initializer')
    return writers


def is_ccf_load(t):
    return t[0] == 'load' and t[1][0] == 'fld' and t[1][2].endswith('.current_chunk_footer')
