"""Clauses on the small helpers, accessors and iterator glue of collections::Vec / String / RawVec (C13.R12, C14.R9).
Each is one line in std; the clause states the returned term / the single store / the single forwarded call."""
from .. import arena
from ..terms import *

SELF = ('param', 1)
P2, P3, P4 = ('param', 2), ('param', 3), ('param', 4)


def fld(base, *names):
    lv = ('deref', base)
    for n in names:
        lv = ('fld', lv, n)
    return lv


def ld(base, *names):
    return ('load', fld(base, *names), 0)


def body(db, pred):
    for b in db.fn_bodies():
        if pred(b):
            return b
    return None


def method(db, adt, name, trait=None, kind='assoc_fn'):
    return body(db, lambda b: b['kind'] == kind and (b['meta'].get('impl_adt') or '').endswith(adt) and b['meta'].get('name') == name
                and ((trait is None and not b['meta'].get('impl_trait')) or (trait and (b['meta'].get('impl_trait') or '').endswith(trait))))


def own(r, kind='call'):
    return [e for e in r.events if e.is_own() and e.kind == kind]


class K:
    def __init__(self, ctx, config, rule):
        self.ctx, self.config, self.rule, self.n = ctx, config, rule, 0
        self.db = ctx.db(config)

    def run(self, b):
        return arena.run_fn(self.ctx, b['id'], self.config)

    def check(self, fn, clause, okv, detail='', span=None):
        self.n += 1
        if okv:
            self.ctx.ok(self.rule, '%s: %s' % (fn, clause), 'return / store / call term identity')
        else:
            self.ctx.violation(self.rule, fn, 'helper:' + clause.replace(' ', '_')[:60], '%s deviates from std: %s %s' % (fn, clause, detail), span)

    def ret_is(self, adt, name, want, label=None, trait=None, clause=None):
        b = method(self.db, adt, name, trait)
        fn = label or '%s::%s' % (adt.split('::')[-1], name)
        if b is None:
            self.ctx.anchor_missing(self.rule, fn)
            return
        I, r = self.run(b)
        okv = want(r.ret, I, r) if callable(want) else r.ret == want
        self.check(fn, clause or 'returns %s' % (show(want)[:60] if not callable(want) else 'the expected term'), okv, show(r.ret)[:80] if r.ret is not None else '', b.get('span'))


def check_effect(ctx, config, rule, prefixes):
    """Every `fn(&mut self, ..)` without a result in the given source files does *something* (a call, a store, a copy, a
    drop): std's counterpart of each of them has an effect, so a body that has none (its only statement lost) cannot
    behave like it.  The positive side (what the effect must be) is the business of the clause of that method, where one
    exists; this inventory has no gaps."""
    db = ctx.db(config)
    n = 0
    for b in db.fn_bodies():
        m = b['meta']
        sp = b.get('span') or ''
        if b['kind'] == 'closure' or not any(sp.startswith(p_) for p_ in prefixes):
            continue
        ins = m.get('inputs') or []
        if not ins or not ins[0].lstrip().startswith('&mut') or (m.get('output') or '()') != '()':
            continue
        I, r = arena.run_fn(ctx, b['id'], config)
        n += 1
        if any(e.kind in ('call', 'store', 'copy', 'drop', 'usercall', 'drop_in_place') for e in r.events):
            ctx.ok(rule, '%s has an effect' % arena.short(b['id']), 'event inventory of the body')
        else:
            ctx.violation(rule, arena.short(b['id']), 'no-effect', '%s takes &mut self, returns nothing and does nothing: it cannot behave like its std counterpart' % arena.short(b['id']), b.get('span'))
    ctx.floor(rule + '.effect', n, 5, 'mutating methods without a result')


def check_vec(ctx, config, rule):
    k = K(ctx, config, rule)
    db = k.db
    V = 'collections::vec::Vec'
    LEN, PTR, CAP, AL = ld(SELF, V + '.len'), ld(SELF, V + '.buf', 'collections::raw_vec::RawVec.ptr'), ld(SELF, V + '.buf', 'collections::raw_vec::RawVec.cap'), ld(SELF, V + '.buf', 'collections::raw_vec::RawVec.a')
    k.ret_is('vec::Vec', 'len', LEN)
    k.ret_is('vec::Vec', 'is_empty', lambda t, I, r: t in (('cmp', 'eq', C(0), LEN), ('cmp', 'eq', LEN, C(0))), clause='len == 0')
    k.ret_is('vec::Vec', 'as_ptr', PTR)
    k.ret_is('vec::Vec', 'as_mut_ptr', PTR)
    k.ret_is('vec::Vec', 'bump', AL)
    k.ret_is('vec::Vec', 'new_in', lambda t, I, r: t is not None and t[0] == 'agg' and field_of(t, 'len') == C(0) and field_of(field_of(t, 'buf'), 'cap') == C(0) and field_of(field_of(t, 'buf'), 'a') == SELF, clause='empty vector (len 0, cap 0) in the given arena')
    k.ret_is('vec::Vec', 'from_raw_parts_in', lambda t, I, r: t is not None and t[0] == 'agg' and field_of(t, 'len') == P2 and [field_of(field_of(t, 'buf'), x) for x in ('ptr', 'cap', 'a')] == [SELF, P3, P4], clause='(ptr, len, cap, arena) stored as given')
    b = method(db, 'vec::Vec', 'with_capacity_in')
    if b:
        I, r = k.run(b)
        wc = [e for e in own(r) if (e.callee or '').endswith('RawVec::<\'a, T>::with_capacity_in')]
        k.check('Vec::with_capacity_in', 'raw buffer with_capacity_in(capacity, bump), len 0', len(wc) == 1 and wc[0].args == [SELF, P2] and r.ret is not None and r.ret[0] == 'agg' and field_of(r.ret, 'len') == C(0), '', b.get('span'))
    b = method(db, 'vec::Vec', 'set_len')
    if b:
        I, r = k.run(b)
        st = own(r, 'store')
        k.check('Vec::set_len', 'self.len := new_len and nothing else', len(st) == 1 and st[0].lv == fld(SELF, V + '.len') and st[0].val == P2, '', b.get('span'))
    # ---- SetLenOnDrop
    G = 'collections::vec::SetLenOnDrop'
    b = method(db, 'vec::SetLenOnDrop', 'new')
    if b:
        I, r = k.run(b)
        k.check('SetLenOnDrop::new', '{ len: the reference, local_len: *len }', r.ret is not None and r.ret[0] == 'agg' and field_of(r.ret, 'len') == SELF and field_of(r.ret, 'local_len') == ('load', ('deref', SELF), 0), '', b.get('span'))
    for name, op in (('increment_len', 'add'), ('decrement_len', 'sub')):
        b = method(db, 'vec::SetLenOnDrop', name)
        if b:
            I, r = k.run(b)
            st = own(r, 'store')
            cur = ld(SELF, G + '.local_len')
            k.check('SetLenOnDrop::' + name, 'local_len %s= n' % ('+' if op == 'add' else '-'), len(st) == 1 and st[0].lv == fld(SELF, G + '.local_len') and st[0].val in (app(op, cur, P2), ('app', 'wsub', cur, P2)), '', b.get('span'))
    b = method(db, 'vec::SetLenOnDrop', 'drop', 'Drop')
    if b:
        I, r = k.run(b)
        st = own(r, 'store')
        k.check('SetLenOnDrop::drop', '*len := local_len', len(st) == 1 and st[0].lv == ('deref', ld(SELF, G + '.len')) and st[0].val == ld(SELF, G + '.local_len'), '', b.get('span'))
    # ---- ExtendElement
    b = body(db, lambda b: b['kind'] == 'assoc_fn' and 'ExtendElement' in b['id'] and b['meta'].get('name') == 'next')
    if b:
        I, r = k.run(b)
        cl = [e for e in own(r) if (e.extra.get('trait_path') or '').endswith('Clone::clone')]
        k.check('ExtendElement::next', 'a clone of the element', len(cl) == 1 and r.ret == cl[0].ret and 'ExtendElement.0' in repr(cl[0].args[0]), '', b.get('span'))
    b = body(db, lambda b: b['kind'] == 'assoc_fn' and 'ExtendElement' in b['id'] and b['meta'].get('name') == 'last')
    if b:
        I, r = k.run(b)
        k.check('ExtendElement::last', 'the element itself (moved)', r.ret == ('app', 'proj', SELF, 'collections::vec::ExtendElement.0') and not own(r), '', b.get('span'))
    # ---- Drain / Splice / DrainFilter / IntoIter iterator glue
    for name, tr in (('next', 'iterator::Iterator'), ('next_back', 'DoubleEndedIterator')):
        b = method(db, 'vec::Drain', name, tr)
        if b:
            I, r = k.run(b)
            it = [e for e in own(r) if (e.callee or '').endswith('::' + name) and e.args and e.args[0] == ('addr', fld(SELF, 'collections::vec::Drain.iter'))]
            alts = [t for t, _ in arena.alternatives(I, r.ret, set())] if r.ret is not None else []
            oks = any(t[0] == 'agg' and t[2] == 'Some' and field_of(t, '0')[0] == 'load' and it and it[0].ret in subterms(field_of(t, '0')) for t in alts) and any(t[0] == 'agg' and t[2] == 'None' for t in alts)
            k.check('Drain::' + name, 'takes the %s slot of the drained range and moves the element out of it (ptr::read), None when the range is exhausted' % ('next' if name == 'next' else 'last'), len(it) == 1 and oks, '', b.get('span'))
        b = method(db, 'vec::Splice', name, tr)
        if b:
            I, r = k.run(b)
            it = [e for e in own(r) if (e.callee or '').endswith('::' + name) and e.args and e.args[0] == ('addr', fld(SELF, 'collections::vec::Splice.drain'))]
            k.check('Splice::' + name, 'forwards to the drain', len(it) == 1 and len(own(r)) == 1 and r.ret is not None, '', b.get('span'))
    for adt, f0 in (('vec::Drain', 'collections::vec::Drain.iter'), ('vec::Splice', 'collections::vec::Splice.drain')):
        b = method(db, adt, 'size_hint', 'iterator::Iterator')
        if b:
            I, r = k.run(b)
            it = [e for e in own(r) if (e.callee or '').endswith('::size_hint') and e.args and e.args[0] == ('addr', fld(SELF, f0))]
            k.check(adt.split('::')[-1] + '::size_hint', 'forwards to the inner iterator', len(it) == 1 and r.ret is not None and (r.ret == it[0].ret or it[0].ret in subterms(r.ret) or len(own(r)) == 1), '', b.get('span'))
    b = method(db, 'vec::DrainFilter', 'size_hint', 'iterator::Iterator')
    if b:
        I, r = k.run(b)
        D = 'collections::vec::DrainFilter'
        hi = ('app', 'wsub', ld(SELF, D + '.old_len'), ld(SELF, D + '.idx'))
        okv = r.ret is not None and r.ret[0] == 'agg' and field_of(r.ret, '0') == C(0) and field_of(r.ret, '1') in (some(hi), some(app('sub', ld(SELF, D + '.old_len'), ld(SELF, D + '.idx'))))
        k.check('DrainFilter::size_hint', '(0, Some(old_len - idx))', okv, '', b.get('span'))
    b = method(db, 'vec::IntoIter', 'count', 'iterator::Iterator')
    if b:
        I, r = k.run(b)
        ln = [e for e in own(r) if 'ExactSizeIterator' in (e.callee or '') and e.callee.endswith('::len')]
        from .c13 import intoiter_len_ok
        okc = (len(ln) == 1 and r.ret == ln[0].ret) or (not ln and r.ret is not None and intoiter_len_ok(r.ret))
        k.check('IntoIter::count', 'the exact remaining length', okc, '', b.get('span'))
    # ---- retain / dedup / dedup_by_key / splice: compositions with an adapter closure
    b = method(db, 'vec::Vec', 'retain')
    if b:
        I, r = k.run(b)
        df = [e for e in own(r) if (e.callee or '').endswith('::drain_filter')]
        dr = [e for e in r.events if e.is_own() and e.kind == 'drop' and 'DrainFilter' in (e.extra.get('ty') or '')]
        cl = [x for x in db.fn_bodies() if x['kind'] == 'closure' and x['id'].startswith(b['id'] + '::{closure')]
        okc = False
        if cl:
            I2, r2 = arena.run_fn(ctx, cl[0]['id'], config)
            neg = r2.ret[2] if (r2.ret is not None and r2.ret[:2] == ('app', 'not')) else (r2.ret[1] if r2.ret is not None and r2.ret[0] == 'not' else None)
            okc = neg is not None and neg[0] == 'call' and neg[1] == '<callable>' and neg[2] == (P2,)
        k.check('Vec::retain', 'drain_filter(|x| !f(x)) consumed on the spot (the filter iterator is dropped before returning)', len(df) == 1 and df[0].args[0] == SELF and okc and len(dr) >= 1, '', b.get('span'))
    b = method(db, 'vec::Vec', 'dedup_by_key')
    if b:
        I, r = k.run(b)
        dd = [e for e in own(r) if (e.callee or '').endswith('::dedup_by')]
        cl = [x for x in db.fn_bodies() if x['kind'] == 'closure' and x['id'].startswith(b['id'] + '::{closure')]
        okc = False
        if cl:
            I2, r2 = arena.run_fn(ctx, cl[0]['id'], config)
            uc = [e for e in r2.events if e.kind == 'usercall']
            eqc = [e for e in r2.events if e.kind == 'call' and (e.extra.get('trait_path') or '').endswith('PartialEq::eq')]
            okc = len(uc) == 2 and [u.args[0] for u in uc] == [P2, P3] and len(eqc) == 1 and r2.ret == eqc[0].ret
        k.check('Vec::dedup_by_key', 'dedup_by(|a, b| key(a) == key(b))', len(dd) == 1 and dd[0].args[0] == SELF and okc, '', b.get('span'))
    b = method(db, 'vec::Vec', 'dedup')
    if b:
        I, r = k.run(b)
        dd = [e for e in own(r) if (e.callee or '').endswith('::dedup_by')]
        cl = [x for x in db.fn_bodies() if x['kind'] == 'closure' and x['id'].startswith(b['id'] + '::{closure')]
        okc = False
        if cl:
            I2, r2 = arena.run_fn(ctx, cl[0]['id'], config)
            eqc = [e for e in r2.events if e.kind == 'call' and (e.extra.get('trait_path') or '').endswith('PartialEq::eq')]
            okc = len(eqc) == 1 and r2.ret == eqc[0].ret and len([e for e in r2.events if e.kind == 'call']) == 1
        k.check('Vec::dedup', 'dedup_by(|a, b| a == b)', len(dd) == 1 and dd[0].args[0] == SELF and okc, '', b.get('span'))
    b = method(db, 'vec::Vec', 'splice')
    if b:
        I, r = k.run(b)
        dr = [e for e in own(r) if (e.callee or '').endswith("Vec::<'bump, T>::drain")]
        it = [e for e in own(r) if (e.extra.get('trait_path') or '').endswith('IntoIterator::into_iter')]
        okv = len(dr) == 1 and dr[0].args == [SELF, P2] and len(it) == 1 and it[0].args[0] == P3 and r.ret is not None and r.ret[0] == 'agg' and field_of(r.ret, 'replace_with') == it[0].ret
        k.check('Vec::splice', 'Splice { drain: self.drain(range), replace_with: replace_with.into_iter() }', okv, '', b.get('span'))
    # ---- RawVec accessors / wrappers
    R = 'collections::raw_vec::RawVec'
    k.ret_is('raw_vec::RawVec', 'ptr', ld(SELF, R + '.ptr'))
    k.ret_is('raw_vec::RawVec', 'bump', ld(SELF, R + '.a'))
    for name, fall, strat in (('reserve', 'Infallible', 'Amortized'), ('reserve_exact', 'Infallible', 'Exact'), ('try_reserve', 'Fallible', 'Amortized'), ('try_reserve_exact', 'Fallible', 'Exact')):
        b = method(db, 'raw_vec::RawVec', name)
        if b is None:
            ctx.anchor_missing(rule, 'RawVec::' + name)
            continue
        I, r = k.run(b)
        ri = [e for e in r.events if e.kind == 'call' and (e.callee or '').endswith('::reserve_internal') and len(e.args) >= 5]
        okv = len(ri) == 1 and ri[0].args[1:3] == [P2, P3] and ri[0].args[3][0] == 'agg' and ri[0].args[3][2] == fall and ri[0].args[4][0] == 'agg' and ri[0].args[4][2] == strat
        k.check('RawVec::' + name, 'reserve_internal(used, extra, %s, %s)' % (fall, strat), okv, '', b.get('span'))
    b = method(db, 'raw_vec::RawVec', 'with_capacity_zeroed_in')
    if b:
        I, r = k.run(b)
        ai = [e for e in own(r) if (e.callee or '').endswith('::allocate_in')]
        k.check('RawVec::with_capacity_zeroed_in', 'allocate_in(capacity, zeroed = true, arena)', len(ai) == 1 and ai[0].args == [SELF, C(1), P2], '', b.get('span'))
    b = method(db, 'raw_vec::RawVec', 'with_capacity_in')
    if b:
        I, r = k.run(b)
        ai = [e for e in own(r) if (e.callee or '').endswith('::allocate_in')]
        k.check('RawVec::with_capacity_in', 'allocate_in(capacity, zeroed = false, arena)', len(ai) == 1 and ai[0].args == [SELF, C(0), P2], '', b.get('span'))
    # ---- error mapping (which failure a caller of try_reserve* sees / which panic reserve* raises)
    for src_ty, want in (('AllocErr', 'AllocErr'), ('LayoutError', 'CapacityOverflow')):
        b = body(db, lambda b: b['kind'] == 'assoc_fn' and 'CollectionAllocErr as ' in b['id'] and 'convert::From<' in b['id'] and src_ty in b['id'].split('From<')[1] and b['meta'].get('name') == 'from')
        if b is None:
            ctx.anchor_missing(rule, 'From<%s> for CollectionAllocErr' % src_ty)
            continue
        I, r = k.run(b)
        k.check('CollectionAllocErr::from(%s)' % src_ty, 'maps to CollectionAllocErr::%s' % want, r.ret is not None and r.ret[0] == 'agg' and r.ret[2] == want, show(r.ret)[:60] if r.ret is not None else '', b.get('span'))
    b = method(db, 'raw_vec::RawVec', 'reserve_internal_or_panic')
    if b:
        I, r = k.run(b)
        ri = [e for e in own(r) if (e.callee or '').endswith('::reserve_internal')]
        co = [e for e in own(r) if (e.callee or '').endswith('::capacity_overflow')]
        okv = len(ri) == 1 and ri[0].args[1:3] == [P2, P3] and ri[0].args[3][0] == 'agg' and ri[0].args[3][2] == 'Infallible' and ri[0].args[4] == P4 and len(co) == 1 \
            and any(f[0] == 'is' and f[2] == 'CapacityOverflow' for f in co[0].state.facts)
        k.check('RawVec::reserve_internal_or_panic', 'reserve_internal(.., Infallible, strategy); the capacity-overflow panic exactly for Err(CapacityOverflow)', okv, '', b.get('span'))
    # ---- RawVec::shrink_to_fit / dealloc_buffer / Drop
    R_ = 'collections::raw_vec::RawVec'
    CAPL, PTRL, AL_ = ld(SELF, R_ + '.cap'), ld(SELF, R_ + '.ptr'), ld(SELF, R_ + '.a')
    b = method(db, 'raw_vec::RawVec', 'shrink_to_fit')
    if b:
        I, r = k.run(b)
        ev = own(r)
        pan = [e for e in r.events if e.is_own() and e.kind in ('diverge', 'panic') and 'panic' in (e.callee or '')]
        k.check('RawVec::shrink_to_fit', 'panics exactly when cap < amount', bool(pan) and any(('lt', CAPL, P2) in e.state.facts for e in pan), '', b.get('span'))
        db_ = [e for e in ev if (e.callee or '').endswith('::dealloc_buffer')]
        ni = [e for e in ev if (e.callee or '').endswith('RawVec::<\'a, T>::new_in')]
        zero = lambda e: any(f in (('eq', C(0), P2), ('eq', P2, C(0))) for f in e.state.facts)
        # the arena handle is read before or after the release (nothing in between writes the field: no store to .a in this function)
        same_a = len(ni) == 1 and len(ni[0].args) == 1 and ni[0].args[0][:2] == AL_[:2] and not [e for e in own(r, 'store') if e.lv == fld(SELF, R_ + '.a')]
        okz = len(db_) == 1 and zero(db_[0]) and same_a and r.events.index(db_[0]) < r.events.index(ni[0])
        if not okz and len(db_) == 1 and zero(db_[0]) and not ni:
            # the same state written field by field: ptr := dangling, cap := 0, the arena handle untouched
            fs = [e for e in own(r, 'store') if zero(e) and r.events.index(e) > r.events.index(db_[0])]
            pst = [e for e in fs if e.lv == fld(SELF, R_ + '.ptr')]
            cst = [e for e in fs if e.lv == fld(SELF, R_ + '.cap')]
            ast = [e for e in own(r, 'store') if e.lv == fld(SELF, R_ + '.a')]
            okz = len(pst) == 1 and 'dangling' in repr(pst[0].val) and len(cst) == 1 and cst[0].val == C(0) and not ast
        k.check('RawVec::shrink_to_fit', 'amount == 0: the buffer is released and self becomes an empty RawVec in the same arena', okz)
        ra = [e for e in ev if (e.extra.get('trait_path') or '') == 'alloc::Alloc::realloc']
        sts = own(r, 'store')
        sz = sym('sizeof(T)')
        okr = len(ra) == 1 and ra[0].args[1] == PTRL and ra[0].args[2] == ('layout', app('mul', sz, CAPL), sym('alignof(T)')) and ra[0].args[3] == app('mul', sz, P2) \
            and any(f[0] == 'ne' and set(f[1:]) == {CAPL, P2} for f in ra[0].state.facts)
        k.check('RawVec::shrink_to_fit', 'otherwise realloc(ptr, Layout(cap * size), amount * size) exactly when cap != amount', okr)
        capst = [e for e in sts if e.lv == fld(SELF, R_ + '.cap')]
        # zero-sized elements own no buffer: the panic / release / realloc arms are reached only for size_of::<T>() != 0 and the
        # early `cap := amount; return` exactly for size_of::<T>() == 0
        szfact = lambda e, op: any(f[0] == op and len(f) == 3 and C(0) in f[1:] and sz in f[1:] for f in e.state.facts)
        arms = pan + db_ + ra
        okg = bool(arms) and all(szfact(e, 'ne') for e in arms) and any(szfact(e, 'eq') for e in capst) and all(szfact(e, 'eq') or szfact(e, 'ne') for e in capst)
        k.check('RawVec::shrink_to_fit', 'the buffer arms run only for size_of::<T>() != 0; zero-sized elements just record cap := amount', okg)
        k.check('RawVec::shrink_to_fit', 'cap := amount', bool(capst) and all(e.val == P2 or (is_c(e.val) and (('eq', e.val, P2) in e.state.facts or ('eq', P2, e.val) in e.state.facts)) for e in capst))
    b = method(db, 'raw_vec::RawVec', 'dealloc_buffer')
    if b:
        I, r = k.run(b)
        de = [e for e in own(r) if (e.callee or '').endswith('Bump::<MIN_ALIGN>::dealloc') or (e.extra.get('trait_path') or '') == 'alloc::Alloc::dealloc']
        sz = sym('sizeof(T)')
        okv = len(de) == 1 and de[0].args[1] == PTRL and de[0].args[2] == ('layout', app('mul', sz, CAPL), sym('alignof(T)')) \
            and any(f[0] == 'ne' and C(0) in f[1:] and sz in f[1:] for f in de[0].state.facts) and any(f[0] == 'ne' and C(0) in f[1:] and CAPL in f[1:] for f in de[0].state.facts)
        k.check('RawVec::dealloc_buffer', 'dealloc(ptr, Layout(cap * size)) exactly when the element size and the capacity are non-zero', okv, '', b.get('span'))
    b = method(db, 'raw_vec::RawVec', 'drop', 'Drop')
    if b:
        I, r = k.run(b)
        de = [e for e in own(r) if (e.callee or '').endswith('::dealloc_buffer')]
        k.check('RawVec::drop', 'releases the buffer (and nothing else)', len(de) == 1 and de[0].args == [SELF] and len(own(r)) == 1, '', b.get('span'))
    ctx.floor(rule, k.n, 44, 'helper / accessor / iterator-glue clauses for Vec and RawVec')


def check_string(ctx, config, rule):
    k = K(ctx, config, rule)
    db = k.db
    S, V = 'collections::string::String', 'collections::vec::Vec'
    VEC = fld(SELF, S + '.vec')
    LEN = ('load', ('fld', VEC, V + '.len'), 0)
    PTR = ('load', ('fld', ('fld', VEC, V + '.buf'), 'collections::raw_vec::RawVec.ptr'), 0)
    view = lambda t, I, r: t is not None and t[0] == 'agg' and t[1] == 'slice' and field_of(t, 'ptr') == PTR and field_of(t, 'len') == LEN
    k.ret_is('string::String', 'len', LEN)
    k.ret_is('string::String', 'is_empty', lambda t, I, r: t in (('cmp', 'eq', C(0), LEN), ('cmp', 'eq', LEN, C(0))), clause='len == 0')
    k.ret_is('string::String', 'as_bytes', view, clause='the whole byte contents')
    k.ret_is('string::String', 'as_str', view, clause='the whole text')
    k.ret_is('string::String', 'as_mut_str', view, clause='the whole text')
    k.ret_is('string::String', 'as_mut_vec', ('addr', VEC), clause='the byte vector itself')
    k.ret_is('string::String', 'bump', ('load', ('fld', ('fld', VEC, V + '.buf'), 'collections::raw_vec::RawVec.a'), 0))
    k.ret_is('string::String', 'new_in', lambda t, I, r: t is not None and t[0] == 'agg' and field_of(field_of(t, 'vec'), 'len') == C(0) and field_of(field_of(field_of(t, 'vec'), 'buf'), 'a') == SELF, clause='empty string in the given arena')
    b = method(db, 'string::String', 'capacity')
    if b:
        I, r = k.run(b)
        cc = [e for e in own(r) if (e.callee or '').endswith("Vec::<'bump, T>::capacity")]
        k.check('String::capacity', "the byte vector's capacity", len(cc) == 1 and cc[0].args[0] == ('addr', VEC) and r.ret == cc[0].ret, '', b.get('span'))
    b = method(db, 'string::String', 'with_capacity_in')
    if b:
        I, r = k.run(b)
        wc = [e for e in own(r) if (e.callee or '').endswith("Vec::<'bump, T>::with_capacity_in")]
        k.check('String::with_capacity_in', 'Vec::with_capacity_in(capacity, bump)', len(wc) == 1 and wc[0].args == [SELF, P2] and r.ret is not None and r.ret[0] == 'agg' and field_of(r.ret, 'vec') == wc[0].ret, '', b.get('span'))
    b = method(db, 'string::String', 'from_raw_parts_in')
    if b:
        I, r = k.run(b)
        fr = [e for e in own(r) if (e.callee or '').endswith("Vec::<'bump, T>::from_raw_parts_in")]
        k.check('String::from_raw_parts_in', 'Vec::from_raw_parts_in(buf, length, capacity, bump)', len(fr) == 1 and fr[0].args == [SELF, P2, P3, P4], '', b.get('span'))
    b = method(db, 'string::String', 'from_utf8_unchecked')
    if b:
        I, r = k.run(b)
        k.check('String::from_utf8_unchecked', 'String { vec: bytes }', r.ret is not None and r.ret[0] == 'agg' and field_of(r.ret, 'vec') == SELF, '', b.get('span'))
    # FromUtf8Error accessors
    E = 'collections::string::FromUtf8Error'
    eb = body(db, lambda b: b['kind'] == 'assoc_fn' and (b['meta'].get('impl_adt') or '').endswith('string::FromUtf8Error') and b['meta'].get('name') == 'into_bytes')
    if eb:
        I, r = k.run(eb)
        k.check('FromUtf8Error::into_bytes', 'the byte vector that failed validation', r.ret == ('app', 'proj', SELF, E + '.bytes'), '', eb.get('span'))
    eb = body(db, lambda b: b['kind'] == 'assoc_fn' and (b['meta'].get('impl_adt') or '').endswith('string::FromUtf8Error') and b['meta'].get('name') == 'utf8_error')
    if eb:
        I, r = k.run(eb)
        k.check('FromUtf8Error::utf8_error', 'the stored validation error', r.ret == ld(SELF, E + '.error'), '', eb.get('span'))
    # string Drain: iterate the chars of the drained range
    for name, tr in (('next', 'iterator::Iterator'), ('next_back', 'DoubleEndedIterator'), ('size_hint', 'iterator::Iterator')):
        b = method(db, 'string::Drain', name, tr)
        if b:
            I, r = k.run(b)
            it = [e for e in own(r) if (e.callee or '').endswith('::' + name) and e.args and e.args[0] == ('addr', fld(SELF, 'collections::string::Drain.iter'))]
            k.check('string::Drain::' + name, 'forwards to the Chars iterator of the drained range', len(it) == 1 and len(own(r)) == 1 and r.ret == it[0].ret, '', b.get('span'))
    VREF = ('addr', VEC)
    for name, callee, extra in (('clear', "Vec::<'bump, T>::clear", []), ('reserve', "Vec::<'bump, T>::reserve", [P2]), ('reserve_exact', "Vec::<'bump, T>::reserve_exact", [P2]),
                                ('shrink_to_fit', "Vec::<'bump, T>::shrink_to_fit", [])):
        b = method(db, 'string::String', name)
        if b is None:
            ctx.anchor_missing(rule, 'String::' + name)
            continue
        I, r = k.run(b)
        cs = [e for e in own(r) if (e.callee or '').endswith(callee)]
        k.check('String::' + name, 'forwards to the byte vector', len(cs) == 1 and cs[0].args == [VREF] + extra and len(own(r)) == 1, '', b.get('span'))
    b = method(db, 'string::String', 'drain')
    if b:
        I, r = k.run(b)
        ix = [e for e in own(r) if (e.callee or '').endswith('::index') and len(e.args) == 2 and e.args[1][0] == 'agg' and e.args[1][1].endswith('Range')]
        ch = [e for e in own(r) if (e.callee or '').endswith('::chars')]
        ret = r.ret
        okv = ret is not None and ret[0] == 'agg' and field_of(ret, 'string') == SELF and len(ix) == 1 and field_of(ix[0].args[1], 'start') == field_of(ret, 'start') and field_of(ix[0].args[1], 'end') == field_of(ret, 'end') \
            and len(ch) == 1 and ch[0].args[0] == ix[0].ret and field_of(ret, 'iter') == ch[0].ret
        k.check('String::drain', 'Drain { string, start, end, iter: self[start..end].chars() } (the slicing is the boundary / range check)', okv, '', b.get('span'))
        # the bounds are std's: start = Included(n) -> n, Excluded(n) -> n + 1, Unbounded -> 0; end = Included(n) -> n + 1, Excluded(n) -> n, Unbounded -> len
        def bound_alts(t, which):
            out = set()
            if t is None:
                return out
            for x in arena.phi_leaves(t):
                plus = 0
                if x[0] == 'app' and x[1] == 'add' and len(x) == 4 and is_c(x[3]):
                    plus, x = x[3][1], x[2]
                elif x[0] == 'app' and x[1] == 'payload' and x[2][0] == 'app' and x[2][1] == 'checked_add' and is_c(x[2][3]):
                    plus, x = x[2][3][1], x[2][2]
                if x[0] == 'load' and x[1][0] == 'deref' and x[1][1][:2] == ('app', 'vproj') and x[1][1][2][0] == 'call' and x[1][1][2][1].endswith('::' + which):
                    out.add((x[1][1][3], plus))
                elif is_c(x):
                    out.add(('const', x[1]))
                elif x == LEN or (x[0] == 'call' and x[1].endswith('::len')) or (x[0] == 'load' and x[1][0] == 'fld' and x[1][2].endswith('Vec.len')):
                    out.add(('len', 0))
                else:
                    out.add(('?', show(x)[:40]))
            return out
        if ret is not None and ret[0] == 'agg':
            sa, ea = bound_alts(field_of(ret, 'start'), 'start_bound'), bound_alts(field_of(ret, 'end'), 'end_bound')
            unknown = any(a == '?' for a, _ in sa | ea)
            okb = sa == {('Included', 0), ('Excluded', 1), ('const', 0)} and ea == {('Included', 1), ('Excluded', 0), ('len', 0)}
            if okb or not unknown:      # an unrecognised spelling of a bound is not judged
                k.check('String::drain', 'start = Included(n) => n, Excluded(n) => n + 1, Unbounded => 0; end = Included(n) => n + 1, Excluded(n) => n, Unbounded => len', okb, '%s / %s' % (sorted(sa), sorted(ea)))
    b = method(db, 'string::Drain', 'drop', 'Drop')
    if b:
        I, r = k.run(b)
        D = 'collections::string::Drain'
        st, en = ld(SELF, D + '.start'), ld(SELF, D + '.end')
        dr = [e for e in own(r) if (e.callee or '').endswith("Vec::<'bump, T>::drain")]
        okv = len(dr) == 1 and dr[0].args[1][0] == 'agg' and field_of(dr[0].args[1], 'start') == st and field_of(dr[0].args[1], 'end') == en and ('le', st, en) in dr[0].state.facts \
            and any(f[0] == 'le' and f[1] == en for f in dr[0].state.facts)
        k.check('string::Drain::drop', 'removes exactly bytes start..end from the vector, and only if start <= end <= len', okv, '', b.get('span'))
    b = method(db, 'string::String', 'replace_range')
    if b:
        I, r = k.run(b)
        sp = [e for e in own(r) if (e.callee or '').endswith("Vec::<'bump, T>::splice")]
        by = [e for e in own(r) if (e.callee or '').endswith('::bytes')]
        okv = len(sp) == 1 and sp[0].args[0] == VREF and len(by) == 1 and by[0].args == [P3] and sp[0].args[2] == by[0].ret
        k.check('String::replace_range', 'vec.splice(range, replace_with.bytes()), consumed on the spot', okv, '', b.get('span'))
    ctx.floor(rule, k.n, 24, 'helper / accessor / iterator-glue clauses for String')
