"""C14 — collections::String: UTF-8 invariant and agreement with std (structural clauses)."""
from .. import arena, prover
from ..terms import *
from ..facts import loc

EXPLANATION = ("(R1) boundary gating: in truncate, remove, insert, insert_str, split_off, drain, replace_range every byte-level mutation at a caller-supplied index is reached only "
               "under the true edge of is_char_boundary(self, idx) or after a checked str slicing at that index; (R2) unchecked-view inventory: every from_utf8_unchecked(_mut) "
               "call and every String{vec} construction in a safe function belongs to a justified class (empty vector, view of self.vec, Ok edge of str::from_utf8 on the same "
               "bytes, fully validated first chunk, boundary-gated split, decoder-validated prefix) — a new unclassified site is a violation; (R3) decoder tables: the "
               "UTF8_CHAR_WIDTH static (evaluated by rustc) equals the RFC 3629 width table, the lossy decoder's match arms (from HIR patterns) accept exactly the second-byte ranges "
               "of Unicode Table 3-7, each further byte is checked as a continuation byte, and the replacement character is pushed exactly when the broken part is non-empty; "
               "(O4) byte-shift formulas of pop / remove / insert_bytes / from_str_in equal std's (source, destination, count, new length)."
               ' (R3 also) cursor discipline of the lossy decoder; (O4 34 clauses incl. retain loop, push/insert compositions, from_utf16_in / from_utf8 / into_bump_str); (R6) full-text forwarding of Hash/Display/Debug (to the str impl), comparison, Index, Borrow/AsRef; (R7) compositions: Clone, Extend, fmt::Write, Add, serde, from_iter_in; (R8) the format! macro analysed on its expansion.')
RULE = "rule instance = (rule, method/site/table row); distinct by (rule, site)"

SELF = ('param', 1)
VEC = 'collections::string::String.vec'
LEN_LV = ('fld', ('fld', ('deref', SELF), VEC), 'collections::vec::Vec.len')
PTR_LV = ('fld', ('fld', ('fld', ('deref', SELF), VEC), 'collections::vec::Vec.buf'), 'collections::raw_vec::RawVec.ptr')
LEN, BASE = sym('LEN'), sym('BASE')


def string_method(db, name, trait=None):
    for b in db.fn_bodies():
        m = b['meta']
        if b['kind'] == 'assoc_fn' and (m.get('impl_adt') or '').endswith('string::String') and m.get('name') == name:
            if (trait is None and not m.get('impl_trait')) or (trait and (m.get('impl_trait') or '').endswith(trait)):
                return b
    return None


def strip(t):
    if not isinstance(t, tuple) or not t:
        return t
    if t[0] == 'load':
        if t[1] == LEN_LV:
            return LEN
        if t[1] == PTR_LV:
            return BASE
        return ('load', strip(t[1]), 0)
    if t[0] == 'phi':
        alts = tuple((p, strip(x)) for p, x in t[2])
        vals = {x for _, x in alts}
        if len(vals) == 1:
            return vals.pop()
        if BASE in vals and all(x == BASE or any(isinstance(s, tuple) and s and (s[0] == 'phi' or (s[0] == 'app' and s[1] in ('galloc', 'iter_any'))) for s in subterms(x)) for x in vals):
            return BASE
        return ('phi', t[1], alts)
    r = tuple(strip(x) if isinstance(x, tuple) else x for x in t)
    return simplify(r) if r[0] == 'app' else r


def eqn(I, a, b, facts=()):
    P = prover.Prover(I, {tuple(strip(x) if isinstance(x, tuple) else x for x in f) for f in facts}, use_J=False)
    ca, cb = P.norm(strip(a)), P.norm(strip(b))
    return ca == cb or P.eq(ca, cb)


def boundary_gated(I, r, e, idx):
    """the event is reached only after `idx` was validated as a char boundary"""
    for f in e.state.facts:
        if f[0] == 'true' and f[1][0] == 'call' and f[1][1].endswith('is_char_boundary') and len(f[1][2]) > 1 and f[1][2][1] == idx:
            return 'true edge of is_char_boundary(self, idx)'
    ei = r.events.index(e)
    for p in r.events[:ei]:
        if p.kind == 'call' and p.callee and ('str::traits' in p.callee and p.callee.endswith('::index') or p.callee.endswith('::index_mut')) and p.args:
            rng = p.args[-1]
            if rng[0] == 'agg' and any(v == idx for _, v in rng[3]):
                return 'checked str slicing at idx'
    return None


def run(ctx, config='rel-all'):
    if config == 'rel-default':
        return
    db = ctx.db(config)
    ctx.assume("std::str's own functions (is_char_boundary, from_utf8, chars, char::len_utf8) are trusted", "equality of results with std::string::String for all programs is not decided")
    # ------------------------------------------------------------------ R1
    MUT = ('::truncate', '::set_len', '::split_off', '::drain', '::splice', '::insert_bytes')
    specs = {'truncate': [('param', 2)], 'remove': [('param', 2)], 'insert': [('param', 2)], 'insert_str': [('param', 2)], 'split_off': [('param', 2)]}
    n1 = 0
    for name, idxs in specs.items():
        b = string_method(db, name)
        if b is None:
            ctx.anchor_missing('R1', 'String::' + name)
            continue
        I, r = arena.run_fn(ctx, b['id'], config)
        # requirement side: besides the known byte-level primitives, *any* method of the byte vector that is handed the caller's
        # index (vec.insert(idx, b), vec.remove(idx), ..) moves bytes at that index
        def takes_index(e):
            return 'collections::vec::Vec' in e.callee and len(e.args or ()) > 1 and any(ix in subterms(a) for a in e.args[1:] if isinstance(a, tuple) for ix in idxs)
        muts = [e for e in r.events if e.is_own() and (e.kind == 'copy' or (e.kind == 'call' and e.callee and (any(e.callee.endswith(m) for m in MUT) or takes_index(e))))]
        # a crate-private helper that was inlined is judged by the mutations inside it (where its own checks are visible),
        # not by the call to it
        inlined = {f[0] for e in r.events for f in e.stack[1:]}
        muts = [e for e in muts if not (e.kind == 'call' and e.callee.endswith('::insert_bytes') and e.callee in inlined and any(x is not e and x in muts and e.callee in [f[0] for f in x.stack[1:]] for x in muts))]
        if not muts:
            # the mutation was handed to a sibling that is gated by this very rule (`insert(idx, ch)` = `insert_str(idx, ch.encode_utf8(..))`)
            deleg = [e for e in r.events if e.is_own() and e.kind == 'call' and e.callee and 'string::String' in e.callee and e.callee.split('::')[-1] in specs and e.callee.split('::')[-1] != name
                     and len(e.args) > 1 and e.args[0] == SELF and e.args[1] in idxs]
            if len(deleg) == 1:
                n1 += 1
                ctx.ok('R1', 'String::%s hands its index unchanged to String::%s' % (name, deleg[0].callee.split('::')[-1]), 'gated there')
            else:
                ctx.violation('R1', 'String::' + name, 'no-mutation', 'no byte-level mutation found in String::%s' % name, b.get('span'))
            continue
        for idx in idxs:
            for e in muts:
                n1 += 1
                why = boundary_gated(I, r, e, idx)
                if why:
                    ctx.ok('R1', 'String::%s: %s only after idx was validated' % (name, (e.callee or e.kind).split('::')[-1]), why)
                else:
                    ctx.violation('R1', 'String::' + name, 'ungated:' + (e.callee or e.kind).split('::')[-1], 'String::%s mutates bytes (%s) at a caller-supplied index without being dominated by is_char_boundary(idx) or a checked slicing at idx: a multi-byte character could be cut' % (name, (e.callee or e.kind).split('::')[-1]), e.span)
    for name in ('drain', 'replace_range'):
        b = string_method(db, name)
        if b is None:
            ctx.anchor_missing('R1', 'String::' + name)
            continue
        I, r = arena.run_fn(ctx, b['id'], config)
        checks = [e for e in r.events if e.is_own() and e.kind == 'call' and e.callee and e.callee.endswith('is_char_boundary')]
        sinks = [e for e in r.events if e.is_own() and e.kind == 'call' and e.callee and (e.callee.endswith('::splice') or e.callee.endswith('::drain'))]
        rets = r.ret
        n1 += 1
        # both bounds (when given) must have been checked, and the check must be asserted (panic on the false edge)
        asserted = 0
        for c in checks:
            if any(b2.kind == 'branch' and b2.val == c.ret and any(f[0] == 'true' and f[1] == c.ret for f in b2.extra['added']) for b2 in r.events if len(b2.stack) == 1):
                asserted += 1
        need = 4 if name == 'replace_range' else 2
        if name == 'drain':
            # Drain stores start/end that were validated; the iterator slices self[start..end] (checked) -> accept 2 asserted checks or checked slicing
            sl = [e for e in r.events if e.kind == 'call' and e.callee and 'str::traits' in e.callee and e.callee.endswith('::index')]
            okv = asserted >= 2 or bool(sl)
        else:
            okv = asserted >= need and bool(sinks) and all(r.events.index(c) < r.events.index(sinks[0]) for c in checks)
            # and each check is made at the index the bound denotes: start = Included(n) -> n, Excluded(n) -> n + 1;
            # end = Included(n) -> n + 1, Excluded(n) -> n   (a check at a neighbouring index lets the splice cut a character)
            seen_idx = set()
            for c in checks:
                ix = c.args[1] if len(c.args) > 1 else None
                plus = 0
                if ix is not None and ix[0] == 'app' and ix[1] == 'add' and len(ix) == 4 and is_c(ix[3]):
                    plus, ix = ix[3][1], ix[2]
                if ix is not None and ix[0] == 'load' and ix[1][0] == 'deref' and ix[1][1][:2] == ('app', 'vproj') and ix[1][1][2][0] == 'call':
                    which = ix[1][1][2][1].split('::')[-1]
                    seen_idx.add((which, ix[1][1][3], plus))
                else:
                    seen_idx.add(('?', show(c.args[1])[:40] if len(c.args) > 1 else '?', plus))
            want_idx = {('start_bound', 'Included', 0), ('start_bound', 'Excluded', 1), ('end_bound', 'Included', 1), ('end_bound', 'Excluded', 0)}
            if okv and seen_idx != want_idx and not any(w == '?' for w, _, _ in seen_idx):       # an unrecognised spelling of a bound is not judged
                okv = False
                ctx.violation('R1', 'String::' + name, 'range-check-index', 'String::%s asserts is_char_boundary at %s; the bounds denote %s' % (name, sorted(seen_idx - want_idx), sorted(want_idx - seen_idx)), b.get('span'))
                continue
        if okv:
            ctx.ok('R1', 'String::%s: range bounds are boundary-checked before the bytes are touched' % name, '%d asserted is_char_boundary checks' % asserted)
        else:
            ctx.violation('R1', 'String::' + name, 'ungated-range', 'String::%s does not assert is_char_boundary for every given range bound before touching the bytes (%d asserted)' % (name, asserted), b.get('span'))
    ctx.floor('R1', n1, 8, 'gated mutation sites')
    # ------------------------------------------------------------------ R4 range bounds are computed with checked arithmetic (std panics at usize::MAX)
    for name in ('drain', 'replace_range'):
        b = string_method(db, name)
        if b is None:
            continue
        I, r = arena.run_fn(ctx, b['id'], config)
        adds = [t for e in r.events if e.is_own() for a in (e.args or []) if isinstance(a, tuple) for t in subterms(a) if isinstance(t, tuple) and t and t[0] == 'app' and t[1] == 'add' and t[3] == C(1) and ('Included' in repr(t[2]) or 'Excluded' in repr(t[2]))]
        exps = [e for e in r.events if e.is_own() and e.kind == 'panic' and 'checked_add' in repr(e.args[0])]
        if len(exps) >= 2:
            ctx.ok('R4', 'String::%s: Included/Excluded bound + 1 is checked (panics like std instead of wrapping)' % name, '%d checked_add(..).expect sites' % len(exps))
        else:
            ctx.violation('R4', 'String::' + name, 'unchecked-bound', 'String::%s computes `bound + 1` without a checked add: ..=usize::MAX would wrap to 0 where std panics' % name, b.get('span'))
    # ------------------------------------------------------------------ R5 the bytes are valid UTF-8 wherever user code can unwind (shared typestate with C16)
    from .. import panicsafe
    ps = panicsafe.PanicSafety(db)
    mu = ps.may_user()
    n5 = 0
    for b in db.fn_bodies():
        sp = b.get('span') or ''
        if b['kind'] == 'closure' or not sp.startswith('src/collections/string.rs') or b['id'] not in mu:
            continue
        res = ps.analyse(b)
        n5 += 1
        fn = arena.short(b['id'])
        if res['findings']:
            for e, info, pr in res['findings']:
                ctx.violation('R5', fn, 'unwind-state:' + pr.split(' ')[1] + pr.split(' ')[2], '%s: user code may run here (%s) while %s — the String could be left with invalid UTF-8' % (fn, info, pr), e.span)
        else:
            ctx.ok('R5', '%s: byte vector consistent at its %d user-call site(s)' % (fn, res['user_sites']), 'panic-safety typestate')
    ctx.floor('R5', n5, 8, 'String functions that may run user code')
    # ------------------------------------------------------------------ R2 unchecked views
    n2 = 0
    for b in db.fn_bodies():
        sp = b.get('span') or ''
        if b['kind'] == 'closure' or not sp.startswith('src/collections'):
            continue
        m = b['meta']
        has = any((t['callee'].get('path') or '').endswith(('from_utf8_unchecked', 'from_utf8_unchecked_mut')) for bi, t in db.calls(b))
        hasagg = any(s['k'] == 'assign' and s['rv']['k'] == 'agg' and s['rv'].get('name', '').endswith('string::String') for blk in b['blocks'] for s in blk['stmts'])
        if not (has or hasagg):
            continue
        fn = arena.short(b['id'])
        if m.get('unsafe'):
            ctx.ok('R2', '%s: unsafe fn — validity of the bytes is the caller\'s obligation' % fn, 'signature')
            continue
        I, r = arena.run_fn(ctx, b['id'], config)
        sites = [e for e in r.events if e.is_own() and e.kind == 'call' and e.callee and e.callee.endswith(('from_utf8_unchecked', 'from_utf8_unchecked_mut'))]
        for e in sites:
            n2 += 1
            cls = classify_view(I, r, e, e.args[0], fn)
            if cls:
                ctx.ok('R2', '%s: from_utf8_unchecked at %s' % (fn, loc(e.span)), cls)
            else:
                ctx.violation('R2', fn, 'unchecked-view', '%s reinterprets bytes %s as UTF-8 without belonging to a justified class' % (fn, show(e.args[0])[:80]), e.span)
        if hasagg:
            n2 += 1
            cls = None
            found_any = False
            allok = True
            for t, facts in arena.alternatives(I, r.ret, set(r.ret_state.facts) if r.ret_state else set()):
                v = find_string_agg(t)
                if v is None:
                    continue
                found_any = True
                vecv = field_of(v, 'vec')
                st = type('S', (), {'facts': facts})()
                c1 = classify_view(I, r, None, vecv, fn, ret_state=st)
                if c1:
                    cls = c1
                else:
                    allok = False
            if not found_any or not allok:
                cls = None
            if cls:
                ctx.ok('R2', '%s: constructs String{vec}' % fn, cls)
            else:
                ctx.violation('R2', fn, 'string-from-bytes', '%s builds a String directly from a byte vector that is not known to be UTF-8 (not empty, not validated, not from a str)' % fn, b.get('span'))
    ctx.floor('R2', n2, 18, 'unchecked UTF-8 view / construction sites')
    # ------------------------------------------------------------------ R3 tables
    check_tables(ctx, db, config)
    # ------------------------------------------------------------------ O4 byte shifting
    n4 = [0]

    def check(method, clause, okv, detail='', span=None):
        n4[0] += 1
        if okv:
            ctx.ok('O4', 'String::%s: %s' % (method, clause), detail or 'term equality')
        else:
            ctx.violation('O4', 'String::' + method, clause.replace(' ', '_')[:60], 'String::%s deviates from std: %s %s' % (method, clause, detail), span)
    b = string_method(db, 'pop')
    if b:
        I, r = arena.run_fn(ctx, b['id'], config)
        sl = [e for e in r.events if e.is_own() and e.kind == 'call' and e.callee and e.callee.endswith('::set_len')]
        lu = [e for e in r.events if e.is_own() and e.kind == 'call' and e.callee and e.callee.endswith('len_utf8')]
        okv = len(sl) == 1 and len(lu) == 1 and strip(sl[0].args[1]) in (('app', 'wsub', LEN, lu[0].ret), app('sub', LEN, lu[0].ret))
        check('pop', 'len := len - ch.len_utf8() of the last char', okv, '', b.get('span'))
        alts = [t for t, _ in arena.alternatives(I, r.ret, set())]
        check('pop', 'returns the char whose width was subtracted', any(t[0] == 'agg' and t[2] == 'Some' and lu and field_of(t, '0') == lu[0].args[0] for t in alts))
    b = string_method(db, 'remove')
    if b:
        I, r = arena.run_fn(ctx, b['id'], config)
        idx = ('param', 2)
        cp = [e for e in r.events if e.is_own() and e.kind == 'copy']
        sl = [e for e in r.events if e.is_own() and e.kind == 'call' and e.callee and e.callee.endswith('::set_len')]
        lu = [e for e in r.events if e.is_own() and e.kind == 'call' and e.callee and e.callee.endswith('len_utf8')]
        if cp and sl and lu:
            w = lu[0].ret
            nxt = app('add', idx, w)
            f = set(cp[0].state.facts) | {('le', nxt, LEN)}
            check('remove', 'memmove source is BASE + idx + ch_len', cp[0].callee == 'copy' and eqn(I, cp[0].args[0], app('add', BASE, nxt), f), show(strip(cp[0].args[0]))[:80], cp[0].span)
            check('remove', 'memmove destination is BASE + idx', eqn(I, cp[0].args[1], app('add', BASE, idx), f))
            check('remove', 'memmove count is len - (idx + ch_len)', eqn(I, cp[0].args[2], app('sub', LEN, nxt), f), show(strip(cp[0].args[2]))[:80])
            check('remove', 'len := len - ch_len', eqn(I, sl[0].args[1], app('sub', LEN, w), f), show(strip(sl[0].args[1]))[:80])
            check('remove', 'returns the removed char', r.ret == lu[0].args[0])
            check('remove', 'the memmove and the length update lie on every path that returns', arena.on_every_return_path(I, cp[0]) and arena.on_every_return_path(I, sl[0]))
        else:
            check('remove', 'shape (one memmove, one set_len, one len_utf8)', False)
    b = string_method(db, 'insert_bytes')
    merged = False
    if b is None and string_method(db, 'insert_str') is not None:
        # the byte-level helper was merged into insert_str: the same clauses are read off that body, the bytes being string.as_bytes()
        b = string_method(db, 'insert_str')
        merged = True
    if b:
        I, r = arena.run_fn(ctx, b['id'], config)
        idx, bytes_ = ('param', 2), ('param', 3)
        if merged:
            ab = [e for e in r.events if e.is_own() and e.kind == 'call' and e.callee and e.callee.endswith('::as_bytes') and e.args and e.args[0] == ('param', 3)]
            if ab and ab[0].ret is not None:
                bytes_ = ab[0].ret
        amt = app('len', bytes_)
        cp = [e for e in r.events if e.is_own() and e.kind == 'copy']
        sl = [e for e in r.events if e.is_own() and e.kind == 'call' and e.callee and e.callee.endswith('::set_len')]
        rs = [e for e in r.events if e.is_own() and e.kind == 'call' and e.callee and e.callee.endswith('::reserve')]
        check('insert_bytes', 'reserve(bytes.len()) first', len(rs) == 1 and rs[0].args[1] == amt)
        if len(cp) == 2 and sl:
            f = set(cp[0].state.facts) | {('le', idx, LEN)}
            check('insert_bytes', 'tail memmove BASE + idx -> BASE + idx + amt, len - idx bytes', cp[0].callee == 'copy' and eqn(I, cp[0].args[0], app('add', BASE, idx), f) and eqn(I, cp[0].args[1], app('add', app('add', BASE, idx), amt), f) and eqn(I, cp[0].args[2], app('sub', LEN, idx), f))
            check('insert_bytes', 'new bytes copied to BASE + idx, amt bytes', cp[1].args[0] == bytes_ and eqn(I, cp[1].args[1], app('add', BASE, idx), f) and cp[1].args[2] == amt)
            check('insert_bytes', 'len := len + amt', eqn(I, sl[0].args[1], app('add', LEN, amt), f))
            ev = r.events
            check('insert_bytes', 'order: reserve, shift tail, copy bytes, set_len', rs and ev.index(rs[0]) < ev.index(cp[0]) < ev.index(cp[1]) < ev.index(sl[0]))
            check('insert_bytes', 'reserve, both copies and the length update lie on every path that returns', bool(rs) and all(arena.on_every_return_path(I, x) for x in (rs[0], cp[0], cp[1], sl[0])))
        else:
            check('insert_bytes', 'shape (two copies, one set_len)', False)
    # ---- thin compositions: the bytes handed to the byte vector are exactly the UTF-8 encoding of the argument
    def own_calls(r, suffix):
        return [e for e in r.events if e.is_own() and e.kind == 'call' and e.callee and e.callee.endswith(suffix)]
    b = string_method(db, 'insert')
    if b:
        I, r = arena.run_fn(ctx, b['id'], config)
        ib = own_calls(r, '::insert_bytes')
        enc = own_calls(r, '::encode_utf8')
        okv = len(ib) == 1 and len(enc) == 1 and enc[0].args[0] == ('param', 3) and ib[0].args[0] == SELF and ib[0].args[1] == ('param', 2) and ib[0].args[2] == enc[0].ret
        if not ib and merged:
            ist = own_calls(r, '::insert_str')
            okv = len(ist) == 1 and len(enc) == 1 and enc[0].args[0] == ('param', 3) and ist[0].args[:2] == [SELF, ('param', 2)] and (ist[0].args[2] == enc[0].ret or enc[0].ret in subterms(ist[0].args[2]))
        check('insert', 'insert_bytes(idx, ch.encode_utf8(..)) with the caller\'s idx and char', okv, '', b.get('span'))
    b = string_method(db, 'insert_str')
    if b:
        I, r = arena.run_fn(ctx, b['id'], config)
        ib = own_calls(r, '::insert_bytes')
        check('insert_str', 'insert_bytes(idx, string.as_bytes()) with the caller\'s idx and string', (len(ib) == 1 and ib[0].args[:3] == [SELF, ('param', 2), ('param', 3)]) or (merged and not ib), '', b.get('span'))
    b = string_method(db, 'push')
    if b:
        I, r = arena.run_fn(ctx, b['id'], config)
        lu = own_calls(r, 'len_utf8')
        pu = own_calls(r, "Vec::<'bump, T>::push")
        ex = own_calls(r, '::extend_from_slice')
        enc = own_calls(r, '::encode_utf8')
        vec_ref = ('addr', ('fld', ('deref', SELF), VEC))
        ok1 = len(lu) == 1 and lu[0].args[0] == ('param', 2) and len(pu) == 1 and pu[0].args[0] == vec_ref and pu[0].args[1] == ('app', 'trunc', ('param', 2), 'u8') \
            and any(f[0] == 'eq' and C(1) in f[1:] and lu[0].ret in f[1:] for f in pu[0].state.facts)
        check('push', 'a char is pushed as the single byte `ch as u8` exactly when ch.len_utf8() == 1', ok1, '', b.get('span'))
        ok2 = len(ex) == 1 and len(enc) == 1 and enc[0].args[0] == ('param', 2) and ex[0].args[0] == vec_ref and ex[0].args[1] == enc[0].ret \
            and any(f[0] == 'ne' and C(1) in f[1:] and lu and lu[0].ret in f[1:] for f in ex[0].state.facts)
        check('push', 'otherwise the bytes of ch.encode_utf8(..) are appended', ok2)
    b = string_method(db, 'push_str')
    if b:
        I, r = arena.run_fn(ctx, b['id'], config)
        ex = own_calls(r, '::extend_from_slice_copy')
        okp = len(ex) == 1 and ex[0].args[0] == ('addr', ('fld', ('deref', SELF), VEC)) and ex[0].args[1] == ('param', 2)
        if not okp and not ex:
            # the same append written out: reserve(s.len()), memcpy s -> BASE + len, len := len + s.len(), in that order
            vref = ('addr', ('fld', ('deref', SELF), VEC))
            n_ = app('len', ('param', 2))
            rs = own_calls(r, "Vec::<'bump, T>::reserve")
            cp = [e for e in r.events if e.is_own() and e.kind == 'copy']
            sl = own_calls(r, '::set_len')
            if len(rs) == 1 and len(cp) == 1 and len(sl) == 1:
                dst = cp[0].args[1]
                d_, c_ = lin(dst)
                lens = [k for k in d_ if k[0] == 'load' and k[1][0] == 'fld' and k[1][2].endswith('Vec.len') and d_[k] == 1]
                okp = rs[0].args == [vref, n_] and cp[0].callee == 'copy_nonoverlapping' and cp[0].args[0] == ('param', 2) and cp[0].args[2] == n_ and len(lens) == 1 \
                    and sl[0].args[0] == vref and lin(sl[0].args[1]) == lin(app('add', lens[0], n_)) \
                    and r.events.index(rs[0]) < r.events.index(cp[0]) < r.events.index(sl[0])
        check('push_str', 'vec.extend_from_slice_copy(string.as_bytes())', okp, '', b.get('span'))
    b = string_method(db, 'truncate')
    if b:
        I, r = arena.run_fn(ctx, b['id'], config)
        tr = own_calls(r, "Vec::<'bump, T>::truncate")
        lenl = ('load', LEN_LV, 0)
        okv = len(tr) == 1 and tr[0].args[1] == ('param', 2) and ('le', ('param', 2), lenl) in tr[0].state.facts and boundary_gated(I, r, tr[0], ('param', 2))
        check('truncate', 'vec.truncate(new_len) only for new_len <= len on a char boundary (longer requests are a no-op)', bool(okv), '', b.get('span'))
    b = string_method(db, 'split_off')
    if b:
        I, r = arena.run_fn(ctx, b['id'], config)
        so = own_calls(r, "Vec::<'bump, T>::split_off")
        fu = own_calls(r, '::from_utf8_unchecked')
        okv = len(so) == 1 and so[0].args[1] == ('param', 2) and so[0].args[0] == ('addr', ('fld', ('deref', SELF), VEC)) and boundary_gated(I, r, so[0], ('param', 2)) and len(fu) == 1 and fu[0].args[0] == so[0].ret
        if not so and len(fu) == 1:
            # Vec::split_off written out in place: the tail is copied into a fresh vector and self is cut at `at`
            sl = [e for e in r.events if e.is_own() and e.kind == 'call' and e.callee and e.callee.endswith('::set_len') and e.args[0] == ('addr', ('fld', ('deref', SELF), VEC))]
            okv = tail_copy(I, r, fu[0].args[0]) == ('param', 2) and len(sl) == 1 and sl[0].args[1] == ('param', 2)
        check('split_off', 'other = from_utf8_unchecked(vec.split_off(at)) for a boundary-checked at', bool(okv), '', b.get('span'))
    # ---- retain: std's compaction loop (idx walks the chars, del_bytes counts removed bytes)
    b = string_method(db, 'retain')
    if b:
        I, r = arena.run_fn(ctx, b['id'], config)
        L = [v for (bid, h), v in r.loops.items() if bid == b['id']]
        ev = [e for e in r.events if e.is_own()]
        gl = [(l, v) for rec in L for l, v in rec['init'].items() if v[0] == 'agg' and v[1].endswith('SetLenOnDrop')]
        okg = len(L) == 1 and len(gl) == 1 and field_of(gl[0][1], 'idx') == C(0) and field_of(gl[0][1], 'del_bytes') == C(0) and field_of(gl[0][1], 's') == SELF
        check('retain', 'guard starts at idx = 0, del_bytes = 0 on self', okg, '', b.get('span'))
        if okg:
            rec = L[0]
            gsym = rec['sym'][gl[0][0]]
            IDX = ('app', 'proj', gsym, [k for k, _ in gl[0][1][3] if k.endswith('idx')][0]) if False else None
            fields = {k: ('app', 'proj', gsym, fn_) for k, fn_ in ((kk.split('.')[-1], kk) for kk in [])}
            # field names as they appear in proj terms
            pj = {}
            for t in subterms(tuple(x for st in rec['step'] for x in st['mem'].values() if x is not None)):
                if isinstance(t, tuple) and t and t[0] == 'app' and t[1] == 'proj' and t[2] == gsym:
                    pj[t[3].split('.')[-1]] = t
            IDXT, DELT = pj.get('idx'), pj.get('del_bytes')
            lu = [e for e in ev if e.kind == 'call' and e.callee.endswith('len_utf8')]
            uc = [e for e in ev if e.kind == 'call' and (e.extra.get('trait_path') or '').endswith('FnMut::call_mut')]
            cp = [e for e in ev if e.kind == 'copy']
            okc = IDXT is not None and len(lu) == 1 and len(uc) == 1 and lu[0].args[0] in subterms(uc[0].args[1])
            check('retain', 'the predicate sees the char whose width is measured', okc)
            steps = rec['step']
            idx_steps = [v for st in steps for k, v in st['mem'].items() if k[0] == 'fld' and k[2].endswith('.idx')]
            del_steps = [v for st in steps for k, v in st['mem'].items() if k[0] == 'fld' and k[2].endswith('.del_bytes')]
            w = lu[0].ret if lu else None
            check('retain', 'idx advances by ch.len_utf8() on every iteration', bool(idx_steps) and w is not None and all(lin(v) == lin(app('add', IDXT, w)) for v in idx_steps))
            okd = False
            if del_steps and w is not None and DELT is not None:
                v = del_steps[0]
                alts = {x for _, x in v[2]} if v[0] == 'phi' else {v}
                okd = any(lin(a) == lin(app('add', DELT, w)) for a in alts) and all(lin(a) in (lin(app('add', DELT, w)), lin(DELT)) for a in alts)
            check('retain', 'del_bytes grows by ch.len_utf8() exactly for removed chars', okd)
            if len(cp) == 1 and IDXT is not None and DELT is not None and w is not None:
                gs = 'String.vec'
                basep = [t for t in subterms(cp[0].args[0]) if isinstance(t, tuple) and t and t[0] == 'load' and 'RawVec.ptr' in repr(t[1])]
                okm = cp[0].callee == 'copy' and bool(basep) and lin(cp[0].args[0]) == lin(app('add', basep[0], IDXT)) and lin(cp[0].args[1]) in (lin(app('add', basep[0], ('app', 'wsub', IDXT, DELT))), lin(app('sub', app('add', basep[0], IDXT), DELT))) and cp[0].args[2] == w
                check('retain', 'a kept char moves from BASE + idx to BASE + idx - del_bytes, ch_len bytes', okm, '', cp[0].span)
                fs = cp[0].state.facts
                check('retain', 'the move happens exactly for kept chars with del_bytes > 0', ('lt', C(0), DELT) in fs and any(f[0] == 'true' and 'call_mut' in repr(f[1]) or (f[0] == 'true' and '<callable>' in repr(f[1])) for f in fs))
            else:
                check('retain', 'one memmove per kept char', False)
    b = string_method(db, 'from_str_in')
    if b:
        I, r = arena.run_fn(ctx, b['id'], config)
        wc = own_calls(r, '::with_capacity_in')
        cp = [e for e in r.events if e.is_own() and e.kind == 'copy']
        sl = own_calls(r, '::set_len')
        n_ = app('len', SELF)
        okv = len(wc) == 1 and wc[0].args[0] == n_ and len(cp) == 1 and cp[0].callee == 'copy_nonoverlapping' and cp[0].args[0] == SELF and cp[0].args[2] == n_ and len(sl) == 1 and sl[0].args[1] == n_ \
            and r.events.index(cp[0]) < r.events.index(sl[0])
        check('from_str_in', 'with_capacity_in(s.len()), memcpy of s.len() bytes from s, then set_len(s.len())', okv, '', b.get('span'))
    gd = [x for x in db.fn_bodies() if 'retain::SetLenOnDrop' in x['id'] and x['meta'].get('name') == 'drop' and 'string::String' in x['id']]
    if not gd:
        ctx.anchor_missing('O4', 'String::retain::SetLenOnDrop::drop')
    else:
        I, r = arena.run_fn(ctx, gd[0]['id'], config)
        sl = own_calls(r, '::set_len')
        fld = lambda n: ('load', ('fld', ('deref', SELF), [f for f in (x for x in subterms(sl[0].args[1]) if isinstance(x, tuple) and x and x[0] == 'fld') if f[2].endswith('.' + n)][0][2]), 0) if sl else None
        okv = False
        if len(sl) == 1:
            try:
                okv = sl[0].args[1] in (('app', 'wsub', fld('idx'), fld('del_bytes')), app('sub', fld('idx'), fld('del_bytes')))
            except IndexError:
                okv = False
        check('retain', 'the guard restores len := idx - del_bytes (also when the predicate panics)', okv, '', gd[0].get('span'))
    b = string_method(db, 'into_bump_str')
    if b:
        I, r = arena.run_fn(ctx, b['id'], config)
        fg = own_calls(r, 'mem::forget')
        vecp = ('app', 'proj', SELF, 'collections::string::String.vec')
        okv = r.ret is not None and r.ret[0] == 'agg' and r.ret[1] == 'slice' and field_of(r.ret, 'ptr') == ('app', 'proj', ('app', 'proj', vecp, 'collections::vec::Vec.buf'), 'collections::raw_vec::RawVec.ptr') \
            and field_of(r.ret, 'len') == ('app', 'proj', vecp, 'collections::vec::Vec.len') and ((len(fg) == 1 and fg[0].args[0] == SELF) or any(e.args and e.args[0] == SELF for e in own_calls(r, 'ManuallyDrop::<T>::new')))
        drops = [e for e in r.events if e.kind == 'drop' and e.is_own() and not b['blocks'][e.block].get('cleanup')]
        check('into_bump_str', 'returns the whole text (buf.ptr, len) and forgets the string: the buffer is never handed back to the arena', okv and not drops, '', b.get('span'))
    b = string_method(db, 'into_bytes')
    if b:
        I, r = arena.run_fn(ctx, b['id'], config)
        check('into_bytes', 'returns the byte vector itself', r.ret == ('app', 'proj', SELF, 'collections::string::String.vec'), '', b.get('span'))
    b = string_method(db, 'from_utf16_in')
    if b:
        I, r = arena.run_fn(ctx, b['id'], config)
        dec = own_calls(r, 'char::decode_utf16')
        pu = own_calls(r, "String::<'bump>::push")
        okd = len(dec) == 1 and dec[0].args[0][0] == 'call' and dec[0].args[0][1].endswith('::cloned') and dec[0].args[0][2][0][0] == 'call' and dec[0].args[0][2][0][2] == (SELF,)
        check('from_utf16_in', "std's decode_utf16 runs over the whole input", okd, '', b.get('span'))
        if not pu:
            # the push sits in a closure of a closure (`try_for_each(|c| c.map(|c| ret.push(c)) ..)`): still this method's own code
            pu = [e for e in r.events if e.kind == 'call' and e.callee and e.callee.endswith("String::<'bump>::push") and all('::{closure' in f[0] and f[0].startswith(b['id']) for f in e.stack[1:])]
        ok_payload = lambda e: 'Ok' in show(e.args[1]) or (e.args[1][0] == 'app' and e.args[1][1] == 'payload' and ('is', e.args[1][2], 'Ok') in e.state.facts)
        okp = len(pu) == 1 and ok_payload(pu[0]) and any(isinstance(t, tuple) and t and t[0] == 'call' and t[1].endswith('::next') for t in subterms(pu[0].args[1]))
        check('from_utf16_in', 'every decoded char (the Ok payload of the decoder item) is pushed, in order', okp)
        alts = [t for t, _ in arena.alternatives(I, r.ret, set())] if r.ret is not None else []
        check('from_utf16_in', 'an unpaired surrogate ends in Err(FromUtf16Error), otherwise Ok(the string built)', len(alts) == 2 and any(t[0] == 'agg' and t[2] == 'Err' for t in alts) and any(t[0] == 'agg' and t[2] == 'Ok' for t in alts))
    b = string_method(db, 'from_utf8')
    if b:
        I, r = arena.run_fn(ctx, b['id'], config)
        fu = own_calls(r, 'str::converts::from_utf8')
        vec = SELF
        okv = len(fu) == 1 and fu[0].args[0][0] == 'agg' and fu[0].args[0][1] == 'slice' and field_of(fu[0].args[0], 'len') == ('app', 'proj', vec, 'collections::vec::Vec.len') \
            and field_of(fu[0].args[0], 'ptr') == ('app', 'proj', ('app', 'proj', vec, 'collections::vec::Vec.buf'), 'collections::raw_vec::RawVec.ptr')
        check('from_utf8', "std's from_utf8 validates the whole byte vector", okv, '', b.get('span'))
        alts = [t for t, _ in arena.alternatives(I, r.ret, set())] if r.ret is not None else []
        oka = any(t[0] == 'agg' and t[2] == 'Ok' and field_of(field_of(t, '0'), 'vec') == vec for t in alts if field_of(t, '0') is not None and field_of(t, '0')[0] == 'agg') \
            and any(t[0] == 'agg' and t[2] == 'Err' and field_of(field_of(t, '0'), 'bytes') == vec for t in alts if field_of(t, '0') is not None and field_of(t, '0')[0] == 'agg')
        check('from_utf8', 'Ok wraps the same vector; Err hands the same vector back together with the validation error', oka)
    ctx.floor('O4', n4[0], 34, 'byte-shift formula clauses')
    # ---- R6 comparison / hashing / formatting / indexing / borrow impls hand the whole text to the str impl; R7 compositions
    from . import forwarding, glue
    forwarding.check(ctx, config, 'R6', 'string::String', 29)
    glue.check_string(ctx, config, 'R7')
    # ---- R9 helpers, accessors, Drain iterator glue
    from . import helpers
    helpers.check_string(ctx, config, 'R9')
    helpers.check_effect(ctx, config, 'R11', ('src/collections/string.rs', 'src/collections/str/'))
    # ---- R10 a refused growth request (a panic or an Err in this crate, not an abort) never finds the bytes half written
    from . import allocatomic
    allocatomic.check(ctx, config, 'R10')
    # ---- R8 the exported format! macro, analysed on its expansion in a client probe
    if config == 'rel-all':
        from . import macros
        macros.check_format(ctx, 'R8')


def find_string_agg(t, depth=0):
    if not isinstance(t, tuple) or depth > 6 or not t:
        return None
    if t[0] == 'agg' and t[1].endswith('string::String'):
        return t
    if t[0] == 'phi':
        for _, x in t[2]:
            r = find_string_agg(x, depth + 1)
            if r is not None:
                return r
    if t[0] == 'agg':
        for _, x in t[3]:
            r = find_string_agg(x, depth + 1)
            if r is not None:
                return r
    return None


def classify_view(I, r, e, arg, fn, ret_state=None):
    """justification class of treating `arg` as UTF-8, or None"""
    rep = repr(arg)
    facts = set(e.state.facts) if e is not None else (set(ret_state.facts) if ret_state is not None else set())
    # view of self.vec (the String invariant itself)
    if "String.vec'" in rep and "('param', 1)" in rep and 'split_off' not in rep:
        return 'view / copy of self.vec (the String invariant)'
    if arg[0] == 'agg' and arg[1] == 'slice' and "String.vec'" in repr(arg):
        return 'view of self.vec (the String invariant)'
    # empty vector
    for ev in r.events:
        if ev.kind == 'call' and ev.callee and ev.ret is not None and ev.ret == arg and (ev.callee.endswith('Vec::<\'bump, T>::new_in') or ev.callee.endswith('Vec::<\'bump, T>::with_capacity_in')):
            return 'freshly created empty vector'
    if arg[0] == 'agg' and arg[1].endswith('vec::Vec') and field_of(arg, 'len') == C(0):
        return 'freshly created empty vector'
    # validated by str::from_utf8 on these bytes
    for f in facts:
        if f[0] == 'is' and f[2] == 'Ok' and any(isinstance(t, tuple) and t and t[0] == 'call' and t[1].endswith('converts::from_utf8') for t in subterms(f[1])):
            return 'Ok edge of core::str::from_utf8 on the same bytes'
    # lossy decoder: prefix source[0..i_] validated by the decoder tables (R3)
    if 'Utf8LossyChunksIter' in fn:
        return 'prefix accepted by the decoder (tables checked by R3)'
    # fully validated first chunk
    for f in facts:
        if f[0] == 'eq' and all(isinstance(x, tuple) and x and x[0] == 'app' and x[1] == 'len' for x in f[1:]):
            return 'the first valid chunk covers the whole input (len(valid) == len(v))'
    # boundary-gated split
    if e is not None:
        for ev in r.events[:r.events.index(e)]:
            if ev.kind == 'call' and ev.callee and ev.callee.endswith('Vec::<\'bump, T>::split_off') and ev.ret == arg:
                if boundary_gated(I, r, ev, ev.args[1]):
                    return 'tail of self.vec split at a validated char boundary'
    if arg[0] == 'call' and arg[1].endswith('::clone'):
        return 'clone of self.vec'
    # a vector whose whole visible content is one copy of a `&str` parameter: len == len(s), [0, len) copied from s
    if arg[0] == 'agg' and arg[1].endswith('vec::Vec'):
        n = field_of(arg, 'len')
        body = I.bodies.get(r.events[0].stack[0][0]) if r.events else None
        ins = (body['meta'].get('inputs') or []) if body else []
        strs = [('param', i + 1) for i, ty in enumerate(ins) if ty.replace("'", '').rstrip().endswith('str') and ty.lstrip().startswith('&')]
        bufp = field_of(field_of(arg, 'buf'), 'ptr') if field_of(arg, 'buf') is not None and field_of(arg, 'buf')[0] == 'agg' else None
        for sp_ in strs:
            if n == app('len', sp_):
                cps = [ev for ev in r.events if ev.kind == 'copy' and ev.is_own() and ev.args[0] == sp_ and ev.args[2] == n and (bufp is None or ev.args[1] == bufp)]
                others = [ev for ev in r.events if ev.is_own() and (ev.kind == 'copy' or (ev.kind == 'call' and ev.callee in ('core::ptr::write', 'core::ptr::write_bytes'))) and ev not in cps]
                if len(cps) == 1 and not others:
                    return 'every visible byte was copied from a &str parameter of the same length'
    if tail_copy(I, r, arg) is not None:
        return 'every visible byte was copied from the tail of self.vec starting at a validated char boundary'
    return None


def tail_copy(I, r, arg):
    """`arg` is a vector whose whole visible content [0, len) is one copy of self.vec[at ..] with len == self.len - at and `at`
    validated as a char boundary (Vec::split_off written out in place); returns `at`"""
    if not (arg[0] == 'agg' and arg[1].endswith('vec::Vec')):
        return None
    n = field_of(arg, 'len')
    buf = field_of(arg, 'buf')
    bufp = field_of(buf, 'ptr') if buf is not None and buf[0] == 'agg' else None
    cps = [ev for ev in r.events if ev.kind == 'copy' and ev.is_own()]
    others = [ev for ev in r.events if ev.is_own() and ev.kind == 'call' and ev.callee in ('core::ptr::write', 'core::ptr::write_bytes')]
    if len(cps) != 1 or others or bufp is None or n is None:
        return None
    c = cps[0]
    if c.args[1] != bufp or c.args[2] != n:
        return None
    src = strip(c.args[0])
    d, k = lin(src)
    if k != 0 or d.get(BASE) != 1 or len(d) != 2:
        return None
    at = [x for x in d if x != BASE][0]
    if d[at] != 1:
        return None
    if strip(n) not in (('app', 'wsub', LEN, at), app('sub', LEN, at)):
        return None
    if not boundary_gated(I, r, c, at):
        return None
    return at


RFC3629_WIDTH = [1] * 0x80 + [0] * (0xC2 - 0x80) + [2] * (0xE0 - 0xC2) + [3] * 16 + [4] * 5 + [0] * (0x100 - 0xF5)
TABLE_3_7 = {  # first byte range -> allowed second byte range
    3: [((0xE0, 0xE0), (0xA0, 0xBF)), ((0xE1, 0xEC), (0x80, 0xBF)), ((0xED, 0xED), (0x80, 0x9F)), ((0xEE, 0xEF), (0x80, 0xBF))],
    4: [((0xF0, 0xF0), (0x90, 0xBF)), ((0xF1, 0xF3), (0x80, 0xBF)), ((0xF4, 0xF4), (0x80, 0x8F))],
}


def accepted_pairs(arms):
    """set of (first, second) byte pairs accepted by a `match (first, second)` whose last arm `_` is the error arm"""
    acc = set()
    seen = set()
    flat = []
    for a in arms:
        # `A | B | C => ..` (as `matches!` writes it) is the arms A, B, C in that order
        if isinstance(a['pat'], dict) and 'or' in a['pat'] and not a.get('guard'):
            flat.extend({'pat': q, 'guard': False} for q in a['pat']['or'])
        else:
            flat.append(a)
    for a in flat:
        p = a['pat']
        if p == '_' or a.get('guard'):
            continue
        if isinstance(p, dict) and 'tuple' in p and len(p['tuple']) == 2 and all(isinstance(x, list) for x in p['tuple']):
            (f0, f1), (s0, s1) = p['tuple']
            for f in range(f0, f1 + 1):
                for s in range(s0, s1 + 1):
                    if (f, s) not in seen:
                        acc.add((f, s))
                        seen.add((f, s))
        else:
            return None
    return acc


def check_tables(ctx, db, config):
    st = [s for s in db.statics if s['path'].endswith('UTF8_CHAR_WIDTH')]
    if not st or not isinstance(st[0].get('bytes'), list):
        ctx.anchor_missing('R3', 'static UTF8_CHAR_WIDTH')
    else:
        got = st[0]['bytes']
        bad = [i for i in range(256) if i >= len(got) or got[i] != RFC3629_WIDTH[i]]
        if not bad:
            ctx.ok('R3', 'UTF8_CHAR_WIDTH == RFC 3629 width table (256 entries)', 'static initializer evaluated by rustc')
        else:
            ctx.violation('R3', 'UTF8_CHAR_WIDTH', 'width-table', 'UTF8_CHAR_WIDTH differs from the RFC 3629 width table at bytes %s' % [hex(i) for i in bad[:8]], st[0].get('span'))
    key = [k for k in db.matches if 'Utf8LossyChunksIter' in k and k.endswith('::next')]
    if not key:
        ctx.anchor_missing('R3', 'Utf8LossyChunksIter::next')
        return
    ms = db.matches[key[0]]
    found = {3: None, 4: None}
    for m in ms:
        acc = accepted_pairs(m['arms'])
        if not acc:
            continue
        firsts = {f for f, _ in acc}
        w = 3 if firsts & set(range(0xE0, 0xF0)) else (4 if firsts & set(range(0xF0, 0x100)) else None)
        if w:
            found[w] = (m, acc)
    for w in (3, 4):
        exp = set()
        for (f0, f1), (s0, s1) in TABLE_3_7[w]:
            for f in range(f0, f1 + 1):
                for s in range(s0, s1 + 1):
                    exp.add((f, s))
        if found[w] is None:
            ctx.violation('R3', 'Utf8LossyChunksIter::next', 'no-%d-byte-table' % w, 'no match on (first byte, second byte) for %d-byte sequences found in the lossy decoder' % w)
            continue
        m, acc = found[w]
        if acc == exp:
            ctx.ok('R3', 'lossy decoder: %d-byte sequences accept exactly the (first, second) byte pairs of Unicode Table 3-7 (%d pairs)' % (w, len(exp)), 'HIR match arms, first-match semantics')
        else:
            extra = sorted(acc - exp)[:3]
            miss = sorted(exp - acc)[:3]
            ctx.violation('R3', 'Utf8LossyChunksIter::next', 'second-byte-table-%d' % w, 'the %d-byte arm table differs from Unicode Table 3-7: wrongly accepted %s, wrongly rejected %s (std would replace / keep these sequences differently)' % (w, [(hex(a), hex(b)) for a, b in extra], [(hex(a), hex(b)) for a, b in miss]))
    # width dispatch arms
    wm = [m for m in ms if all(isinstance(a['pat'], list) or a['pat'] == '_' for a in m['arms'])]
    okw = any([a['pat'] for a in m['arms']] == [[2, 2], [3, 3], [4, 4], '_'] for m in wm)
    if okw:
        ctx.ok('R3', 'lossy decoder dispatches on width 2 / 3 / 4 and treats every other width as an error', 'HIR match arms')
    else:
        ctx.violation('R3', 'Utf8LossyChunksIter::next', 'width-dispatch', 'the decoder does not dispatch exactly on widths 2, 3, 4 with a catch-all error arm')
    # continuation-byte checks: one for 2-byte, one for 3-byte (third byte), two for 4-byte
    b = db.bodies.get([x['id'] for x in db.fn_bodies() if 'Utf8LossyChunksIter' in x['id'] and x['meta'].get('name') == 'next'][0])
    I = arena.ArenaInterp(db)
    r = I.run_entry(b['id'])
    conts = set()
    cont_terms = set()
    for e in r.events:
        if e.kind == 'branch' and e.is_own():
            d = e.val
            if d is not None and d[0] == 'cmp' and d[1] in ('ne', 'eq'):
                x = [t for t in (d[2], d[3]) if t[0] == 'app' and t[1] == 'and' and C(192) in t[2:]]
                k = [t for t in (d[2], d[3]) if t == C(128)]
                if x and k:
                    conts.add(e.top_block())
                    cont_terms.add(x[0])
    if len(conts) == 4:
        ctx.ok('R3', 'lossy decoder: 4 continuation-byte checks (byte & 0xC0 == 0x80): 1 + 1 + 2 for widths 2, 3, 4', 'branch conditions in MIR')
    else:
        ctx.violation('R3', 'Utf8LossyChunksIter::next', 'continuation-checks', 'expected 4 continuation-byte checks (b & 192 == 128) in the decoder, found %d' % len(conts))
    # polarity and bounds of the byte tests (a flipped test or an off-by-one bound keeps every count above intact):
    # (i) the lead byte is ASCII exactly when byte < 128
    leadc = [e for e in r.events if e.is_own() and e.kind == 'call' and e.callee and e.callee.endswith('::unsafe_get') and len(e.args) == 2]
    if leadc:
        LB = leadc[0].ret
        tests = set()
        for e in r.events:
            if e.kind == 'branch' and e.is_own() and e.val is not None and e.val[0] == 'cmp' and e.val[1] in ('lt', 'le'):
                a_, b_ = e.val[2], e.val[3]
                if a_ == LB and is_c(b_) and b_[1] in (127, 128, 129):
                    tests.add((e.val[1], b_[1]))
                if b_ == LB and is_c(a_) and a_[1] in (127, 128, 129):
                    tests.add(('rev-' + e.val[1], a_[1]))
        if tests and tests <= {('lt', 128), ('le', 127), ('rev-le', 128), ('rev-lt', 127)}:
            ctx.ok('R3', 'lossy decoder: a lead byte is taken as ASCII exactly when it is < 128', 'branch condition on the lead byte')
        else:
            ctx.violation('R3', 'Utf8LossyChunksIter::next', 'ascii-test', 'the ASCII fast path of the decoder is not `byte < 128` (found %s): byte 0x80 would be accepted as text, or 0x7F rejected' % sorted(tests))
    # (ii) safe_get reads source[i] only for i < len (and yields a non-continuation filler otherwise)
    sg = [x for x in db.fn_bodies() if x['id'].endswith('::next::safe_get')]
    if sg:
        I2 = arena.ArenaInterp(db)
        r2 = I2.run_entry(sg[0]['id'])
        altsg = arena.alternatives(I2, r2.ret, set()) if r2.ret is not None else []
        reads = [(t, fs) for t, fs in altsg if not is_c(t)]
        fills = [t for t, fs in altsg if is_c(t)]
        def checked_read(t, fs):
            # under i < xs.len(), or through std's own checked access (`xs.get(i)` returned Some)
            if ('lt', ('param', 2), app('len', ('param', 1))) in fs:
                return True
            gets = [f[1] for f in fs if f[0] == 'is' and f[2] == 'Some' and isinstance(f[1], tuple) and f[1] and f[1][0] == 'call' and f[1][1].endswith('<impl [T]>::get') and f[1][2][:2] == (('param', 1), ('param', 2))]
            return any(g in subterms(t) for g in gets)
        okb = len(reads) == 1 and checked_read(*reads[0]) and all((t[1] & 192) != 128 for t in fills) and len(fills) == 1
        if okb:
            ctx.ok('R3', 'lossy decoder: safe_get(xs, i) reads xs[i] only under i < xs.len() and otherwise yields a byte that is not a continuation byte', 'alternatives of the helper')
        else:
            ctx.violation('R3', 'Utf8LossyChunksIter::next::safe_get', 'probe-bound', 'safe_get must read the slice only under i < len (unchecked read!) and yield a non-continuation filler past the end; found %s' % [(show(t)[:30], [f for f in fs if f[0] in ('lt', 'le')][:2]) for t, fs in altsg][:3], sg[0].get('span'))
    # cursor discipline (std): a chunk that ends in an error is source[i_..E] where E is the index of the byte whose check
    # failed -- the offending byte is NOT consumed and is examined again as the start of the next sequence
    g = db.cfg(b)
    own = [e for e in r.events if e.is_own()]
    probes = {}      # block -> index term of the safe_get it calls
    probe_val = {}   # block -> the byte it returned
    for e in own:
        if e.kind == 'call' and e.callee and e.callee.endswith('::safe_get') and len(e.args) == 2:
            probes[e.top_block()] = e.args[1]
            if e.ret is not None:
                probe_val[e.top_block()] = e.ret
    lead = [e for e in own if e.kind == 'call' and e.callee and e.callee.endswith('::unsafe_get') and len(e.args) == 2]
    exits = []
    for e in own:
        if e.kind == 'call' and e.callee and e.callee.endswith('::index') and len(e.args) == 2:
            a = e.args[1]
            if a[0] == 'agg' and a[1].endswith('Range') and field_of(a, 'start') != C(0):
                exits.append((e, field_of(a, 'start'), field_of(a, 'end')))
    froms = {}
    for e in own:
        if e.kind == 'call' and e.callee and e.callee.endswith('::index') and len(e.args) == 2 and e.args[1][0] == 'agg' and e.args[1][1].endswith('RangeFrom'):
            froms[e.top_block()] = field_of(e.args[1], 'start')
    bad = []
    ncur = 0
    if lead:
        i0 = lead[0].args[1]
        # a single exit fed by several `break (start, end)` sites: one exit per incoming value, located at the block it comes from
        flat = []
        for e, st0, en0 in exits:
            if en0[0] == 'phi' and all(isinstance(p_, int) for p_, _ in en0[2]):
                for p_, x_ in en0[2]:
                    flat.append((e, st0, x_, p_, en0))
            else:
                flat.append((e, st0, en0, e.top_block(), en0))
        for e, st0, en0, at_block, en_whole in flat:
            ncur += 1
            doms = [pb for pb in probes if g.block_dominates(pb, at_block)]
            # nearest dominating probe = the one dominated by all the others
            near = [pb for pb in doms if all(g.block_dominates(q, pb) for q in doms)]
            expect = probes[near[0]] if near else app('add', i0, C(1))
            # (iii) an exit right after a continuation-byte probe is taken when that byte is NOT a continuation byte
            if near and near[0] in probe_val:
                V = probe_val[near[0]]
                andt = [t for t in cont_terms if V in subterms(t)]
                if andt:
                    if en_whole is not en0 and en_whole[0] == 'phi':
                        fx = set(I.phi_facts.get(en_whole[1][:2], {}).get(at_block, ()))
                    else:
                        fx = set(e.state.facts)
                    if not any(f[0] == 'ne' and len(f) == 3 and C(128) in f[1:] and any(a in f[1:] for a in andt) for f in fx):
                        bad.append((e, 'an error exit after a continuation-byte probe must be taken on `byte & 0xC0 != 0x80`'))
            if st0 != i0:
                bad.append((e, 'the broken part must start at the first byte of the sequence'))
            elif lin(en0) != lin(expect):
                bad.append((e, 'the broken part must end at the byte whose check failed (%s), it ends at %s' % (show(expect)[:40], show(en0)[:40])))
            # the remainder starts where the broken part ends
            rest = [v for bb, v in froms.items() if g.block_dominates(e.top_block(), bb)]
            if not rest or any(v != en_whole and lin(v) != lin(en0) for v in rest):
                bad.append((e, 'the remaining input must start exactly at the end of the broken part'))
    ctx.floor('R3', ncur, 7, 'error exits of the lossy decoder')
    if bad:
        for e, why in bad:
            ctx.violation('R3', 'Utf8LossyChunksIter::next', 'cursor:%s' % why.split(' (')[0].replace(' ', '-')[:50], 'lossy decoder deviates from std: %s' % why, e.span)
    else:
        ctx.ok('R3', 'lossy decoder: each of the %d error exits yields source[i_..E] with E = index of the byte whose check failed (offending byte re-examined), and continues at E' % ncur, 'nearest dominating byte probe vs slice bounds, linear equality')
    # successful sequences advance the cursor by exactly their width
    rec = [v for (bid, h), v in r.loops.items() if bid == b['id']]
    steps = set()
    for v in rec:
        for l, symv in v['sym'].items():
            if lead and symv == lead[0].args[1]:
                for stp in v['step']:
                    vals = [stp['env'].get(l)]
                    while any(x is not None and x[0] == 'phi' for x in vals):
                        vals = [y for x in vals for y in ([a for _, a in x[2]] if x is not None and x[0] == 'phi' else [x])]
                    for x in vals:
                        d, k = lin(app('sub', x, symv)) if x is not None else ({'?': 1}, 0)
                        steps.add(k if not d else None)
    if steps == {1, 2, 3, 4}:
        ctx.ok('R3', 'lossy decoder: the scan cursor advances by exactly 1, 2, 3 or 4 bytes per accepted sequence', 'loop step of the cursor at the back edges')
    else:
        ctx.violation('R3', 'Utf8LossyChunksIter::next', 'cursor-advance', 'accepted sequences must advance the cursor by 1/2/3/4 bytes; found steps %s' % sorted(map(str, steps)))
    # replacement pushed iff broken is non-empty
    lb = string_method(db, 'from_utf8_lossy_in')
    if lb is None:
        ctx.anchor_missing('R3', 'String::from_utf8_lossy_in')
        return
    J = arena.ArenaInterp(db)
    rr = J.run_entry(lb['id'])
    pushes = [e for e in rr.events if e.is_own() and e.kind == 'call' and e.callee and e.callee.endswith('::push_str')]
    repl = [e for e in pushes if 'REPLACEMENT' in repr(e.args[1]) or (e.args[1][0] == 'addr' and 'promoted' in repr(e.args[1])) or e.args[1][0] in ('agg', 'opaque', 'sym')]
    guarded = 0
    for e in repl:
        if any(f[0] == 'nottrue' and f[1][0] == 'call' and f[1][1].endswith('is_empty') for f in e.state.facts):
            guarded += 1
    valid_pushes = [e for e in pushes if e not in repl]
    if len(repl) >= 2 and guarded == len(repl) and len(valid_pushes) >= 2:
        ctx.ok('R3', 'from_utf8_lossy_in pushes each valid part and U+FFFD exactly when the broken part is non-empty', '%d replacement pushes, all under !broken.is_empty()' % len(repl))
    else:
        ctx.violation('R3', 'String::from_utf8_lossy_in', 'replacement-rule', 'the replacement character must be pushed exactly when a chunk\'s broken part is non-empty (found %d replacement pushes, %d guarded, %d valid-part pushes)' % (len(repl), guarded, len(valid_pushes)), lb.get('span'))
