"""C17 — boxed::Box owns its value like std's Box without owning memory."""
from .. import arena, prover
from ..terms import *
from ..facts import loc

EXPLANATION = ("(R1) type-check gating: Box::downcast reinterprets the pointer only under the true edge of is::<T>(), and the array TryFrom only under len == N (term of the "
               "slice length, not a byte size); the Err edges return the original box; (R2) forwarding agreement: every forwarding trait impl on Box (PartialEq, PartialOrd, Ord, "
               "Hash, Hasher, Display/Debug/Pointer, Iterator, DoubleEndedIterator, ExactSizeIterator, Future, ...) calls the same-named method of the same trait on the boxed "
               "value with the parameters in order; (R3) Box::new_in goes through the arena's allocation API, Box code never calls an arena deallocation/reallocation entry, Drop "
               "for Box is drop_in_place of the pointee; (R4) a slice/pointer handed out by into_boxed_slice / into_bump_slice / into_raw is the buffer pointer as it is when the "
               "container is forgotten (no reallocation between reading the pointer and giving up ownership)."
               ' (R2 also) the forwarded result is returned unchanged; (R3) Drop for Box destroys the pointee on every path; (R5) into_raw / from_raw / leak / into_inner / new_in / pin_in transfer the value exactly once.')
RULE = "rule instance = (rule, method); distinct by (rule, method)"

FORWARD_TRAITS = ('cmp::PartialEq', 'cmp::PartialOrd', 'cmp::Ord', 'hash::Hash', 'hash::Hasher', 'fmt::Display', 'fmt::Debug', 'iter::traits::iterator::Iterator',
                  'iter::traits::double_ended::DoubleEndedIterator', 'iter::traits::exact_size::ExactSizeIterator', 'future::future::Future')


EXCEPTIONS = {('Iterator', 'last'): ('fold', "std's own trick: `last` needs Self: Sized, so Box<I: ?Sized> implements it as fold(None, some) on the inner iterator")}


def run(ctx, config='rel-all'):
    if config == 'rel-default':
        return
    db = ctx.db(config)
    ctx.assume("observational equality with std::boxed::Box for all programs is not decided; these are the structural necessary conditions")
    # ---- R2 forwarding
    n2 = 0
    for b in db.fn_bodies():
        m = b['meta']
        if b['kind'] != 'assoc_fn' or not (m.get('impl_adt') or '').endswith('boxed::Box') or not m.get('impl_trait'):
            continue
        tr = m['impl_trait']
        if not any(tr.endswith(x) for x in FORWARD_TRAITS):
            continue
        name = m['name']
        g = db.cfg(b)
        calls = [t for bi, t in db.calls(b) if not (t['callee'].get('path') or '').startswith('core::ops::deref') and not (t['callee'].get('path') or '').endswith('::deref')
                 and not (t['callee'].get('path') or '').endswith('::deref_mut') and not (t['callee'].get('path') or '').startswith('core::pin::')
                 and not (t['callee'].get('path') or '').startswith('core::ptr::')]
        n2 += 1
        fn = arena.short(b['id'])
        same = [t for t in calls if (t['callee'].get('trait') or '') == tr and t['callee'].get('name') == name]
        exc = EXCEPTIONS.get((tr.split('::')[-1], name))
        if exc and len(calls) == 1 and (calls[0]['callee'].get('trait') or '') == tr and calls[0]['callee'].get('name') == exc[0]:
            ctx.ok('R2', '%s forwards to %s::%s (tabled exception)' % (fn, tr.split('::')[-1], exc[0]), exc[1])
            continue
        if len(calls) >= 1 and len(same) == 1 and len(calls) == 1:
            t = same[0]
            # parameters in order: arg k of the call is derived from parameter k (k >= 2)
            okargs = True
            for k, a in enumerate(t['args']):
                if k == 0:
                    continue
                if a.get('k') in ('copy', 'move'):
                    src = chase(b, a['place']['l'])
                    if src is not None and src != k + 1:
                        okargs = False
            # the forwarded result is what the caller gets (no short-circuit or post-processing around the call)
            okret = True
            if okargs and (m.get('output') or '()') != '()':
                I2, r2 = arena.run_fn(ctx, b['id'], config)
                fe = [e for e in r2.events if e.is_own() and e.kind == 'call' and (e.extra.get('callee') or {}).get('trait') == tr and (e.extra.get('callee') or {}).get('name') == name]
                okret = len(fe) == 1 and r2.ret == fe[0].ret
            if okargs and not okret:
                ctx.violation('R2', fn, 'forward-result', '%s does not return exactly the result of the forwarded %s::%s (the boxed value must compare / format / iterate as the value does, for every value)' % (fn, tr.split('::')[-1], name), b.get('span'))
            elif okargs:
                ctx.ok('R2', '%s forwards to %s::%s with parameters in order' % (fn, tr.split('::')[-1], name), 'single call, same trait, same name')
            else:
                ctx.violation('R2', fn, 'forward-arg-order', '%s forwards to %s::%s with permuted parameters' % (fn, tr.split('::')[-1], name), b.get('span'))
        else:
            others = sorted({(t['callee'].get('trait') or '?').split('::')[-1] + '::' + (t['callee'].get('name') or '?') for t in calls})
            ctx.violation('R2', fn, 'forward-target', '%s (impl of %s) must forward to the same-named method of the same trait on the boxed value; it calls %s' % (fn, tr.split('::')[-1], others), b.get('span'))
    ctx.floor('R2', n2, 32, 'forwarding trait methods on Box')
    # ---- R8 the forwarding is complete: a provided trait method that std's Box overrides (because the boxed value may override it
    # too) must be overridden here as well -- falling back to the trait's default reaches the value through a different entry
    # point (Hasher::write_u128 -> write(bytes), Iterator::nth -> repeated next, PartialOrd::lt -> partial_cmp), so a value with its
    # own override no longer hashes / iterates / compares as it does unboxed
    REQUIRED = {
        'hash::Hasher': ('finish', 'write', 'write_u8', 'write_u16', 'write_u32', 'write_u64', 'write_u128', 'write_usize', 'write_i8', 'write_i16', 'write_i32', 'write_i64', 'write_i128', 'write_isize'),
        'iterator::Iterator': ('next', 'size_hint', 'nth', 'last'),
        'double_ended::DoubleEndedIterator': ('next_back', 'nth_back'),
        'exact_size::ExactSizeIterator': ('len',),
        'cmp::PartialEq': ('eq', 'ne'),
        'cmp::PartialOrd': ('partial_cmp', 'lt', 'le', 'gt', 'ge'),
    }
    have = {}
    for b in db.fn_bodies():
        m = b['meta']
        if b['kind'] == 'assoc_fn' and (m.get('impl_adt') or '').endswith('boxed::Box') and m.get('impl_trait'):
            have.setdefault(m['impl_trait'], set()).add(m['name'])
    n8 = 0
    for tr, names in REQUIRED.items():
        got = set()
        for k, v in have.items():
            if k.endswith(tr):
                got |= v
        if not got:
            ctx.anchor_missing('R8', 'impl %s for Box' % tr.split('::')[-1])
            continue
        for nm in names:
            n8 += 1
            if nm in got:
                ctx.ok('R8', 'Box overrides %s::%s' % (tr.split('::')[-1], nm), 'impl inventory (the method body itself is R2)')
            else:
                ctx.violation('R8', 'Box', 'not-forwarded:%s::%s' % (tr.split('::')[-1], nm), 'impl %s for Box does not override %s: the default implementation reaches the boxed value through another method, so a value that overrides %s behaves differently once boxed' % (tr.split('::')[-1], nm, nm))
    ctx.floor('R8', n8, 28, 'provided trait methods Box must override')
    # ---- R9 no mutating method of Box lost its body
    from . import helpers as _helpers
    _helpers.check_effect(ctx, config, 'R9', ('src/boxed.rs',))
    # ---- R10 conversions from iterators take every item the iterator yields: a size_hint may size a reservation only
    from . import hinttaint
    hinttaint.check(ctx, db, 'R10', ('src/boxed.rs', 'src/collections/'))
    # ---- R11 a Box is turned into an owning iterator only through the constructors whose invariants are checked (C13): a
    # hand-made vec::IntoIter over a boxed slice miscounts zero-sized elements
    from . import ownership
    ownership.constructors(ctx, db, 'R11')
    # ---- R1 gating
    dc = [b for b in db.fn_bodies() if b['meta'].get('name') == 'downcast' and (b['meta'].get('impl_adt') or '').endswith('boxed::Box')]
    ctx.floor('R1.downcast', len(dc), 2, 'Box::downcast (dyn Any, dyn Any + Send)')
    for b in dc:
        I, r = arena.run_fn(ctx, b['id'], config)
        fn = arena.short(b['id'])
        fr = [e for e in r.events if e.kind == 'call' and e.callee and e.callee.endswith('::from_raw')]
        if not fr:
            # rebuilt without from_raw (`Box(&mut *p.cast())`): every Ok return must lie under the true edge of is::<T>()
            oks0 = [(t, f) for t, f in arena.alternatives(I, r.ret, set(r.ret_state.facts) if r.ret_state else set()) if t[0] == 'agg' and t[2] == 'Ok']
            isg = lambda f: f[0] == 'true' and isinstance(f[1], tuple) and f[1] and f[1][0] == 'call' and (f[1][1].endswith('::is') or '::is' in f[1][1])
            if oks0 and all(any(isg(f) for f in fs) for _, fs in oks0):
                ctx.ok('R1', '%s: the box is re-typed only under is::<T>() == true' % fn, 'must-fact on every Ok return alternative')
            else:
                ctx.violation('R1', fn, 'no-from_raw', 'downcast never rebuilds a Box under the true edge of is::<T>()', b.get('span'))
        for e in fr:
            gated = any(f[0] == 'true' and f[1][0] == 'call' and (f[1][1].endswith('::is') or '::is' in f[1][1]) for f in e.state.facts)
            # or: the pointer is what std's own checked cast handed out (`<dyn Any>::downcast_mut::<T>()` returned Some(p))
            viastd = [f[1] for f in e.state.facts if f[0] == 'is' and f[2] == 'Some' and isinstance(f[1], tuple) and f[1] and f[1][0] == 'call' and f[1][1].split('::')[-1] in ('downcast_mut', 'downcast_ref') and 'Any' in f[1][1]]
            if gated:
                ctx.ok('R1', '%s: pointer reinterpreted only under is::<T>() == true' % fn, 'must-fact at from_raw')
            elif viastd and e.args and any(c in subterms(e.args[0]) for c in viastd):
                ctx.ok('R1', '%s: the pointer re-boxed is the Some payload of <dyn Any>::downcast_mut::<T>()' % fn, 'must-fact is(downcast_mut(..), Some) at from_raw, the call term occurs in the pointer')
            else:
                ctx.violation('R1', fn, 'ungated-cast', 'the dyn Any pointer is reinterpreted as T without being dominated by the true edge of is::<T>()', e.span)
        errs = [t for t, _ in arena.alternatives(I, r.ret, set()) if t[0] == 'agg' and t[2] == 'Err']
        if errs and all(field_of(t, '0') == ('param', 1) for t in errs):
            ctx.ok('R1', '%s: Err returns the original box' % fn, 'term identity')
        else:
            ctx.violation('R1', fn, 'err-not-self', 'the failing downcast does not hand back the original box', b.get('span'))
    tf = [b for b in db.fn_bodies() if b['meta'].get('name') == 'try_from' and (b['meta'].get('impl_adt') or '').endswith('boxed::Box')]
    ctx.floor('R1.try_from', len(tf), 1, 'TryFrom<Box<[T]>> for Box<[T; N]>')
    for b in tf:
        I, r = arena.run_fn(ctx, b['id'], config)
        fn = 'Box<[T; N]>::try_from'
        oks = [(t, f) for t, f in arena.alternatives(I, r.ret, set(r.ret_state.facts) if r.ret_state else set()) if t[0] == 'agg' and t[2] == 'Ok']
        good = bool(oks)
        for t, facts in oks:
            has = any(f[0] == 'eq' and any(isinstance(x, tuple) and x and x[0] == 'app' and x[1] == 'len' for x in f[1:]) and any(x == sym('N') for x in f[1:]) for f in facts)
            good = good and has
        if good:
            ctx.ok('R1', '%s: cast to the array only under len(slice) == N' % fn, 'must-fact on the Ok alternative')
        else:
            ctx.violation('R1', fn, 'length-gate', 'the slice-to-array conversion is not gated by len(slice) == N (element count), so a wrong number of elements could be owned by the array box', b.get('span'))
        errs = [t for t, _ in arena.alternatives(I, r.ret, set()) if t[0] == 'agg' and t[2] == 'Err']
        if errs and all(field_of(t, '0') == ('param', 1) for t in errs):
            ctx.ok('R1', '%s: Err returns the original box' % fn, 'term identity')
        else:
            ctx.violation('R1', fn, 'err-not-self', 'the failing conversion does not hand back the original box', b.get('span'))
    # ---- R3 construction / no deallocation / drop
    nb = [b for b in db.fn_bodies() if b['meta'].get('name') == 'new_in' and (b['meta'].get('impl_adt') or '').endswith('boxed::Box')]
    for b in nb:
        cal = [db.callee_path(t) for bi, t in db.calls(b)]
        if any(c and c.endswith('Bump::<MIN_ALIGN>::alloc') for c in cal) or any(c and '::alloc' in c and 'Bump' in c for c in cal):
            ctx.ok('R3', 'Box::new_in allocates through Bump::alloc', 'call inventory')
        else:
            ctx.violation('R3', 'Box::new_in', 'construction', 'Box::new_in does not go through the arena allocation API: %s' % cal, b.get('span'))
    if not nb:
        ctx.anchor_missing('R3', 'Box::new_in')
    bad = 0
    for b in db.fn_bodies():
        if not (b.get('span') or '').startswith('src/boxed'):
            continue
        for bi, t in db.calls(b):
            c = db.callee_path(t) or ''
            tp = t['callee'].get('path') or ''
            if c.endswith('::dealloc') or c.endswith('::shrink') or c.endswith('::grow') or c.endswith('::reset') or tp.startswith('alloc::Alloc::') or 'alloc::alloc::dealloc' in c:
                bad += 1
                ctx.violation('R3', arena.short(b['id']), 'box-frees', 'Box code calls %s: a Box must never release or move arena memory' % c, t.get('span'))
    if not bad:
        ctx.ok('R3', 'no function in boxed.rs calls an arena deallocation/reallocation entry', 'call inventory')
    # ---- R5 ownership transfers: the value is handed over exactly once (no destructor runs in the transfer itself)
    def box_fn(name):
        bs = [b for b in db.fn_bodies() if b['kind'] == 'assoc_fn' and b['meta'].get('name') == name and (b['meta'].get('impl_adt') or '').endswith('boxed::Box') and not b['meta'].get('impl_trait')]
        if not bs:
            ctx.anchor_missing('R5', 'Box::' + name)
        return bs[0] if bs else None
    PTR = ('app', 'proj', ('param', 1), 'boxed::Box.0')
    n5 = 0

    def normal_drops(b, I, r):
        g = I.cfg(b)
        return [e for e in r.events if e.kind in ('drop', 'drop_in_place') and e.is_own() and not b['blocks'][e.block].get('cleanup')]
    b = box_fn('into_raw')
    if b:
        I, r = arena.run_fn(ctx, b['id'], config)
        n5 += 1
        if r.ret == PTR and not normal_drops(b, I, r):
            ctx.ok('R5', 'Box::into_raw returns the pointee address and runs no destructor', 'return term + no Drop on a normal path')
        else:
            ctx.violation('R5', 'Box::into_raw', 'into_raw', 'Box::into_raw must return exactly the pointer it holds (%s) without dropping the value' % show(r.ret)[:80], b.get('span'))
    b = box_fn('from_raw')
    if b:
        I, r = arena.run_fn(ctx, b['id'], config)
        n5 += 1
        okv = r.ret is not None and r.ret[0] == 'agg' and field_of(r.ret, '0') == ('param', 1)
        if okv:
            ctx.ok('R5', 'Box::from_raw wraps exactly the given pointer', 'return aggregate')
        else:
            ctx.violation('R5', 'Box::from_raw', 'from_raw', 'Box::from_raw must wrap exactly its argument: %s' % show(r.ret)[:80], b.get('span'))
    b = box_fn('leak')
    if b:
        I, r = arena.run_fn(ctx, b['id'], config)
        n5 += 1
        if r.ret == PTR and not normal_drops(b, I, r):
            ctx.ok('R5', 'Box::leak returns a reference to the pointee and runs no destructor', 'return term')
        else:
            ctx.violation('R5', 'Box::leak', 'leak', 'Box::leak must hand out the pointee without dropping it: %s' % show(r.ret)[:80], b.get('span'))
    b = box_fn('into_inner')
    if b:
        I, r = arena.run_fn(ctx, b['id'], config)
        n5 += 1
        rd = [e for e in r.events if e.kind == 'call' and e.is_own() and (e.callee or '').endswith('ptr::read')]
        okv = len(rd) == 1 and rd[0].args[0] == PTR and r.ret == rd[0].ret and not normal_drops(b, I, r)
        if okv:
            ctx.ok('R5', 'Box::into_inner moves the value out with one ptr::read of the pointee and does not drop it in place', 'return term + no Drop')
        else:
            ctx.violation('R5', 'Box::into_inner', 'into_inner', 'Box::into_inner must move the pointee out exactly once (one read of the held pointer, no destructor on the box): %s' % show(r.ret)[:80], b.get('span'))
    for name in ('new_in', 'pin_in'):
        b = box_fn(name)
        if b:
            I, r = arena.run_fn(ctx, b['id'], config)
            n5 += 1
            al = [e for e in r.events if e.kind == 'call' and e.is_own() and (e.callee or '').endswith('::alloc')]
            okv = len(al) == 1 and al[0].args == [('param', 2), ('param', 1)] and r.ret is not None and (al[0].ret in subterms(r.ret)) and not normal_drops(b, I, r)
            if not okv and not al:
                # Bump::alloc spelled out: one reservation with Layout::new::<T>(), x written into it exactly once, the box holds that slot
                rl = [e for e in r.events if e.kind == 'call' and e.is_own() and (e.callee or '').split('::')[-1] in ('alloc_layout', 'try_alloc_layout') and 'Bump' in (e.callee or '')]
                wr = [e for e in r.events if e.kind == 'call' and e.is_own() and e.callee == 'core::ptr::write']
                okv = len(rl) == 1 and rl[0].args[0] == ('param', 2) and 'layout_new' in repr(rl[0].args[1]) or False
                if len(rl) == 1 and rl[0].args[0] == ('param', 2):
                    lay = rl[0].args[1]
                    lay_ok = (lay[0] == 'layout' and 'sizeof(T)' in show(lay) and 'alignof(T)' in show(lay)) or 'Layout::new' in repr(lay) or 'layout_new' in repr(lay)
                    okv = lay_ok and len(wr) == 1 and wr[0].args[0] == rl[0].ret and wr[0].args[1] == ('param', 1) and r.ret is not None and rl[0].ret in subterms(r.ret) \
                        and r.events.index(rl[0]) < r.events.index(wr[0]) and not normal_drops(b, I, r)
            if not okv and name != 'new_in':
                # built on the checked constructor instead of allocating itself
                ni = [e for e in r.events if e.kind == 'call' and e.is_own() and (e.callee or '').endswith('Box::<\'a, T>::new_in')]
                okv = len(ni) == 1 and ni[0].args == [('param', 1), ('param', 2)] and r.ret is not None and (ni[0].ret == r.ret or ni[0].ret in subterms(r.ret)) and not normal_drops(b, I, r)
            if okv:
                ctx.ok('R5', 'Box::%s: the box holds exactly the pointer returned by a.alloc(x); x is moved, not dropped' % name, 'return aggregate contains the allocation result')
            else:
                ctx.violation('R5', 'Box::' + name, name, 'Box::%s must move its value into one arena allocation and hold that pointer' % name, b.get('span'))
    ctx.floor('R5', n5, 6, 'ownership-transfer functions of Box')
    # ---- R7 while a Box constructor runs user code (the source iterator of from_iter_in, a Clone impl, ...), everything collected
    # so far has an owner whose destructor runs on unwinding: a collection that is live across such a call is dropped on the
    # call's unwind path, and is not wrapped in ManuallyDrop / forgotten before the last such call
    from .. import panicsafe, cfg as cfgmod
    ps7 = panicsafe.PanicSafety(db)
    mu7 = ps7.may_user()
    n7 = 0
    OWNERS = ('collections::vec::Vec<', 'collections::string::String<')
    for b in db.fn_bodies():
        if not (b.get('span') or '').startswith('src/boxed') or b['kind'] == 'closure':
            continue
        locs = b.get('locals') or []
        owners = {i for i, ty in enumerate(locs) if any(ty.startswith(o) for o in OWNERS)}
        wrapped = {i for i, ty in enumerate(locs) if 'ManuallyDrop<' in ty and any(o in ty for o in OWNERS)}
        if not owners and not wrapped:
            continue
        g = cfgmod.CFG(b, with_unwind=True)
        gn = db.cfg(b)
        fn = arena.short(b['id'])

        def user_call(t):
            if t['k'] != 'call':
                return None
            w = ps7.direct_user(t)
            if w:
                return w
            pth = db.callee_path(t)
            tb = db.by_path.get(pth) if pth else None
            if tb is not None and tb['id'] in mu7:
                return 'crate function that may run user code: ' + tb['id'].split('::')[-1]
            return None
        # where each owner local is created (destination of a call) and given away (moved into a call)
        for L in sorted(owners | wrapped):
            born = [bi for bi in gn.reachable if b['blocks'][bi]['term']['k'] == 'call' and b['blocks'][bi]['term']['dest']['l'] == L and not b['blocks'][bi]['term']['dest']['proj']]
            if not born:
                continue
            gone = {bi for bi in gn.reachable if b['blocks'][bi]['term']['k'] == 'call' and any(a.get('k') == 'move' and a['place']['l'] == L and not a['place']['proj'] for a in b['blocks'][bi]['term']['args'])}
            for bi in sorted(gn.reachable):
                t = b['blocks'][bi]['term']
                why = user_call(t)
                if not why or bi in gone or bi in born:
                    continue
                # the call happens while L is live: after its creation, before it is given away
                if not any(gn.can_reach(b['blocks'][s]['term']['t'], bi, avoid_blocks=gone) for s in born if b['blocks'][s]['term'].get('t') is not None):
                    continue
                n7 += 1
                u = t.get('unwind')
                if L in wrapped:
                    ctx.violation('R7', fn, 'unowned-while-user-code:_%d' % L, '%s runs user code (%s) while the collection it fills is wrapped in ManuallyDrop: if that code panics the elements collected so far are never destroyed' % (fn, why), t.get('span'))
                    continue
                dropped = isinstance(u, int) and any(b['blocks'][x]['term']['k'] == 'drop' and b['blocks'][x]['term']['place']['l'] == L and not b['blocks'][x]['term']['place']['proj'] for x in g.reach([u]))
                if dropped:
                    ctx.ok('R7', '%s: the collection _%d is dropped on the unwind path of the call that may run user code (%s)' % (fn, L, why), 'drop terminator reachable from the unwind target')
                else:
                    ctx.violation('R7', fn, 'no-drop-on-unwind:_%d' % L, '%s runs user code (%s) while holding a collection that is not dropped if that code panics' % (fn, why), t.get('span'))
    # no floor: a Box constructor that delegates the collecting to Vec::from_iter_in has no such call at all (then Vec's own unwind
    # rules apply); the armed kill test C17-mutG is the positive control of this rule
    ctx.extra['R7_sites'] = n7
    # ---- R6 views: Deref / DerefMut / Borrow / BorrowMut / AsRef / AsMut of a Box give exactly the boxed value
    PT = ('load', ('fld', ('deref', ('param', 1)), 'boxed::Box.0'), 0)
    n6 = 0
    for b in db.fn_bodies():
        m = b['meta']
        tr = m.get('impl_trait') or ''
        if b['kind'] != 'assoc_fn' or not (m.get('impl_adt') or '').endswith('boxed::Box') or not any(tr.endswith(x) for x in ('ops::deref::Deref', 'ops::deref::DerefMut', 'borrow::Borrow', 'borrow::BorrowMut', 'convert::AsRef', 'convert::AsMut')):
            continue
        I, r = arena.run_fn(ctx, b['id'], config)
        n6 += 1
        fn = arena.short(b['id'])
        if r.ret == PT:
            ctx.ok('R6', '%s returns the boxed value itself' % fn, 'return term')
        else:
            ctx.violation('R6', fn, 'view', '%s must return a reference to exactly the boxed value; it returns %s' % (fn, show(r.ret)[:80] if r.ret is not None else None), b.get('span'))
    ctx.floor('R6', n6, 6, 'view impls of Box')
    bd = [b for b in db.fn_bodies() if (b['meta'].get('impl_trait') or '').endswith('ops::drop::Drop') and (b['meta'].get('impl_adt') or '').endswith('boxed::Box')]
    for b in bd:
        I, r = arena.run_fn(ctx, b['id'], config)
        d = [e for e in r.events if e.kind == 'drop_in_place']
        g = db.cfg(b)
        every_path = bool(d) and not (set(g.returns()) & g.reach([0], avoid_blocks=[e.block for e in d if e.is_own()]))
        if len(d) == 1 and 'Box.0' in repr(d[0].args[0]) and every_path:
            ctx.ok('R3', 'Drop for Box is drop_in_place(self.0) on every path', 'term + must-pass-through')
        else:
            ctx.violation('R3', 'Box::drop', 'drop-target', 'Drop for Box does not drop exactly its pointee once', b.get('span'))
    if not bd:
        ctx.violation('R3', 'Box', 'no-Drop', 'Box has no Drop impl: boxed values would never be destroyed')
    # ---- R4 stale buffer pointer at hand-off
    n4 = 0
    for b in db.fn_bodies():
        m = b['meta']
        if b['kind'] == 'closure' or not (m.get('impl_adt') or '').endswith('vec::Vec') or m.get('name') not in ('into_boxed_slice', 'into_bump_slice', 'into_bump_slice_mut'):
            continue
        n4 += 1
        I, r = arena.run_fn(ctx, b['id'], config)
        fn = arena.short(b['id'])
        fg = [e for e in r.events if e.kind == 'call' and e.callee == 'core::mem::forget']
        sl = [e for e in r.events if e.kind == 'slice' and e.is_own()]
        if not fg or not sl:
            ctx.violation('R4', fn, 'shape', 'expected a from_raw_parts and a mem::forget in %s' % fn, b.get('span'))
            continue
        ptr_taken = sl[-1].args[0]
        st = fg[-1].state.copy()
        # the buffer pointer of `self` as it is when the vector is forgotten (field stores made through &mut self are visible)
        lv_ptr = ('fld', ('fld', ('local', fg[-1].stack, 1), 'collections::vec::Vec.buf'), 'collections::raw_vec::RawVec.ptr')
        cur = I.read(st, lv_ptr)
        if cur is not None and cur == ptr_taken:
            ctx.ok('R4', '%s: the pointer handed out is the buffer pointer of the vector at the moment it is forgotten' % fn, show(ptr_taken)[:60])
        else:
            ctx.violation('R4', fn, 'stale-pointer', 'the slice is built from %s but the vector being forgotten has buffer %s: the buffer may have been moved (shrink/reserve) after the pointer was read' % (show(ptr_taken)[:60], show(cur)[:60] if cur else '?'), sl[-1].span)
    ctx.floor('R4', n4, 3, 'Vec -> slice hand-off functions')


def chase(body, local, depth=0):
    """parameter index a local is derived from by copies/moves/refs/derefs (None if unknown)"""
    if local <= body['argc'] and local >= 1:
        return local
    if depth > 8:
        return None
    for blk in body['blocks']:
        for s in blk['stmts']:
            if s['k'] == 'assign' and s['place']['l'] == local and not s['place']['proj']:
                rv = s['rv']
                if rv['k'] == 'use' and rv['o'].get('k') in ('copy', 'move'):
                    return chase(body, rv['o']['place']['l'], depth + 1)
                if rv['k'] in ('ref', 'rawptr'):
                    return chase(body, rv['place']['l'], depth + 1)
                if rv['k'] == 'cast' and rv['o'].get('k') in ('copy', 'move'):
                    return chase(body, rv['o']['place']['l'], depth + 1)
        t = blk['term']
        if t['k'] == 'call' and t['dest']['l'] == local and not t['dest']['proj']:
            p = t['callee'].get('path') or ''
            if (p.endswith('::deref') or p.endswith('::deref_mut') or p.startswith('core::pin::') or p.endswith('as_mut') or p.endswith('as_ref')) and t['args'] and t['args'][0].get('k') in ('copy', 'move'):
                return chase(body, t['args'][0]['place']['l'], depth + 1)
    return None
