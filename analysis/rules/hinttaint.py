"""An iterator's size_hint is a hint: it may steer how much is *reserved*, never how many items are taken or how long a
result is.  (std's collections behave identically for iterators whose size_hint lies; `ExactSizeIterator::len` used by the
documented `alloc_slice_fill_iter` contract is a different function and not a source here.)

Flow-insensitive taint over the MIR of one body: sources are the results of calls to Iterator::size_hint on a *foreign*
iterator (a type parameter / a field of generic type), taint flows through assignments, projections, arithmetic and the pure
combinators; a tainted value handed to any other call is a sink unless the callee is a reservation (reserve*, try_reserve*,
with_capacity*, move_tail) or a comparison, and a tainted value returned from a `size_hint` forwarder is the forward itself."""
from ..facts import loc

PROP = ('checked_add', 'saturating_add', 'checked_sub', 'saturating_sub', 'max', 'min', 'unwrap_or', 'unwrap_or_default', 'unwrap_or_else', 'map', 'and_then',
        'wrapping_add', 'expect', 'unwrap', 'clone', 'into', 'from', 'branch', 'from_residual', 'from_output', 'ok_or', 'ok', 'filter', 'zip')
ALLOWED = ('reserve', 'reserve_exact', 'try_reserve', 'try_reserve_exact', 'with_capacity_in', 'with_capacity', 'move_tail', 'reserve_internal',
           'eq', 'ne', 'lt', 'le', 'gt', 'ge', 'cmp', 'partial_cmp', 'is_some', 'is_none', 'is_some_and', 'is_none_or', 'fmt', 'size_hint',
           'assert_failed', 'panic', 'panic_fmt')


def check(ctx, db, rule, prefixes=('src/collections/', 'src/boxed.rs', 'src/lib.rs')):
    nsrc = 0
    for b in db.fn_bodies():
        if not any((b.get('span') or '').startswith(p) for p in prefixes):
            continue
        tainted = set()
        srcspan = None
        for bl in b['blocks']:
            t = bl['term']
            if t['k'] == 'call' and (t['callee'].get('path') or '').endswith('Iterator::size_hint') and t.get('dest'):
                tainted.add(t['dest']['l'])
                srcspan = t.get('span')
        if not tainted:
            continue
        if (b['meta'].get('name') == 'size_hint'):
            continue            # a forwarding size_hint impl returns the inner hint: that is what it is for
        nsrc += 1

        def mentions(x):
            if isinstance(x, dict):
                if isinstance(x.get('l'), int) and 'proj' in x and x['l'] in tainted:
                    return True
                return any(mentions(v) for v in x.values())
            if isinstance(x, list):
                return any(mentions(v) for v in x)
            return False
        changed = True
        while changed:
            changed = False
            for bl in b['blocks']:
                for st in bl['stmts']:
                    if st.get('k') == 'assign' and st['place']['l'] not in tainted and mentions(st['rv']):
                        tainted.add(st['place']['l'])
                        changed = True
                t = bl['term']
                if t['k'] == 'call' and t.get('dest') and t['dest']['l'] not in tainted and mentions(t['args']):
                    nm = (t['callee'].get('name') or (t['callee'].get('path') or '').split('::')[-1])
                    if nm in PROP:
                        tainted.add(t['dest']['l'])
                        changed = True
        bad = []
        for bl in b['blocks']:
            t = bl['term']
            if t['k'] != 'call' or not mentions(t['args']):
                continue
            nm = (t['callee'].get('name') or (t['callee'].get('path') or '').split('::')[-1])
            if nm in PROP or nm in ALLOWED:
                continue
            bad.append((nm, t.get('span')))
        # a tainted value used as the bound of a counting loop shows up as a comparison only; as a length it must reach a call or
        # an aggregate (slice construction): aggregates of tainted values that are returned are caught by the return check below
        if bad:
            nm, span = bad[0]
            ctx.violation(rule, b['id'], 'size-hint-as-count:%s' % nm, '%s passes a value derived from Iterator::size_hint to %s: a hint may size a reservation, but how many items are taken / how long the result is must come from the items actually yielded (std accepts iterators whose hints lie)' % (b['id'], nm), loc(span))
        else:
            ctx.ok(rule, '%s: size_hint reaches only reservations and comparisons' % b['id'], 'taint over %d locals' % len(tainted))
    ctx.floor(rule, nsrc, 3, 'bodies that read a foreign iterator\'s size_hint')
