"""C15 — every element is dropped exactly once, and only by its owner (destructor-responsibility pairing)."""
from .. import arena, panicsafe
from ..terms import *
from ..facts import loc

EXPLANATION = ("(R1) ownership hand-off: in every function that takes a crate container by value and lets its buffer/value flow into the result (into_bump_slice(_mut), "
               "into_boxed_slice, into_iter, into_bump_str, Box::into_raw/leak/into_inner, array conversions, RawVec::into_box ...), the elaborated MIR has no Drop of that "
               "argument on any normal path (it was forgotten / wrapped in ManuallyDrop / moved into the result); (R2) move-out pairing: the panic-safety typestate is run to "
               "the normal returns of every collections/Box function — a slot that was moved out, dropped or duplicated must be excluded by a length/cursor commit before the "
               "function returns (unless the function is a guard type's method, a Drop impl or a hand-off); (R3) who drops: Drop for Vec drops exactly the slice (ptr, len); "
               "IntoIter/Drain/Splice/DrainFilter/Box have Drop impls; RawVec and the arena's reset/drop reach no element destructor."
               ' (R5) drain_filter formula clauses; (R6) the ownership obligations of C17 on Box (exact-length array conversion, unconditional Drop, transfers without destructor).')
RULE = "rule instance = (rule, function); distinct by (rule, function)"

CONTAINERS = ('Vec<', 'String<', 'Box<', 'RawVec<', 'IntoIter<')


def run(ctx, config='rel-all'):
    if config == 'rel-default':
        return
    db = ctx.db(config)
    ctx.assume("rustc's drop elaboration (MIR Drop terminators) is the ground truth for which values are dropped where", "zero-sized element paths are covered only structurally")
    ps = panicsafe.PanicSafety(db)
    handoffs = 0
    forget_fns = 0
    # ---- R1
    for b in db.fn_bodies():
        sp = b.get('span') or ''
        if b['kind'] == 'closure' or not (sp.startswith('src/collections') or sp.startswith('src/boxed')):
            continue
        m = b['meta']
        ins = m.get('inputs') or []
        byval = [i + 1 for i, t in enumerate(ins) if not t.startswith('&') and any(c in t for c in CONTAINERS) and 'bumpalo' not in t and not t.startswith('std::') and not t.startswith('core::')]
        g = db.cfg(b)
        forgets = []
        for bi in sorted(g.reachable):
            t = b['blocks'][bi]['term']
            if t['k'] == 'call' and t['callee'].get('path') in ('core::mem::forget', 'core::mem::manually_drop::ManuallyDrop::<T>::new'):
                forgets.append(t)
        if forgets:
            forget_fns += 1
        if not byval:
            continue
        I, r = arena.run_fn(ctx, b['id'], config)
        if r.ret is None:
            continue
        fn = arena.short(b['id'])
        scalar_out = (m.get('output') or '').strip() in ('usize', 'isize', 'bool', '()', 'u8', 'u16', 'u32', 'u64', 'u128', 'i8', 'i16', 'i32', 'i64', 'i128', 'char', 'f32', 'f64')
        for i in byval:
            flows = ('param', i) in subterms(r.ret)
            if not flows or scalar_out:
                continue        # a number computed from the argument's fields carries none of its elements
            handoffs += 1
            drops = []
            for bi in sorted(g.reachable):
                blk = b['blocks'][bi]
                t = blk['term']
                if t['k'] == 'drop' and t['place']['l'] == i and not blk['cleanup'] and t.get('needs_drop'):
                    drops.append(t)
            if drops:
                ctx.violation('R1', fn, 'drops-handed-off-arg%d' % i, '%s hands the contents of its by-value argument %d (%s) to its result but the argument is also dropped on a normal path: its elements would be destroyed twice / while still reachable' % (fn, i, ins[i - 1][-40:]), drops[0].get('span'))
            else:
                how = 'mem::forget/ManuallyDrop' if forgets else 'moved into the result'
                ctx.ok('R1', '%s: argument %d flows into the result and is not dropped on any normal path' % (fn, i), how)
    ctx.floor('R1', handoffs, 12, 'by-value container arguments whose contents flow into the result')
    ctx.floor('R1.forget', forget_fns, 9, 'functions suppressing a destructor with mem::forget / ManuallyDrop::new')
    # ---- R2
    nfun = 0
    for b in db.fn_bodies():
        sp = b.get('span') or ''
        if b['kind'] == 'closure' or not (sp.startswith('src/collections') or sp.startswith('src/boxed')):
            continue
        g = db.cfg(b)
        has_hole = False
        calls_handoff = False
        for bi in g.reachable:
            t = b['blocks'][bi]['term']
            if t['k'] == 'call':
                p = db.callee_path(t) or ''
                if p in panicsafe.HOLE_CALLS or p == 'core::ptr::drop_in_place' or p.endswith('>::drop_in_place'):
                    has_hole = True
                if p in ('core::mem::forget', 'core::mem::manually_drop::ManuallyDrop::<T>::new') or p.endswith('::into_raw') or (p.endswith('::leak') and 'boxed::Box' in p):
                    calls_handoff = True        # the owner is given up by value: what is moved out afterwards belongs to nobody else
        if not has_hole:
            continue
        nfun += 1
        res = ps.analyse(b)
        fn = arena.short(b['id'])
        if res['end_holes'] and not calls_handoff:
            ctx.violation('R2', fn, 'returns-with-hole', '%s can return normally while a slot it moved out, dropped or duplicated is still inside the container\'s length (no length/cursor commit follows): the value would be dropped again or stay reachable' % fn, b.get('span'))
        else:
            ctx.ok('R2', '%s: every moved-out/duplicated slot is committed before the normal return' % fn, 'typestate at %d return block(s)%s' % (len(g.returns()), ' (hand-off)' if calls_handoff else ''))
    ctx.floor('R2', nfun, 21, 'functions with hole-creating operations')
    # ---- R3
    vdrop = [b for b in db.fn_bodies() if (b['meta'].get('impl_trait') or '').endswith('ops::drop::Drop') and (b['meta'].get('impl_adt') or '').endswith('vec::Vec')]
    if vdrop:
        I, r = arena.run_fn(ctx, vdrop[0]['id'], config)
        dips = [e for e in r.events if e.kind == 'drop_in_place']
        sl = [e for e in r.events if e.kind == 'slice']
        okv = False
        if len(dips) == 1 and sl:
            s0 = sl[-1]
            lenv = ('load', ('fld', ('deref', ('param', 1)), 'collections::vec::Vec.len'), 0)
            okv = s0.args[1] == lenv and 'RawVec.ptr' in repr(s0.args[0])
        if okv:
            ctx.ok('R3', 'Drop for Vec drops exactly from_raw_parts_mut(buf.ptr, len)', 'term identity')
        else:
            ctx.violation('R3', 'Vec::drop', 'extent', 'Drop for Vec does not drop exactly the initialised prefix (ptr, len)', vdrop[0].get('span'))
    else:
        ctx.anchor_missing('R3', 'Drop for collections::Vec')
    need = ['vec::IntoIter', 'vec::Drain', 'vec::Splice', 'vec::DrainFilter', 'boxed::Box']
    have = {(b['meta'].get('impl_adt') or '') for b in db.fn_bodies() if (b['meta'].get('impl_trait') or '').endswith('ops::drop::Drop')}
    for n in need:
        if any(h.endswith(n) for h in have):
            ctx.ok('R3', 'Drop impl exists for %s' % n, 'impl inventory')
        else:
            ctx.violation('R3', n, 'no-Drop', '%s has no Drop impl: the remainder it owns would never be dropped' % n)
    check_drain_exhaust(ctx, db)
    # ---- R3b: the destructor of an owner destroys what it still owns on EVERY path (no size/flag dependent skip)
    nd = 0
    for b in db.fn_bodies():
        m = b['meta']
        adt = m.get('impl_adt') or ''
        if b['kind'] != 'assoc_fn' or not (m.get('impl_trait') or '').endswith('ops::drop::Drop') or not any(adt.endswith(x) for x in ('vec::Vec', 'vec::IntoIter', 'vec::Drain', 'vec::Splice', 'boxed::Box')):
            continue
        g = db.cfg(b)
        killers = []
        for bi, t in db.calls(b):
            tp = t['callee'].get('path') or ''
            if tp.endswith('Iterator::for_each') or tp == 'core::ptr::drop_in_place' or tp.endswith('>::drop_in_place'):
                killers.append(bi)
            elif tp.endswith('Iterator::next') or tp.endswith('DoubleEndedIterator::next_back'):
                # `while let Some(x) = self.next() { drop(x) }`: a loop that is only left through the test of next()'s result
                # consumes (and thereby destroys) everything the iterator still owns
                for h, blks in g.loops().items():
                    if bi in blks and t.get('t') is not None:
                        exits = {u for u in blks for v in g.succ[u] if v not in blks}
                        if exits and exits <= {t['t']} and b['blocks'][t['t']]['term']['k'] == 'switch':
                            killers.append(bi)
        nd += 1
        fn = arena.short(b['id'])
        if not killers:
            ctx.violation('R3', fn, 'destroys-nothing', '%s never destroys the elements it owns' % fn, b.get('span'))
            continue
        r = g.reach([0], avoid_blocks=killers)
        if set(g.returns()) & r:
            ctx.violation('R3', fn, 'conditional-destroy', '%s has a path to its return that skips the destruction of the elements it still owns (a size- or flag-dependent shortcut leaks / fails to drop them)' % fn, b.get('span'))
        else:
            ctx.ok('R3', '%s: the owned remainder is destroyed on every path to the return' % fn, 'must-pass-through over %d destroying call(s)' % len(killers))
    ctx.floor('R3.destroy', nd, 5, 'destructors of element owners (Vec, IntoIter, Drain, Splice, Box)')
    from . import drainfilter
    drainfilter.check(ctx, 'rel-all' if config is None else config, 'R5')
    # ---- R6 Box hands its value on exactly once: conversions between boxed slices and arrays reinterpret only under an exact
    # length match (a longer slice would lose its tail elements), Drop for Box destroys the pointee on every path, and the
    # ownership transfers (into_raw / from_raw / leak / into_inner) run no destructor -- the obligations of C17
    from .. import runner
    from . import c17
    c17.run(runner.Sub(ctx, 'R6', 'C17', only={'R1', 'R3', 'R4', 'R5', 'R7'}), config)     # not the trait forwarding (R2) / views (R6): those move no ownership
    # ---- R7 every slot of [0, len) holds exactly one owned element only if the element-moving algorithms are std's: a cursor
    # that steps the wrong way, a length lowered after (not before) the drop, a shifted copy of the wrong extent all duplicate or
    # lose elements, i.e. run a destructor twice or never.  The formula clauses (O2) and the unwind typestate (R6) of C13.
    from . import c13
    c13.run(runner.Sub(ctx, 'R7', 'C13', only={'O2', 'R6', 'O3', 'O4'}), config)
    # ---- R8 / R9 (requirement side, so that added code is judged): the draining types advance the iterator over the elements they own
    # by next / next_back only (a forwarded nth / advance_by abandons elements), and the owning iterator types are built only by
    # their analysed constructors (IntoIter encodes zero-sized lengths in the address of `end`)
    from . import ownership
    ownership.inner_iterator(ctx, db, 'R8')
    ownership.constructors(ctx, db, 'R9')
    mu = ps.may_user()
    for b in db.fn_bodies():
        m = b['meta']
        if (m.get('impl_adt') or '').endswith('raw_vec::RawVec') and b['kind'] != 'closure':
            direct = mu.get(b['id'])
            if direct and ('drop' in direct or 'generic value' in direct):
                ctx.violation('R3', arena.short(b['id']), 'rawvec-drops-elements', 'RawVec must never run element destructors (%s)' % direct, b.get('span'))
    ctx.ok('R3', 'no RawVec method drops a value of the element type', 'may-call-user summary')


def check_drain_exhaust(ctx, db):
    """R4: a Drain owns the not-yet-yielded elements of its range; any function of a type that embeds a
    Drain and writes into the underlying vector through it (extend / fill / move_tail) must first
    exhaust the drain (for_each(drop) / by_ref loop), otherwise the new elements overwrite values
    that are still going to be dropped by Drain::drop"""
    n = 0
    for b in db.fn_bodies():
        m = b['meta']
        if b['kind'] == 'closure' or not (m.get('impl_adt') or '').endswith('vec::Splice'):
            continue
        g = db.cfg(b)
        exhaust = []
        writers = []
        for bi, t in db.calls(b):
            p = db.callee_path(t) or ''
            tp = t['callee'].get('path') or ''
            ga = ' '.join(t['callee'].get('gargs') or [])
            if tp.endswith('Iterator::for_each') and 'Drain' in ga:
                exhaust.append(bi)
            elif (tp.endswith('Iterator::next') or p.endswith('Iterator>::next')) and ('Drain' in ga or 'vec::Drain<' in p) and t.get('t') is not None:
                # an exhaust loop: left only through the test of next()'s result; what follows the loop is dominated by its header
                for h, blks in g.loops().items():
                    if bi in blks:
                        exits = {u for u in blks for v in g.succ[u] if v not in blks}
                        if exits and exits <= {t['t']} and b['blocks'][t['t']]['term']['k'] == 'switch':
                            exhaust.append(bi)
            if p.endswith('Drain::<\'a, \'bump, T>::fill') or p.endswith('::move_tail') or (tp.endswith('Extend::extend') and 'Vec' in ga):
                writers.append((bi, t))
        def exhausted_before_every_call(body, depth=0):
            # a private helper the destructor was split into: every call site of it is dominated by the exhaustion in its caller
            if depth > 3 or body['meta'].get('pub') or body['meta'].get('impl_trait'):
                return False
            path = body['meta'].get('path') or body['id']
            sites = list(db.callers_of(path)) or list(db.callers_of(body['id']))
            if not sites:
                return False
            for cb, cbi, ct in sites:
                if not (cb['meta'].get('impl_adt') or '').endswith('vec::Splice'):
                    return False
                cg = db.cfg(cb)
                ex = [xbi for xbi, xt in db.calls(cb) if (xt['callee'].get('path') or '').endswith('Iterator::for_each') and 'Drain' in ' '.join(xt['callee'].get('gargs') or [])]
                if not any(cg.block_dominates(x, cbi) for x in ex) and not exhausted_before_every_call(cb, depth + 1):
                    return False
            return True
        helper_ok = None
        for bi, t in writers:
            n += 1
            fn = arena.short(b['id'])
            if not (exhaust and any(g.block_dominates(x, bi) for x in exhaust)) and helper_ok is None:
                helper_ok = exhausted_before_every_call(b)
            if helper_ok and not (exhaust and any(g.block_dominates(x, bi) for x in exhaust)):
                ctx.ok('R4', '%s: %s only after the drain was exhausted' % (fn, (db.callee_path(t) or '').split('::')[-1]), 'every call site of this private helper is dominated by for_each(drop) in its caller')
            elif exhaust and any(g.block_dominates(x, bi) for x in exhaust):
                ctx.ok('R4', '%s: %s only after the drain was exhausted' % (fn, (db.callee_path(t) or '').split('::')[-1]), 'dominance of for_each(drop) over the write')
            else:
                ctx.violation('R4', fn, 'write-before-exhaust:' + (db.callee_path(t) or '?').split('::')[-1], '%s writes into the vector through its Drain (%s) on a path where the drained range was not exhausted first: the elements still owned by the Drain are overwritten and the new ones dropped twice' % (fn, (db.callee_path(t) or '').split('::')[-1]), t.get('span'))
    ctx.floor('R4', n, 4, 'vector writes through a Drain in Splice')
