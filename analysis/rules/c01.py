"""C01 — live allocations are in-bounds and never overlap: the bump-pointer discipline.

Decides (statically, for every history): every way the finger of a chunk can change is one of
BUMP / RECLAIM / SAVED / EMPTY with its obligations discharged; the footer of a new chunk is laid
out inside the block obtained from the global allocator and re-establishes the chunk invariant.
Does not decide: whole-history disjointness as such (it follows from the discipline by induction,
which is argued in DESIGN.md, not computed)."""
from .. import arena, prover, termflow
from ..terms import *
from ..facts import loc

EXPLANATION = ("TermFlow (abstract interpretation of rustc MIR with symbolic terms and must-facts) over every arena entry point "
               "(try_alloc_layout, reset, Drop, alloc_try_with, try_alloc_try_with, alloc_slice_try_fill_with, Alloc/Allocator impls, constructors), "
               "with all crate-local callees and closures inlined. Every store to ChunkFooter.ptr is classified (BUMP/RECLAIM/SAVED/EMPTY; FULL/OTHER are violations) "
               "and its obligations (J2 re-established: data <= new <= footer, aligned to MIN_ALIGN; BUMP: new <= old and new+size <= old; RECLAIM/SAVED/EMPTY: gating by the "
               "is_last_allocation equality, reclaimed range bounded by the released block) are discharged by the fixed lemma library; "
               "the footer aggregate written by the acquirer is checked against the block returned by the global allocator (J1, J3, fit of the request)."
               ' (R9) the obligations of C12 on grow / shrink / deallocate and the Allocator glue (returned slice length, no release on a path that can still return Err, copy discipline) are evaluated here too, because the property quantifies over those operations.')
RULE = ("rule instance = (rule, store/call site in its inlined call stack); non-trivial = has at least one arithmetic or gating obligation; "
        "distinct = distinct (rule, entry, innermost function, site ordinal)")

RECLAIM_FNS_NOTE = "RECLAIM stores are legal only inside the crate's unsafe fn(&self, NonNull<u8>, Layout, ..) (dealloc/shrink) under the gate finger == ptr"

ENTRY_AXIOMS = {
    # Allocator::shrink contract: new_layout.size() <= old_layout.size()
    'Allocator::shrink': [('le', app('size', ('param', 4)), app('size', ('param', 3)))],
}


def ordinal_keys(events):
    """stable site descriptors: innermost fn + ordinal of the store among that fn's stores (by block order)"""
    per = {}
    keys = {}
    for e in events:
        fn = arena.short(arena.innermost(e))
        k = (fn, e.block, e.span)
        per.setdefault(fn, [])
        if k not in per[fn]:
            per[fn].append(k)
    for fn, lst in per.items():
        lst2 = sorted(set(lst), key=lambda x: (x[1], str(x[2])))
        for i, k in enumerate(lst2):
            keys[k] = i
    return keys


def run(ctx, config='rel-all'):
    A = arena.analyse(ctx, config)
    ctx.assume("A1 unchecked add/mul do not overflow (C19/C09.O1')", "A2 Layout invariant (align is a power of two, rounded size <= isize::MAX)",
               "A3 MIN_ALIGN is a power of two <= CHUNK_ALIGN (C04.R4)", "A4 global allocator returns null or a block of layout.size() bytes aligned to layout.align()",
               "J chunk invariant assumed at loads of footers, guaranteed at every store (this rule pack and C04)",
               "U contract of the crate's unsafe dealloc/shrink/grow: ptr is a live block of this arena with the given layout (so ptr == finger implies ptr+size <= footer)",
               "nightly rustc MIR construction (mir-opt-level=0, release flags)")
    missing = [k for k, v in A.items() if v is None and not (config != 'rel-all' and k.startswith('Allocator::'))]
    for k in missing:
        ctx.anchor_missing('R0', 'arena entry point ' + k)
    sites = {}
    finger_sites = set()
    for key, val in A.items():
        if val is None:
            continue
        I, res, body = val
        st_events = [e for e in res.events if e.kind == 'store']
        ords = ordinal_keys(st_events)
        axioms = set(ENTRY_AXIOMS.get(key, ()))
        for e in st_events:
            fn = arena.short(arena.innermost(e))
            o = ords.get((fn, e.block, e.span), 0)
            ff = arena.footer_field(e)
            fa = arena.footer_agg(e)
            where = '%s [%s]' % (loc(e.span), arena.stack_str(e))
            if ff and ff[1] == 'ptr':
                check_finger_store(ctx, key, I, res, e, fn, o, where, axioms)
                finger_sites.add((fn, o))
            elif ff and ff[1] in ('data', 'layout'):
                ctx.violation('R8', fn, 'store#%d(ChunkFooter.%s)' % (o, ff[1]),
                              'ChunkFooter.%s is written after the footer was created (the analysis and dealloc_chunk_list rely on it being immutable)' % ff[1], e.span)
            elif fa:
                check_footer_agg(ctx, key, I, res, e, fn, o, where)
                finger_sites.add((fn, 'agg%d' % o))
        check_ccf_stores(ctx, key, I, res)
    ctx.floor('R1', len(finger_sites), 9, 'distinct finger store sites (fast path, new_chunk, reset, dealloc, shrink, 2x2 rewinds)')
    check_fast_path_failure_atomicity(ctx, A)
    check_who_may_call(ctx, config)
    # ---- R9 the property quantifies over grow / shrink / deallocate and the Allocator / Alloc entry points: the block they
    # describe to the caller (length of the returned slice), the failure atomicity of grow/shrink (a block is never released on a
    # path that can still return Err) and the copy discipline are the obligations of C12, evaluated here as C01.R9
    from .. import runner
    from . import c12
    c12.run(runner.Sub(ctx, 'R9', 'C12', only={'O2', 'R1', 'R3', 'R4', 'R8'}), config)     # not the zero fill (R6) / trait defaults (R5): they do not move or size blocks
    # ---- R13 every body that can write the finger / chunk list is one the obligations above have seen (no store hides in a
    # destructor or closure that only runs while unwinding)
    from . import unwindstate
    unwindstate.check(ctx, ctx.db(config), A, 'R13')
    # ---- R14 what the arena releases on its own initiative is a whole block it reserved: every call of the unsafe release
    # (dealloc(ptr, layout)) made inside an arena entry point either forwards the entry's own (ptr, layout) parameters (the
    # Allocator / Alloc glue: the caller vouches) or passes the pointer *and the layout* of a reservation made in the same call.
    # Releasing a prefix of a live block ("give the Result's tag back") lets dealloc's rounding move the finger into the rest.
    n14 = 0
    for key, val in A.items():
        if val is None:
            continue
        I, res, body = val
        for i, e in enumerate(res.events):
            if e.kind != 'call' or not e.callee or not ('Bump' in e.callee and e.callee.split('::')[-1] == 'dealloc') or len(e.args or ()) < 3:
                continue
            n14 += 1
            ptr, lay = e.args[1], e.args[2]
            params = {('param', k) for k in range(1, 8)}
            from_params = any(p in subterms(ptr) or p == ptr for p in params) and (lay in params or any(p in subterms(lay) for p in params))
            resv = [x for x in res.events[:i] if x.kind == 'call' and x.callee and x.callee.split('::')[-1] in ('try_alloc_layout', 'alloc_layout') and 'Bump' in x.callee and len(x.args or ()) > 1]
            whole = any(x.args[1] == lay and x.ret is not None and (x.ret == ptr or x.ret in subterms(ptr)) for x in resv)
            fn = arena.short(arena.innermost(e))
            if whole:
                ctx.ok('R14', '%s via %s: releases the pointer and the layout of a reservation made in this call' % (fn, key), 'term identity')
            elif from_params and not resv:
                ctx.ok('R14', '%s via %s: forwards the caller\'s (ptr, layout)' % (fn, key), 'parameters of the entry point')
            elif from_params and key.split('::')[0] in ('Allocator', 'Alloc'):
                ctx.ok('R14', '%s via %s: forwards the caller\'s (ptr, layout)' % (fn, key), 'parameters of the entry point')
            else:
                ctx.violation('R14', fn, 'partial-release:%s' % key, '%s (via %s) releases (%s, %s), which is not the pointer together with the layout of a reservation made in the same call: part of a live block is handed back and the rounded finger may land inside the rest' % (fn, key, show(ptr)[:60], show(lay)[:60]), e.span)
    ctx.floor('R14', n14, 3, 'in-crate calls of the unsafe release')
    # ---- R10 the crate's own clients of the arena keep the allocation contract
    from . import clients
    clients.check(ctx, config, 'R10')
    # ---- R11 the typed slice / value initialisers write exactly the extent they reserved (C02.R1 / R2 / R6): a fill that is not
    # bounded by the reserved count writes into the neighbouring live block
    from . import c02
    c02.run(runner.Sub(ctx, 'R11', 'C02', only={'R1', 'R2', 'R6'}), config)
    # ---- R12 the growing primitives of the arena Vec write only into capacity they reserved (the formula clauses of C13 for
    # push / insert / extend_with / append / extend_from_slice_copy): one slot too many lands in the neighbouring live block
    if config != 'rel-default':
        from . import c13
        c13.run(runner.Sub(ctx, 'R12', 'C13', only={'O2'}, match=c13.growing_clause), config)


def check_finger_store(ctx, entry, I, res, e, fn, o, where, axioms, rules=None):
    rules = rules or {'R1': 'R1', 'O2': 'O2', 'R3': 'R3'}
    F, _ = arena.footer_field(e)
    cls = arena.classify_finger_store(I, res, e)
    site = 'store#%d(ChunkFooter.ptr)' % o
    if cls in ('FULL', 'OTHER') or cls.startswith('MIXED'):
        ctx.violation(rules['R1'], fn, site + ':' + cls, 'store to the bump finger of class %s (value %s): not a bump, reclaim, saved-finger or empty-chunk value [%s]' % (cls, show(e.val)[:160], where), e.span)
        return
    ctx.ok(rules['R1'], '%s %s via %s' % (fn, site, entry), 'class ' + cls)
    ob, P = arena.j2_obligations(I, res, e, F, e.val, axioms)
    old = arena.old_finger(I, e)
    names = dict(ob)
    if cls == 'BUMP':
        names['new <= old finger'] = P.le(e.val, old)
        L = e.state.env.get((e.stack, 2))
        if L is not None:
            names['new + size(layout) <= old finger'] = P.le(app('add', e.val, app('size', L)), old)
        else:
            names['layout parameter of the bumping function found'] = False
    if cls == 'RECLAIM':
        bp = arena.unsafe_block_params(I, e)
        gate = arena.reclaim_precondition(I, e, F)
        names['gated by finger == ptr of the released block (is_last_allocation)'] = bool(gate)
        if bp:
            p, L = bp
            P2 = arena.mk_prover(I, e, res, set(axioms) | gate)
            names['new <= round_up(ptr + size(layout), MIN_ALIGN)  (never reclaims past the released block)'] = P2.le(e.val, app('round_up', app('add', p, app('size', L)), arena.MIN))
        else:
            names['RECLAIM store lies in an unsafe fn(&self, NonNull<u8>, Layout, ..)'] = False
    if cls in ('SAVED', 'EMPTY') and not creator_or_exclusive(I, e):
        gate = last_allocation_gate(I, e, F, old)
        names['gated by finger == pointer of the block being abandoned (is_last_allocation)'] = gate
        if cls == 'SAVED':
            Fs = e.val[1][1][1] if e.val[0] == 'load' else None
            names['saved finger belongs to the chunk being written (cur == saved footer)'] = Fs is not None and P.eq(F, Fs)
        else:
            names['EMPTY rewind only when the chunk is not the one saved before the reservation (cur != saved footer)'] = differs_from_saved(I, e, F)
    for n, okv in names.items():
        if okv:
            ctx.ok(rules['O2'] if cls == 'BUMP' else rules['R3'], '%s %s via %s: %s' % (fn, site, entry, n), 'lemma library under %d facts' % len(e.state.facts))
        else:
            ctx.violation(rules['O2'] if cls == 'BUMP' else rules['R3'], fn, site + ':' + n.split('  ')[0],
                          'cannot establish "%s" for the %s store of %s [%s]' % (n, cls, show(e.val)[:140], where), e.span)


def creator_or_exclusive(I, e):
    """store happens in a function that holds the arena exclusively (&mut self), e.g. reset"""
    body = I.bodies.get(arena.owner_fn(I, e))
    ins = (body or {}).get('meta', {}).get('inputs') or []
    return bool(ins) and ins[0].startswith('&mut ')


def last_allocation_gate(I, e, F, old):
    P = prover.Prover(I, e.state.facts)
    co = P.canon(old)
    for f in P.facts:
        if f[0] == 'eq' and len(f) == 3:
            for a, b in ((f[1], f[2]), (f[2], f[1])):
                if a == co and b != co:
                    return True
    # the equality may have been used as the rewrite itself: old finger rewritten *to*
    for k, v in P.rw.items():
        if v == co or k == old:
            return True
    return False


def differs_from_saved(I, e, F):
    for f in e.state.facts:
        if f[0] == 'ne' and len(f) == 3 and (f[1] == F or f[2] == F):
            other = f[2] if f[1] == F else f[1]
            if other[0] == 'load' and other[1][0] == 'fld' and other[1][2].endswith('.current_chunk_footer'):
                return True
    return False


def check_footer_agg(ctx, entry, I, res, e, fn, o, where):
    A, aggv = arena.footer_agg(e)
    site = 'write#%d(ChunkFooter{..})' % o
    P = arena.mk_prover(I, e, res)
    data = field_of(aggv, 'data')
    lay = field_of(aggv, 'layout')
    ptr = field_of(aggv, 'ptr')
    checks = {}
    g = data
    is_g = g is not None and g[0] == 'app' and g[1] == 'galloc'
    checks['footer.data is the pointer returned by the global allocator'] = is_g
    n = None
    if is_g:
        d, c = lin(P.norm(A))
        if d.get(g) == 1:
            rest = dict(d)
            del rest[g]
            n = from_lin(rest, c)
        checks['footer is placed at data + n inside the obtained block'] = n is not None
        checks['footer.layout is the layout the block was requested with'] = (lay == g[2])
        checks['allocator result was checked non-null before use'] = any(f[0] == 'ne' and g in f for f in e.state.facts)
    if n is not None and lay is not None:
        checks['J3 layout.size == n + FOOTER_SIZE (footer fits exactly at the end of the block)'] = P.eq(app('size', lay), app('add', n, I.size_of('ChunkFooter')))
        checks['J1 aligned(footer, CHUNK_ALIGN)'] = P.aligned(A, C(16))
        checks['J2 aligned(finger, MIN_ALIGN)'] = P.aligned(ptr, arena.MIN)
        checks['J2 data <= finger'] = P.le(g, ptr)
        checks['J2 finger <= footer'] = P.le(ptr, A)
        checks['initial finger is the EMPTY position (footer rounded down to MIN_ALIGN)'] = (ptr == A or (ptr[0] == 'app' and ptr[1] == 'round_down' and ptr[2] == A)) or P.eq(ptr, A)
        req = request_layout(I, e)
        if req is not None:
            need = app('round_up', app('size', req), app('max', app('align', req), arena.MIN))
            checks['O5 the chunk can hold the request that caused it: round_up(size(req), max(align(req), MIN_ALIGN)) <= n'] = P.le(need, n)
            checks['chunk is aligned for the request: align(req) divides the block alignment'] = P.aligned(g, app('align', req))
        else:
            checks['request layout of the acquiring entry point found'] = False
    for nme, okv in checks.items():
        if okv:
            ctx.ok('O5', '%s %s via %s: %s' % (fn, site, entry, nme), 'term identity / lemma library')
        else:
            ctx.violation('O5', fn, site + ':' + nme.split(' (')[0][:70], 'cannot establish "%s" for the new chunk footer written at %s [%s]' % (nme, show(A)[:120], where), e.span)


def request_layout(I, e):
    """the Layout the outermost public entry was asked for (param 2 of try_alloc_layout-like entries,
    or the layout built from `capacity` in the constructor)"""
    fid = e.stack
    # innermost frame with a Layout parameter, then outwards for as long as the callers pass the
    # very same Layout term on (new_chunk <- slow path closures <- slow path <- try_alloc_layout)
    found = None
    for depth in range(len(fid), 0, -1):
        sub = fid[:depth]
        body = I.bodies.get(sub[-1][0])
        if body is None or body['kind'] == 'closure':
            continue
        ins = (body.get('meta') or {}).get('inputs') or []
        vals = [e.state.env.get((sub, i + 1)) for i, t in enumerate(ins) if t.endswith('Layout')]
        vals = [v for v in vals if v is not None]
        if found is None:
            if vals:
                found = vals[-1] if len(vals) == 1 else vals[0]
            continue
        if found in vals:
            continue
        break
    if found is not None:
        return found
    # constructor: the frame calling the acquirer passes the layout as an argument
    for ev in I.res.events:
        if ev.kind == 'call' and ev.stack == fid[:-1] and ev.callee == fid[-1][0]:
            for a in ev.args:
                if a[0] == 'layout' or (a[0] == 'app' and a[1] in ('payload',)):
                    return a
    return None


def check_ccf_stores(ctx, entry, I, res, rule='R7'):
    """every store to Bump.current_chunk_footer stores a footer created by the acquirer in this
    very call (or the EMPTY sentinel)"""
    aggs = [arena.footer_agg(e)[0] for e in res.events if e.kind == 'store' and arena.footer_agg(e)]
    for e in res.events:
        if e.kind != 'store':
            continue
        bf = arena.bump_field(e)
        if not bf or bf[1] != 'current_chunk_footer':
            continue
        fn = arena.short(arena.innermost(e))
        # every value that can be stored (each alternative of a merged value), not just one of them
        alts = []
        for t, fs in arena.alternatives(I, e.val, set(e.state.facts)):
            # the Some payload of "one generic iteration of the candidate search": each Some alternative inside
            inner = t[2][2] if (t[0] == 'app' and t[1] in ('payload', 'vproj') and isinstance(t[2], tuple) and t[2][:2] == ('app', 'iter_any')) else None
            if inner is not None:
                def somes(x, depth=0):
                    if depth > 8:
                        return [x]
                    if x[0] == 'phi':
                        return [y for _, v in x[2] for y in somes(v, depth + 1)]
                    if x[0] == 'agg' and x[2] == 'Some':
                        return [field_of(x, '0')]
                    if x[0] == 'agg' and x[2] == 'None':
                        return []
                    return [x]
                alts.extend(somes(inner))
            else:
                alts.append(t)
        fresh = lambda t: any(a in subterms(t) for a in aggs)
        sentinel = lambda t: t[0] == 'addr' and prover.root_static(t[1]) == 'EMPTY_CHUNK'
        # the sentinel may be installed only by a function that holds the arena exclusively and has given the chunks back
        # (none does today); a shared-borrow allocation path that falls back to the sentinel orphans the whole chunk list
        okv = bool(alts) and all(fresh(t) or (sentinel(t) and creator_or_exclusive(I, e)) for t in alts)
        if okv:
            ctx.ok(rule, '%s store(current_chunk_footer) via %s' % (fn, entry), 'stored value contains the address of the footer written by the acquirer in the same call')
        else:
            ctx.violation(rule, fn, 'store(Bump.current_chunk_footer)', 'current_chunk_footer is set to %s, which is not a footer created in this call' % show(e.val)[:160], e.span)
        # ... and the new head is linked in front of the old one: through a shared borrow the list only grows at its head. A fresh
        # chunk whose `prev` is anything but the head it replaces (the sentinel for "this chunk was unused anyway", an older
        # chunk) cuts chunks the arena still holds out of the list: never counted, never iterated, never freed
        def constructs_the_arena(I, e):
            # the function that owns the store has no arena parameter at all: it is building the Bump it will return
            body = I.bodies.get(arena.owner_fn(I, e))
            ins = (body or {}).get('meta', {}).get('inputs') or []
            return not any('Bump<' in x or x.endswith('Bump') for x in ins)
        if okv and not creator_or_exclusive(I, e) and not constructs_the_arena(I, e):
            ei = res.events.index(e)
            fa = [arena.footer_agg(x) for x in res.events[:ei] if x.kind == 'store' and arena.footer_agg(x)]
            for addr, agg in fa:
                if not any(addr in subterms(t) for t in alts):
                    continue
                prev = field_of(agg, 'prev')
                pv = prev
                # Cell::new(x) / the cell's content
                while isinstance(pv, tuple) and pv and pv[0] == 'agg' and len(pv) > 3 and len(pv[3]) == 1:
                    pv = pv[3][0][1]
                lv = e.lv
                links_old_head = any(isinstance(t, tuple) and t and t[0] == 'load' and t[1] == lv for t in subterms(pv)) if isinstance(pv, tuple) else False
                if links_old_head and not (pv[0] == 'phi'):
                    ctx.ok(rule, '%s: the chunk installed as head links the head it replaces as prev (via %s)' % (fn, entry), 'prev operand of the footer aggregate is the load of current_chunk_footer')
                elif links_old_head and pv[0] == 'phi' and all(isinstance(x, tuple) and x and x[0] == 'load' and x[1] == lv for _, x in pv[2]):
                    ctx.ok(rule, '%s: the chunk installed as head links the head it replaces as prev (via %s)' % (fn, entry), 'every alternative of prev is the load of current_chunk_footer')
                else:
                    ctx.violation(rule, fn, 'head-not-linked-to-old-head', 'the chunk installed as current_chunk_footer has prev = %s, not (on every path) the head it replaces: chunks behind the old head would be cut out of the list while the arena still holds them' % show(prev)[:140], e.span)


def check_fast_path_failure_atomicity(ctx, A):
    """R4: in the function that bumps the finger, a path that returns None has stored nothing"""
    val = A.get('try_alloc_layout')
    if not val:
        return
    I, res, body = val
    fast_ids = {arena.innermost(e) for e in res.events if e.kind == 'store' and arena.footer_field(e) and arena.footer_field(e)[1] == 'ptr'}
    n = 0
    for fid in fast_ids:
        b = I.bodies.get(fid)
        if b is None:
            continue
        J = arena.ArenaInterp(ctx.db())
        r = J.run_entry(b['id'])
        g = J.cfg(b)
        fail_blocks = set()
        for bi in g.reachable:
            blk = b['blocks'][bi]
            for s in blk['stmts']:
                if s['k'] == 'assign' and s['place']['l'] == 0 and not s['place']['proj'] and s['rv']['k'] == 'agg' and s['rv'].get('variant', '').split('#')[0] in ('None', 'Err'):
                    fail_blocks.add(bi)
            t = blk['term']
            if t['k'] == 'call' and t['dest']['l'] == 0 and (t['callee'].get('path') or '').endswith('FromResidual::from_residual'):
                fail_blocks.add(bi)
        for e in r.events:
            if e.kind == 'store' and len(e.stack) == 1 and arena.footer_field(e):
                reach = g.reach([e.block])
                n += 1
                bad = sorted(reach & fail_blocks)
                if bad:
                    ctx.violation('R4', arena.short(fid), 'store-then-fail', 'a path stores to the footer and then reaches a block that returns None/Err (bb%s)' % bad, e.span)
                else:
                    ctx.ok('R4', '%s: store at %s' % (arena.short(fid), loc(e.span)), 'no block assigning a failure value to the return place is reachable from the store (%d failure blocks)' % len(fail_blocks))
        if not fail_blocks:
            ctx.violation('R4', arena.short(fid), 'no-failure-path', 'the bumping function has no failure return at all')
    ctx.floor('R4', n, 1, 'store/return pairs in the bumping function')


def failure_value(v):
    if v[0] == 'agg' and v[2] in ('None', 'Err'):
        return True
    if v[0] == 'phi':
        return any(failure_value(x) for _, x in v[2])
    return False


GLOBAL_ALLOC = {'alloc::alloc::alloc': 'alloc', 'alloc::alloc::dealloc': 'dealloc', 'alloc::alloc::realloc': 'realloc', 'alloc::alloc::alloc_zeroed': 'alloc_zeroed',
                'std::alloc::System::alloc': 'alloc'}


def lift_exclusive(db, body_id, depth=0):
    """a private function all of whose call sites sit in one other private function is a piece of that function
    (extract-method refactoring): the role it plays (acquirer, releaser) is its caller's"""
    b = db.bodies.get(body_id)
    if b is None or depth > 3:
        return body_id
    if b['kind'] == 'closure':
        # a closure is a piece of the function it is written in
        pb = db.by_path.get(b['meta'].get('parent_fn')) if b['meta'].get('parent_fn') else None
        return lift_exclusive(db, pb['id'], depth + 1) if pb is not None else body_id
    m = b['meta']
    if m.get('pub') or m.get('impl_trait'):
        return body_id
    path = m.get('path') or body_id
    sites = {cb['id'] for cb, bi, t in db.callers_of(path)} | {cb['id'] for cb, bi, t in db.callers_of(body_id)}
    sites.discard(body_id)
    if len(sites) != 1:
        return body_id
    g = db.bodies.get(next(iter(sites)))
    if g is None or g['kind'] == 'closure' or g['meta'].get('pub') or g['meta'].get('impl_trait'):
        return body_id
    return lift_exclusive(db, g['id'], depth + 1)


def global_alloc_callers_raw(db):
    """kind -> [(body id that contains the call, span)] without lifting"""
    out = {}
    for b in db.fn_bodies():
        for bi, t in db.calls(b):
            p = t['callee'].get('path')
            if p in GLOBAL_ALLOC:
                out.setdefault(GLOBAL_ALLOC[p], []).append((b['id'], t.get('span')))
    return out


def exclusive_chain(db, body_id):
    """[body_id, its only caller, ...] up to the function lift_exclusive() stops at"""
    chain = [body_id]
    top = lift_exclusive(db, body_id)
    cur = body_id
    while cur != top and len(chain) < 5:
        b = db.bodies[cur]
        path = b['meta'].get('path') or cur
        sites = {cb['id'] for cb, bi, t in db.callers_of(path)} | {cb['id'] for cb, bi, t in db.callers_of(cur)}
        sites.discard(cur)
        if len(sites) != 1:
            break
        cur = next(iter(sites))
        chain.append(cur)
    return chain


def global_alloc_callers(db):
    out = {}
    for b in db.fn_bodies():
        for bi, t in db.calls(b):
            p = t['callee'].get('path')
            if p in GLOBAL_ALLOC:
                out.setdefault(GLOBAL_ALLOC[p], []).append((lift_exclusive(db, b['id']), t.get('span')))
    return out


def check_who_may_call(ctx, config='rel-all', rule='R6'):
    db = ctx.db(config)
    callers = global_alloc_callers(db)
    for kind in ('realloc', 'alloc_zeroed'):
        for fn, sp in callers.get(kind, []):
            ctx.violation(rule, arena.short(fn), 'call(global %s)' % kind, 'the global allocator\'s %s is called; chunks must only be obtained by alloc and returned by dealloc with the recorded layout' % kind, sp)
    for kind in ('alloc', 'dealloc'):
        fns = sorted({fn for fn, _ in callers.get(kind, [])})
        if len(fns) > 1:
            for fn, sp in callers[kind]:
                ctx.violation(rule, arena.short(fn), 'call(global %s)' % kind, 'global %s is called from %d functions (%s); exactly one acquirer / one releaser is expected' % (kind, len(fns), ', '.join(map(arena.short, fns))), sp)
        elif len(fns) == 1:
            ctx.ok(rule, 'global %s called only from %s' % (kind, arena.short(fns[0])), 'who-may-call inventory over %d bodies' % len(db.fn_bodies()))
        ctx.floor(rule + '.' + kind, len(fns), 1, 'functions calling the global %s' % kind)


