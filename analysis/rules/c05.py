"""C05 — borrow rules make misuse a compile error (the oracle is rustc itself)."""
import re
from .. import witness, arena
from ..facts import loc

EXPLANATION = ("(W1) compile-verdict witnesses: the crate is built from the current tree and a generated matrix of client programs (public lifetime-carrying value kinds x misuse "
               "kinds: outlives the arena, used after reset, arena moved away, used across chunk iteration, shared/sent across threads, Send/Sync bounds) is type-checked with rustc; "
               "each misuse must be rejected with the expected error code and its twin (same statements, legal order) must compile, positive patterns must compile; (R2) signature "
               "rule over every reachable public function from rustc's fn_sig: every region in the return type occurs in a parameter type (no caller-chosen lifetimes), arena "
               "allocation methods tie the result to the &self borrow, reset / iter_allocated_chunks take &mut self; (R3) Send/Sync audit: inventory of unsafe auto-trait impls and, for "
               "every public ADT that rustc accepts as Send or Sync (asked through witnesses), a call-graph proof that none of its self-taking entry points (incl. Drop) reaches an "
               "arena entry point (Bump::alloc*/dealloc/shrink/grow, Alloc::*, RawVec::reserve*/shrink_to_fit).")
RULE = "rule instance = probe program (misuse or twin or positive) / public signature / Send-or-Sync type; distinct by name"

REG = re.compile(r"'(\^\d+\.Named\(DefId\((\d+:\d+)|\^\d+\.Anon\(?\d*|\w+/#\d+|static|\{erased\})")


from .. import facts


def regions(s):
    out = set()
    for m in REG.finditer(s):
        tok = m.group(0)
        if tok.startswith("'^") and m.group(2):
            out.add('late:' + m.group(2))
        elif tok in ("'static", "'{erased}"):
            continue
        else:
            out.add(tok)
    return out


def split_sig(sig):
    i = sig.find('fn(')
    if i < 0:
        return None
    depth = 0
    j = i + 2
    while j < len(sig):
        c = sig[j]
        if c == '(':
            depth += 1
        elif c == ')':
            depth -= 1
            if depth == 0:
                break
        j += 1
    ins = sig[i + 3:j]
    rest = sig[j + 1:]
    out = ''
    if rest.startswith(' -> '):
        k = rest.rfind(', bound_vars:')
        out = rest[4:k if k >= 0 else len(rest)]
    return ins, out


def first_param(ins):
    depth = 0
    for k, c in enumerate(ins):
        if c in '(<[':
            depth += 1
        elif c in ')>]':
            depth -= 1
        elif c == ',' and depth == 0:
            return ins[:k]
    return ins


def run(ctx, config='rel-all'):
    db = ctx.db(config)
    ctx.assume("rustc's borrow checker and trait solver are the oracle", "probes are compiled against the crate built with features collections,boxed (stable toolchain)")
    tier = ctx.tier
    # ---- W1
    from witnesses import matrix
    libdir = witness.build_rlib(ctx.repo)
    probes = matrix.all_probes(tier)
    jobs = []
    for p in probes:
        jobs.append((p['name'], p['src']))
        if p.get('twin'):
            jobs.append((p['name'] + '#twin', p['twin']))
    res = witness.run_probes(libdir, jobs)
    nneg = npos = 0

    def wrule(p):
        # W2 = the probes about threads (Send / Sync / spawn), W1 = the probes about borrows and lifetimes
        n = p['name']
        return 'W2' if (n.split(':')[0] in ('not-Send', 'is-Send', 'not-Sync', 'is-Sync') or 'thread' in n) else 'W1'
    for p in probes:
        v = res[p['name']]
        W = wrule(p)
        if p['expect'] is None:
            npos += 1
            if v['ok']:
                ctx.ok(W, 'accepted: ' + p['name'], 'rustc accepts')
            else:
                ctx.violation(W, 'probe', 'must-compile:' + p['name'], 'a legitimate client program is rejected: %s %s' % (v['codes'], v['messages'][:1]))
            continue
        nneg += 1
        tw = res.get(p['name'] + '#twin')
        if tw is not None and not tw['ok']:
            ctx.violation(W, 'probe', 'twin-broken:' + p['name'], 'the legal twin of misuse probe %s does not compile (%s %s): the probe cannot witness anything' % (p['name'], tw['codes'], tw['messages'][:1]))
            continue
        if v['ok']:
            ctx.violation(W, 'probe', 'misuse-accepted:' + p['name'], 'misuse program "%s" is accepted by rustc (expected %s)' % (p['name'], '/'.join(p['expect'])))
        elif not (set(v['codes']) & set(p['expect'])):
            ctx.violation(W, 'probe', 'wrong-error:' + p['name'], 'misuse program "%s" is rejected with %s, expected %s (%s)' % (p['name'], v['codes'], p['expect'], v['messages'][:1]))
        else:
            ctx.ok(W, 'rejected %s: %s' % ('/'.join(sorted(set(v['codes']) & set(p['expect']))), p['name']), 'twin compiles' if tw else 'control type compiles')
    ctx.floor('W1.neg', nneg, 40 if tier == 'quick' else 100, 'misuse probes')
    ctx.floor('W1.pos', npos, 12, 'positive probes')
    ctx.extra['probes'] = {'misuse': nneg, 'positive': npos, 'compiled_programs': len(jobs)}
    # ---- R2 signatures
    nsig = 0
    for path, m in sorted(db.fns.items()):
        if not m.get('reachable') or not m.get('sig'):
            continue
        sp = split_sig(m['sig'])
        if not sp:
            continue
        ins, out = sp
        ro, ri = regions(out), regions(ins)
        if not ro:
            continue
        if m.get('unsafe'):
            continue        # an unsafe fn's contract is the caller's burden (Box::from_raw)
        if not ins.strip():
            continue        # a safe fn without parameters has no arena to borrow from: it can only return 'static data (Default for Box<[T]>)
        nsig += 1
        free = ro - ri
        if free:
            ctx.violation('R2', path, 'unconstrained-region', 'public fn %s returns a type with region(s) %s that no parameter mentions: the caller may pick any lifetime (e.g. outlive the arena)' % (path, sorted(free)))
        else:
            ctx.ok('R2', '%s: return regions %s all occur in the parameters' % (path, sorted(ro)), 'fn_sig')
        if m.get('impl_adt') == 'Bump' and not m.get('impl_trait') and first_param(ins).lstrip().startswith('&'):
            fp = regions(first_param(ins))
            if not (ro <= fp):
                ctx.violation('R2', path, 'not-tied-to-self', 'Bump method %s returns region(s) %s not tied to the &self borrow %s' % (path, sorted(ro), sorted(fp)))
    ctx.floor('R2', nsig, 60, 'public functions whose return type mentions a region')
    # ---- R4 a source that is only copied from is not borrowed for the arena lifetime: in no impl of a collection / box type may
    # the arena lifetime of Self be the lifetime of a reference to (or Cow of) non-arena data taken as a trait argument or a
    # parameter -- the result would be typed as borrowing the source it merely copied (correct programs stop compiling)
    nsrc = 0

    def self_lifetimes(selfty):
        return set(re.findall(r"'([A-Za-z_]\w*)", selfty or '')) - {'static'}

    def foreign_borrows(text, lts):
        """references / Cows in `text` whose lifetime is one of lts and whose referent is not an arena or an arena-backed type"""
        out = []
        for m in re.finditer(r"&'([A-Za-z_]\w*)(?:/#\d+)? (?:mut )?([^,)>]+)", text):
            lt, ref = m.group(1), m.group(2).strip()
            head = ref.split('<')[0]
            if lt in lts and not (head == 'Bump' or head.endswith('::Bump') or head in db.adt or head == 'Self'):
                out.append(m.group(0))
        for m in re.finditer(r"Cow<'([A-Za-z_]\w*)(?:/#\d+)?, [^>]*>", text):
            if m.group(1) in lts:
                out.append(m.group(0))
        return out
    for im in db.impls:
        if not im.get('adt') or im['adt'] not in db.adt or im['adt'] == 'Bump' or not im.get('trait_full'):
            continue
        lts = self_lifetimes(im.get('self'))
        if not lts:
            continue
        tf = im['trait_full']
        i = tf.find(' as ')
        targs = tf[i + 4:] if i >= 0 else ''
        nsrc += 1
        bad = foreign_borrows(targs, lts)
        if bad:
            ctx.violation('R4', im['adt'], 'source-borrowed-for-arena-lifetime:%s' % targs.rstrip('>').split('::')[-1][:60], 'impl %s ties the arena lifetime of %s to borrowed source data %s: a collection that only copies from its argument would be typed as borrowing it' % (tf, im['adt'], bad), loc(im.get('span')))
        else:
            ctx.ok('R4', '%s: no trait argument borrows foreign data for the arena lifetime' % tf[:120], 'impl header')
    for path, m in sorted(db.fns.items()):
        if not m.get('reachable') or not m.get('sig') or not m.get('impl_self') or m.get('impl_adt') not in db.adt or m.get('impl_adt') == 'Bump' or m.get('unsafe'):
            continue
        lts = self_lifetimes(m['impl_self'])
        sp = split_sig(m['sig'])
        if not lts or not sp:
            continue
        nsrc += 1
        bad = foreign_borrows(sp[0], lts)
        if bad:
            ctx.violation('R4', path, 'source-borrowed-for-arena-lifetime', 'fn %s takes %s: source data borrowed for the arena lifetime of %s' % (path, bad, m['impl_self']))
    ctx.floor('R4', nsrc, 150, 'impl headers and method signatures of arena-backed types examined for sources borrowed for the arena lifetime')
    for name in ('reset', 'iter_allocated_chunks'):
        b = arena.bump_method(db, name)
        if b is None:
            ctx.anchor_missing('R2', 'Bump::' + name)
            continue
        ins = b['meta'].get('inputs') or []
        if ins and ins[0].startswith('&mut '):
            ctx.ok('R2', 'Bump::%s takes &mut self' % name, ins[0])
        else:
            ctx.violation('R2', 'Bump::' + name, 'receiver', 'Bump::%s must take &mut self (it invalidates or exposes everything allocated)' % name)
    # ---- R3 Send / Sync audit
    auto = [i for i in db.impls if i.get('trait') in ('core::marker::Send', 'core::marker::Sync') and i.get('unsafe')]
    ctx.floor('R3', len(auto), 8, 'unsafe impl Send/Sync')
    pub_adts = [a for a in db.adts if a.get('reachable')]
    tprobes = []
    for a in pub_adts:
        ty = instantiate(a)
        if ty is None:
            continue
        for tr in ('Send', 'Sync'):
            tprobes.append(('%s:%s' % (tr, a['path']), matrix.trait_probe(ty, tr, True)))
    # payload probes: a public generic container instantiated with an element type that is neither Send nor Sync
    # (Rc<u8>) must itself be neither -- otherwise arena handles (Vec<'b, _>, &'b Bump, String<'b>) stored as elements
    # could cross threads inside it (what std guarantees with `T: Send` / `T: Sync` bounds on its unsafe impls)
    pay = []
    # Rc<u8> is neither; MutexGuard is Sync but not Send; Cell is Send but not Sync (a bound copied from the other impl passes the Rc probe)
    PAYLOADS = {'Send': ('std::rc::Rc<u8>', "std::sync::MutexGuard<'static, u8>"), 'Sync': ('std::rc::Rc<u8>', 'std::cell::Cell<u8>')}
    for a in pub_adts:
        if not any(p.startswith('ty:') and p.split(':', 1)[1] not in ('F',) for p in a['params']):
            continue
        for tr in ('Send', 'Sync'):
            for pl in PAYLOADS[tr]:
                ty = instantiate(a, payload=pl)
                if ty is None:
                    continue
                pay.append(('payload-%s[%s]:%s' % (tr, pl.split('::')[-1].split('<')[0], a['path']), matrix.trait_probe(ty, tr, True)))
    tres = witness.run_probes(libdir, tprobes + pay)
    npay = 0
    for name, _ in pay:
        v = tres.get(name)
        if v is None:
            continue
        npay += 1
        trp, path = name[len('payload-'):].split(':', 1)
        tr = trp.split('[')[0]
        if v['ok']:
            ctx.violation('R3', path, 'payload-%s' % trp, '%s with an element type that is not %s (Rc<u8>) is accepted as %s: non-%s elements -- for example vectors, strings or references tied to an arena -- could be moved or shared across threads inside it' % (path, tr, tr, tr))
        elif 'E0277' in v['codes']:
            ctx.ok('R3', '%s<.. %s ..> is not %s' % (path, trp.split('[')[1].rstrip(']'), tr), 'rustc: E0277')
        else:
            ctx.note('payload probe for %s inconclusive: %s' % (path, v['codes']))
    ctx.floor('R3.payload', npay, 28, 'payload auto-trait probes on generic public types')
    arena_entries = arena_entry_set(db)
    cg = call_graph(db)
    for a in pub_adts:
        for tr in ('Send', 'Sync'):
            v = tres.get('%s:%s' % (tr, a['path']))
            if v is None:
                continue
            if a['path'] == 'Bump':
                continue    # the arena itself: Send by design (exclusive ownership of its chunks), !Sync checked by W1 and C20.R3
            if v['ok']:
                # the type is Send/Sync for a Send/Sync payload: it must be arena-free
                offenders = []
                for b in db.fn_bodies():
                    m = b['meta']
                    if b['kind'] != 'assoc_fn' or m.get('impl_adt') != a['path']:
                        continue
                    ins = m.get('inputs') or []
                    selfish = bool(ins) and (a['path'].split('::')[-1] + '<' in ins[0] or ins[0].endswith(a['path'].split('::')[-1]))
                    if not selfish:
                        continue
                    if not (m.get('pub') or m.get('impl_trait')):
                        continue
                    hit = reaches(cg, b['id'], arena_entries)
                    if hit:
                        offenders.append((b['id'], hit))
                    # ... nor hand the arena (or something that allocates in it) to whoever holds the value: an accessor returning
                    # `&Bump` / a `&mut Vec<'bump, _>` from a Send / Sync type lends the arena to the other thread
                    outty = m.get('output') or ''
                    heads = [h for h, _ in facts.owned_types(outty.lstrip('&').replace("'static ", '').split(' ', 1)[-1] if outty.startswith('&') else outty)]
                    exposes = 'Bump' in [h.split('::')[-1] for h in heads] or re.search(r"&(?:'\w+ )?(?:mut )?Bump\b", outty)
                    if exposes and not m.get('unsafe'):
                        offenders.append((b['id'], ['returns ' + outty]))
                # the drop glue of the fields runs wherever a value of the type is dropped, Drop impl or not
                for f in a['fields']:
                    for gid in facts.drop_glue_bodies(db, f['ty']):
                        hit = [gid] if gid in arena_entries else reaches(cg, gid, arena_entries)
                        if hit:
                            offenders.append(('<drop glue of field %s: %s>' % (f['name'], f['ty']), [gid] + [h for h in hit if h != gid]))
                if offenders:
                    for fnid, hit in offenders[:3]:
                        ctx.violation('R3', a['path'], '%s-but-uses-arena:%s' % (tr, fnid.split('::')[-1]), '%s is %s, yet %s reaches the arena through %s: it could allocate from a Bump another thread is using' % (a['path'], tr, fnid, ' -> '.join(hit[-3:])))
                else:
                    ctx.ok('R3', '%s is %s and arena-free' % (a['path'], tr), 'no self-taking entry point reaches an arena entry (call graph over %d bodies)' % len(cg))
            elif any('cannot be sent' in x or 'cannot be shared' in x for x in v['messages']) or 'E0277' in v['codes']:
                ctx.ok('R3', '%s is not %s' % (a['path'], tr), 'rustc: E0277')
            else:
                ctx.note('auto-trait probe for %s inconclusive: %s' % (a['path'], v['codes']))


def instantiate(a, payload=None):
    name = a['path'].split('::')
    path = 'bumpalo::' + a['path']
    args = []
    for p in a['params']:
        k, n = p.split(':', 1)
        if k == 'lt':
            args.append("'static")
        elif k == 'const':
            args.append('1')
        else:
            el = payload or 'u32'
            if n == 'I':
                args.append('std::vec::IntoIter<%s>' % el)
            elif n == 'F':
                args.append('fn(&mut %s) -> bool' % el)
            elif n == 'E':
                args.append(el)
            else:
                args.append(el)
    return path + ('<' + ', '.join(args) + '>' if args else '')


def arena_entry_set(db):
    out = set()
    for b in db.fn_bodies():
        m = b['meta']
        n = m.get('name') or ''
        if m.get('impl_adt') == 'Bump' and (n.startswith('alloc') or n.startswith('try_alloc') or n in ('dealloc', 'shrink', 'grow', 'reset')):
            out.add(b['id'])
        if (m.get('impl_trait') or '').endswith('alloc::Alloc') or (m.get('impl_trait') or '').endswith('alloc::Allocator') or (m.get('in_trait') or '').endswith('alloc::Alloc'):
            out.add(b['id'])
        if (m.get('impl_adt') or '').endswith('raw_vec::RawVec') and (n.startswith('reserve') or n.startswith('try_reserve') or n.startswith('double') or n in ('shrink_to_fit', 'allocate_in', 'with_capacity_in', 'with_capacity_zeroed_in', 'dealloc_buffer', 'fallible_reserve_internal', 'infallible_reserve_internal')):
            out.add(b['id'])
    return out


def call_graph(db):
    g = {}
    for b in db.fn_bodies():
        outs = set()
        for bi, t in db.calls(b):
            p = db.callee_path(t)
            tb = db.by_path.get(p) if p else None
            if tb is not None:
                outs.add(tb['id'])
            # trait-dispatched calls on the private Alloc trait with an unknown Self are arena calls
            tp = t['callee'].get('path') or ''
            if tp.startswith('alloc::Alloc::'):
                outs.add('<arena via Alloc trait>')
            # drop_in_place::<X>(..) runs the drop glue of X
            if p and p.endswith('ptr::drop_in_place'):
                for ga in (t['callee'].get('gargs') or []):
                    outs.update(facts.drop_glue_bodies(db, str(ga)))
        # a Drop terminator runs the drop glue of the dropped type: its own Drop impl and those of the values it owns
        # (also on cleanup paths - a destructor that runs while unwinding runs on the same thread)
        for bl in b['blocks']:
            t = bl['term']
            if t['k'] == 'drop' and t.get('needs_drop', True):
                outs.update(facts.drop_glue_bodies(db, t.get('ty') or ''))
        g[b['id']] = outs
    # closures are reachable from the function that creates them
    for b in db.fn_bodies():
        if b['kind'] == 'closure':
            pf = b['meta'].get('parent_fn')
            for pb in db.fn_bodies():
                if pb['meta'].get('path') == pf and pb['kind'] != 'closure':
                    g.setdefault(pb['id'], set()).add(b['id'])
    return g


def reaches(g, start, targets):
    seen = {start: None}
    w = [start]
    while w:
        x = w.pop()
        for y in g.get(x, ()):
            if y in seen:
                continue
            seen[y] = x
            if y in targets or y == '<arena via Alloc trait>':
                path = [y]
                while x is not None:
                    path.append(x)
                    x = seen[x]
                return list(reversed(path))
            w.append(y)
    return None
