"""C19 — impossible sizes are refused, never wrapped (integer-overflow discipline on size computations)."""
import re
from .. import arena, prover
from ..terms import *
from ..facts import loc

EXPLANATION = ("Every function of the crate is analysed standalone by TermFlow; at each size sink in its own frame (Layout::from_size_align_unchecked, the layout handed to an arena "
               "allocation, set_len / stores to len or cap fields, from_raw_parts lengths, copy counts, reserve amounts) the symbolic term of the size is decomposed and every "
               "unchecked add / mul / shl node in it must be justified: (a) by a no-overflow fact on that very path (Some edge of checked_add/checked_mul, Ok edge of "
               "Layout::array / from_size_align, an existing slice's len * size_of), (b) as `len + n` after a reserve(n) on the same container, or (c) by an entry of the "
               "justified table carrying its invariant. (R2) every allocation in a public size-taking method uses a layout that is a Layout parameter, a type's layout, the layout "
               "of an existing value, or the Ok payload of a validating constructor. (R3) postcondition of RawVec's reserve family: every successful return entails "
               "used + extra <= capacity (given used <= capacity), with wrapping arithmetic kept distinct from checked arithmetic."
               ' (R1 also) round_up idioms built from an unchecked addition, calls of the layout helper and allocation calls inside RawVec are sinks; (R5) justified from_size_align_unchecked sites; (R6) RawVec stores cap / ptr only after the last point that can fail.')
RULE = "rule instance = (function, sink, arithmetic node) / (function, allocation) / (reserve function, return); distinct by (function, sink, normalised node)"

NORM = re.compile(r'(@\d+|#\d+|\?\d+:|loop\d+:|_\d+@\d+|_\d+)')


def norm_show(t):
    return NORM.sub('', show(t))[:110]


# (function suffix, normalised node) -> invariant that makes the unchecked operation safe
JUSTIFIED = {
    ("RawVec::<'a, T>::current_layout", '(sizeof(T) * load[*(arg1).cap])'): 'RawVec invariant: cap * size_of::<T>() is the size of the live allocation (<= isize::MAX)',
    ("RawVec::<'a, T>::double", '(load[*(arg1).cap] * 2)'): 'cap * size <= isize::MAX, so 2 * cap cannot overflow usize; the byte size is then checked by alloc_guard',
    ("RawVec::<'a, T>::double", '((load[*(arg1).cap] * 2) * sizeof(T))'): 'cap * size <= isize::MAX, so 2 * cap * size <= usize::MAX; alloc_guard refuses > isize::MAX',
    ("RawVec::<'a, T>::double_in_place", '(load[*(arg1).cap] * 2)'): 'as in double',
    ("RawVec::<'a, T>::double_in_place", '((load[*(arg1).cap] * 2) * sizeof(T))'): 'as in double',
    ("RawVec::<'a, T>::reserve_in_place", '(load[*(arg1).cap] * 2)'): 'operand of max() in amortized_new_size; the result went through Layout::array',
    ("RawVec::<'a, T>::reserve_internal", '(load[*(arg1).cap] * 2)'): 'operand of max() in amortized_new_size; the result went through Layout::array before cap is stored',
    ("RawVec::<'a, T>::amortized_new_size", '(load[*(arg1).cap] * 2)'): 'cap * size <= isize::MAX so 2 * cap <= usize::MAX (for ZSTs cap is usize::MAX and reserve returns early)',
    ("RawVec::<'a, T>::shrink_to_fit", '(sizeof(T) * load[*(arg1).cap])'): 'size of the live allocation',
    ("RawVec::<'a, T>::shrink_to_fit", '(sizeof(T) * arg2)'): 'amount <= cap is asserted first, so amount * size <= cap * size',
    ("Vec::<'bump, T>::extend_from_slice_copy_unchecked", '(len(arg2) + load[*(arg1).len])'): "unsafe fn contract: the caller reserved other.len() additional slots",
    ("String::<'bump>::remove", '(len_utf8(vproj(next(&), Some, 0)) + arg2)'): 'idx is a char boundary < len and ch is the char starting there, so idx + ch.len_utf8() <= len',
    ("Drain::<'a, 'bump, T>::fill", '(load[*(load[*(arg1).vec]).len] + 1)'): 'the slot written lies before tail_start (range_slice bounds the loop), so len + 1 <= tail_start <= cap',
    ("Drain::<'a, 'bump, T>::fill", '(load[*().len] + 1)'): 'the slot written lies before tail_start (range_slice bounds the loop), so len + 1 <= tail_start <= cap',
    ("Vec::<'bump, T>::insert", '(load[*(arg1).len] + 1)'): 'len < cap after the `len == cap => reserve(1)` branch',
    ("Vec::<'bump, T>::push", '(load[*(arg1).len] + 1)'): 'len < cap after the `len == cap => reserve(1)` branch',
    ("Drain<'a, 'bump, T> as std::ops::Drop>::drop", '(load[*(load[*(arg1).vec]).len] + load[*(arg1).tail_len])'): 'start + tail_len <= original len',
    ('Bump::<MIN_ALIGN>::new_chunk_memory_details', None): 'chunk sizing: sizes are bounded by the Layout invariant (<= isize::MAX) and by 2 * current chunk size via checked_mul; + OVERHEAD (64) cannot wrap',
    ('Bump::<MIN_ALIGN>::alloc_layout_slow', None): 'as new_chunk_memory_details (its arithmetic inlined through the candidate closure)',
    ('<std::alloc::Layout as alloc::UnstableLayoutMethods>::repeat', 'wadd(size(arg1), align(arg1))'): 'std fork: padded size, bounded by the Layout invariant; the total goes through checked_mul',
    ("Vec::<'bump, T>::append_elements", None): None,
}


def unjustified(I, term, facts, depth=0, out=None):
    """unchecked arithmetic nodes of `term` that no fact on the path justifies"""
    out = out if out is not None else []
    if not isinstance(term, tuple) or depth > 30 or not term:
        return out
    k = term[0]
    if k == 'phi':
        pf = I.phi_facts.get(term[1][:2], {})
        for p, x in term[2]:
            unjustified(I, x, facts | set(pf.get(p, ())), depth + 1, out)
        return out
    if k == 'ite':
        unjustified(I, term[2], facts | I.truth(None, term[1], True), depth + 1, out)
        unjustified(I, term[3], facts | I.truth(None, term[1], False), depth + 1, out)
        return out
    if k == 'call' and (term[1].endswith('Iterator::sum') or term[1].endswith('Iterator::product') or term[1].endswith('Sum::sum')):
        out.append(('app', 'unchecked_' + term[1].split('::')[-1], C(0), C(0)))     # wraps in release builds
        return out
    if k in ('load', 'addr', 'call', 'opaque'):
        return out
    if k == 'app' and term[1] == 'round_up' and len(term) == 4:
        # (n + (d - 1)) & !(d - 1): the addition inside the idiom can wrap unless it was a checked_add / the operand is bounded
        n_, d_ = term[2], term[3]
        okr = any(f[0] == 'nooverflow' and f[1] == 'add' and n_ in f[2:] for f in facts) \
            or any(f[0] == 'is' and f[2] in ('Some', 'Ok', 'Continue') and any(isinstance(t, tuple) and t and t[0] == 'app' and t[1] == 'checked_add' and n_ in t[2:] for t in subterms(f[1])) for f in facts) \
            or (n_[0] == 'app' and n_[1] in ('size', 'len')) or is_c(n_)
        if not okr:
            out.append(term)
    if k == 'app' and term[1] in ('add', 'mul', 'shl', 'pow', 'wadd'):
        a = term[2]
        b = term[3] if len(term) > 3 else None
        ok = term[1] != 'wadd' and any(f[0] == 'nooverflow' and f[1] == term[1] and {f[2], f[3]} == {a, b} for f in facts)
        if not ok and term[1] == 'mul':
            # n * size_of::<T>() under the Ok fact of Layout::array::<T>(n)
            for f in facts:
                if f[0] == 'is' and f[2] in ('Ok', 'Continue') and any(isinstance(t, tuple) and t and t[0] == 'app' and t[1] == 'layout_array' and t[2] in (a, b) for t in subterms(f[1])):
                    ok = True
        if not ok and term[1] in ('add', 'mul') and is_c(a) and is_c(b):
            ok = True
        if not ok and term[1] == 'add' and b is not None:
            # x + (y - z) with x <= z is at most y: it cannot wrap (whether y - z wraps is that node's own question)
            for x_, d_ in ((a, b), (b, a)):
                if isinstance(d_, tuple) and d_ and d_[0] == 'app' and d_[1] in ('sub', 'wsub') and len(d_) == 4:
                    try:
                        if lin(app('sub', d_[3], x_))[0] == {} and lin(app('sub', d_[3], x_))[1] >= 0:
                            ok = True
                        else:
                            dd, cc = lin(app('sub', d_[3], x_))
                            # z - x is a sum of non-negative terms (lengths, widths) with non-negative coefficients
                            if cc >= 0 and all(v > 0 for v in dd.values()):
                                ok = True
                    except Exception:
                        pass
        if not ok:
            out.append(term)
    for x in term[1:]:
        if isinstance(x, tuple):
            unjustified(I, x, facts, depth + 1, out)
    return out


def sinks(I, r, frame=None):
    for e in r.events:
        if frame is None and len(e.stack) != 1:
            continue
        if frame is not None and e.stack[-1][0] != frame:
            continue
        if e.kind == 'layout_unchecked':
            yield e, 'Layout::from_size_align_unchecked(size)', e.args[0]
        elif e.kind == 'slice':
            yield e, 'from_raw_parts(len)', e.args[1]
        elif e.kind == 'copy' and len(e.args) > 2:
            yield e, 'copy(count)', e.args[2]
        elif e.kind in ('store', 'lstore') and e.lv[0] == 'fld' and e.lv[2].split('.')[-1] in ('len', 'cap'):
            yield e, 'store(%s)' % e.lv[2].split('.')[-1], e.val
        elif e.kind == 'call' and e.callee:
            if e.callee.endswith('::set_len') and len(e.args) > 1:
                yield e, 'set_len', e.args[1]
            elif (e.callee.endswith('::reserve') or e.callee.endswith('::reserve_exact') or e.callee.endswith('::try_reserve') or e.callee.endswith('::try_reserve_exact')) and e.args:
                yield e, 'reserve(additional)', e.args[-1]
            elif (e.callee.endswith('Layout::from_size_align') or e.callee.split('::')[-1] == 'layout_from_size_align') and e.args:
                # the validating constructor sees only the product: a wrapped product is a valid (small) size
                yield e, 'Layout::from_size_align(size)', e.args[0]
            elif e.callee.endswith('alloc_layout') or e.callee.endswith('alloc_layout_fast') or e.callee.endswith('Alloc::alloc') or e.callee.endswith('Alloc::realloc') or e.callee == 'alloc::alloc::alloc' \
                    or (e.extra.get('trait_path') or '') in ('alloc::Alloc::alloc', 'alloc::Alloc::realloc', 'alloc::Alloc::alloc_zeroed'):
                if len(e.args) > 1:
                    yield e, 'allocation(layout/size)', e.args[-1] if not e.callee.endswith('realloc') else e.args[-1]
                elif e.args:
                    yield e, 'allocation(layout)', e.args[0]


def reserved_before(r, e, node):
    """`len + n` after reserve(n) on the same container in the same function"""
    idx = r.events.index(e)
    ops = set(node[2:])
    for p in r.events[:idx]:
        if p.kind == 'call' and len(p.stack) == 1 and p.callee and ('reserve' in p.callee.split('::')[-1]) and p.args:
            if p.args[-1] in ops or any(p.args[-1] == o for o in ops):
                return True
    return False


def in_owner_context(ctx, db, config, owner_id, helper_id, what):
    """every unchecked node reaching sink `what` inside the inlined helper is justified by the owner's path facts, a preceding
    reserve in the owner, or a table entry of the owner"""
    ob = db.bodies.get(owner_id)
    if ob is None:
        return False
    try:
        I, r = arena.run_fn(ctx, owner_id, config)
    except RecursionError:
        return False
    found = False
    for e, w, term in sinks(I, r, frame=helper_id):
        if w != what or term is None:
            continue
        found = True
        for n in unjustified(I, term, set(e.state.facts)):
            ns = norm_show(n)
            if n[1] in ('add',) and reserved_before(r, e, n):
                continue
            okt = False
            for (suffix, shape), reason in JUSTIFIED.items():
                if owner_id.replace('std::', 'core::').endswith(suffix.replace('std::', 'core::')) and (shape is None or shape == ns) and reason:
                    okt = True
            if not okt:
                return False
    return found


def check_size_sinks(ctx, db, config, rule='R1', scope=lambda sp: sp.startswith('src/')):
    """unchecked arithmetic reaching a size sink (shared with C13.R7 for vec.rs / raw_vec.rs)"""
    nsinks = nnodes = 0
    used_table = set()
    for b in db.fn_bodies():
        sp = b.get('span') or ''
        if b['kind'] == 'closure' or not scope(sp):
            continue
        try:
            I, r = arena.run_fn(ctx, b['id'], config)
        except RecursionError:
            continue
        fn = arena.short(b['id'])
        seen = set()
        for e, what, term in sinks(I, r):
            if term is None:
                continue
            nsinks += 1
            bad = unjustified(I, term, set(e.state.facts))
            for n in bad:
                ns = norm_show(n)
                if (what, ns) in seen:
                    continue
                seen.add((what, ns))
                nnodes += 1
                if n[1] in ('add',) and reserved_before(r, e, n):
                    ctx.ok(rule, '%s %s: %s' % (fn, what, ns), 'len + n after reserve(n) on the same container')
                    continue
                just = None
                for (suffix, shape), reason in JUSTIFIED.items():
                    if b['id'].replace('std::', 'core::').endswith(suffix.replace('std::', 'core::')) and (shape is None or shape == ns) and reason:
                        just = reason
                        used_table.add((suffix, shape))
                if not just:
                    # code extracted from one function: judge the operation in that function's context (inlined, with its facts and table entries)
                    owner = arena.exclusive_owner(db, b)
                    if owner is not None and in_owner_context(ctx, db, config, owner, b['id'], what):
                        just = 'justified in the context of its only caller %s' % arena.short(owner)
                if just:
                    ctx.ok(rule, '%s %s: %s' % (fn, what, ns), 'tabled invariant: ' + just)
                else:
                    ctx.violation(rule, fn, '%s:%s' % (what, ns), 'the size reaching %s in %s contains the unchecked operation %s: no checked_* / Layout::array success on this path, no preceding reserve, and no tabled invariant covers it — an overflowing request would wrap instead of being refused' % (what, fn, ns), e.span)
    return nsinks, nnodes, used_table


# unchecked Layout construction sites: (function suffix) -> why (size, align) is a valid Layout there
UNCHECKED_LAYOUT_OK = {
    "RawVec::<'a, T>::current_layout": 'RawVec invariant: cap * size_of::<T>() with align_of::<T>() is the layout of the live allocation',
    "RawVec::<'a, T>::double": 'error-reporting path: new_size = 2 * cap * size passed alloc_guard (<= isize::MAX) and elem sizes are multiples of their alignment',
    "RawVec::<'a, T>::shrink_to_fit": 'live allocation / amount <= cap asserted first: amount * size <= cap * size, a multiple of align_of::<T>()',
    'Layout as alloc::UnstableLayoutMethods>::repeat': 'std fork: padded_size * n went through checked_mul; padded size is a multiple of align',
    'alloc::Alloc::realloc': "unsafe fn contract of the Alloc trait: the caller guarantees new_size is valid for layout.align()",
    'alloc::Alloc::realloc_excess': "unsafe fn contract of the Alloc trait: the caller guarantees new_size is valid for layout.align()",
}


def check_unchecked_layouts(ctx, db, config, rule='R5', scope=lambda sp: sp.startswith('src/')):
    """Layout::from_size_align_unchecked skips the validity check (size rounded up to align <= isize::MAX, align a power of
    two): every site must rebuild an existing Layout, sit under the Ok fact of the validating constructor for the same
    operands, or be a tabled instance with its invariant.  (An invalid Layout aborts debug builds and is UB in release.)"""
    n = 0
    for b in db.fn_bodies():
        sp = b.get('span') or ''
        if b['kind'] == 'closure' or not scope(sp):
            continue
        if not any((db.callee_path(t) or '').endswith('from_size_align_unchecked') for bi, t in db.calls(b)):
            continue
        I, r = arena.run_fn(ctx, b['id'], config)
        fn = arena.short(b['id'])
        for e in r.events:
            if len(e.stack) != 1 or e.kind != 'layout_unchecked' or len(e.args) < 2:
                continue
            n += 1
            size, align = e.args[0], e.args[1]
            why = None
            if size[0] == 'app' and size[1] == 'size' and align == ('app', 'align', size[2]):
                why = 'rebuilds the existing Layout %s' % show(size[2])[:40]
            if why is None:
                for f in e.state.facts:
                    if f[0] == 'is' and f[2] in ('Ok', 'Continue') and any(isinstance(t, tuple) and t and t[0] == 'app' and t[1] == 'layout_result' and t[2] == size and t[3] == align for t in subterms(f[1])):
                        why = 'under the Ok fact of Layout::from_size_align for the same operands'
            if why is None:
                for suf, reason in UNCHECKED_LAYOUT_OK.items():
                    if b['id'].replace('std::', 'core::').endswith(suf.replace('std::', 'core::')) or fn.endswith(suf):
                        why = 'tabled: ' + reason
            if why:
                ctx.ok(rule, '%s: from_size_align_unchecked(%s, %s)' % (fn, norm_show(size)[:50], norm_show(align)[:30]), why)
            else:
                ctx.violation(rule, fn, 'unchecked-layout:%s' % norm_show(size)[:60], '%s builds a Layout with from_size_align_unchecked(%s, %s) but nothing on the path shows that the size rounded up to the alignment stays <= isize::MAX: an impossible size is accepted (debug builds abort on the precondition check, release builds hand an invalid Layout to the allocator)' % (fn, show(size)[:60], show(align)[:40]), e.span)
    return n


def check_rawvec_failure_atomicity(ctx, db, config, rule='R6'):
    """a refused size leaves the vector as it was: in every fallible RawVec function no store to cap / ptr may be followed by
    an Err return (a capacity recorded before the allocation is known to have succeeded claims memory that was refused)"""
    n = 0
    for b in db.fn_bodies():
        m = b['meta']
        if b['kind'] != 'assoc_fn' or not (m.get('impl_adt') or '').endswith('raw_vec::RawVec') or 'Result<' not in (m.get('output') or ''):
            continue
        I, r = arena.run_fn(ctx, b['id'], config)
        g = I.cfg(b)
        fail_blocks = set()
        for bi in g.reachable:
            blk = b['blocks'][bi]
            for s in blk['stmts']:
                if s['k'] == 'assign' and s['place']['l'] == 0 and not s['place']['proj'] and s['rv']['k'] == 'agg' and s['rv'].get('variant', '').split('#')[0] in ('Err',):
                    fail_blocks.add(bi)
            t = blk['term']
            if t['k'] == 'call' and t['dest']['l'] == 0 and (t['callee'].get('path') or '').endswith('FromResidual::from_residual'):
                fail_blocks.add(bi)
        sts = [e for e in r.events if len(e.stack) == 1 and e.kind == 'store' and e.lv[0] == 'fld' and e.lv[2].split('.')[-1] in ('cap', 'ptr') and 'RawVec' in e.lv[2]]
        if not sts:
            continue
        n += 1
        fn = arena.short(b['id'])
        bad = [e for e in sts if g.reach([e.block]) & (fail_blocks - {e.block})]
        # a store in the same block as, but before, the failing call also counts
        for e in sts:
            if e.block in fail_blocks:
                bad.append(e)
        if bad:
            e = bad[0]
            ctx.violation(rule, fn, 'store-then-Err:%s' % e.lv[2].split('.')[-1], '%s stores RawVec.%s on a path that can still return Err: after a refused request the vector would report a capacity / pointer it never obtained' % (fn, e.lv[2].split('.')[-1]), e.span)
        else:
            ctx.ok(rule, '%s: cap / ptr are stored only after the last point that can fail' % fn, 'CFG reachability from %d store(s) to %d failure block(s)' % (len(sts), len(fail_blocks)))
    return n


def run(ctx, config='rel-all'):
    db = ctx.db(config)
    ctx.assume("64-bit target only (alloc_guard's 32-bit branch is outside what is decided)", "RawVec invariant: cap * size_of::<T>() <= isize::MAX and len <= cap (established by the reserve family, rule R3)")
    nsinks, nnodes, used_table = check_size_sinks(ctx, db, config)
    for b in db.fn_bodies():
        sp = b.get('span') or ''
        if b['kind'] == 'closure' or not sp.startswith('src/'):
            continue
        m = b['meta']
        if not (m.get('pub') and sp.startswith('src/lib.rs') and m.get('impl_adt') == 'Bump'):
            continue
        try:
            I, r = arena.run_fn(ctx, b['id'], config)
        except RecursionError:
            continue
        fn = arena.short(b['id'])
        # ---- R2 layouts handed to the arena
        m = b['meta']
        if m.get('pub') and sp.startswith('src/lib.rs') and m.get('impl_adt') == 'Bump':
            for e in r.events:
                if e.kind == 'call' and len(e.stack) == 1 and e.callee and (e.callee.endswith('::alloc_layout') or e.callee.endswith('::try_alloc_layout')) and len(e.args) > 1:
                    L = e.args[1]
                    kind = layout_origin(I, L, e.state.facts)
                    if kind:
                        ctx.ok('R2', '%s allocates with %s' % (fn, kind), show(L)[:60])
                    else:
                        ctx.violation('R2', fn, 'layout-origin', '%s allocates with a layout (%s) that is neither a parameter, a type/value layout nor the Ok payload of a validating constructor' % (fn, show(L)[:100]), e.span)
    ctx.floor('R1', nsinks, 100, 'size sinks inspected')
    ctx.floor('R1.nodes', nnodes, 15, 'unchecked arithmetic nodes reaching a sink (table + reserve rule)')
    ctx.extra['table_entries_used'] = len(used_table)
    check_reserve_post(ctx, db, config)
    nu = check_unchecked_layouts(ctx, db, config, 'R5')
    nf = check_rawvec_failure_atomicity(ctx, db, config, 'R6')
    ctx.floor('R6', nf, 1, 'fallible RawVec functions checked for failure atomicity')
    # ---- R7 RawVec::allocate_in hands out a buffer-less vector (dangling pointer) with the requested capacity only when the byte
    # size was computed with a check that succeeded AND is zero: an overflowing capacity must not take the "nothing to allocate" arm
    if config != 'rel-default':
        bs = [b for b in db.fn_bodies() if b['kind'] == 'assoc_fn' and (b['meta'].get('impl_adt') or '').endswith('raw_vec::RawVec') and b['meta'].get('name') == 'allocate_in']
        if not bs:
            ctx.anchor_missing('R7', 'RawVec::allocate_in')
        for b in bs:
            I, r = arena.run_fn(ctx, b['id'], config)
            fn = arena.short(b['id'])
            P = field_of(r.ret, 'ptr') if r.ret is not None and r.ret[0] == 'agg' else None
            if P is None or r.ret_state is None:
                ctx.violation('R7', fn, 'shape', 'allocate_in does not return a RawVec aggregate', b.get('span'))
                continue
            cap = ('param', 1)
            nd = 0
            for t, fs in arena.alternatives(I, P, set(r.ret_state.facts)):
                if not (t[0] == 'app' and t[1] == 'dangling'):
                    continue
                nd += 1
                zero = any(f[0] == 'eq' and C(0) in f[1:] and any(cap in subterms(x) for x in f[1:] if isinstance(x, tuple)) for f in fs) or \
                    any(f[0] == 'eq' and C(0) in f[1:] and any(x == sym('sizeof(T)') for x in f[1:]) for f in fs)
                checked = any((f[0] == 'nooverflow' and f[1] == 'mul') or (f[0] == 'is' and f[2] in ('Some', 'Ok') and any(isinstance(x, tuple) and x[:2] in (('app', 'checked_mul'), ('app', 'layout_array')) for x in subterms(f[1]))) for f in fs)
                if zero and checked:
                    ctx.ok('R7', '%s: the buffer-less arm is taken only for a checked byte size of zero' % fn, 'must-facts of the dangling alternative')
                else:
                    ctx.violation('R7', fn, 'dangling-without-zero-size', '%s can return a RawVec with the requested capacity and no buffer on a path where the byte size is not known to be a successfully checked zero (an overflowing capacity would be accepted)' % fn, b.get('span'))
            ctx.floor('R7', nd, 1, 'buffer-less return alternatives of RawVec::allocate_in')
    ctx.floor('R5', nu, 7, 'unchecked Layout construction sites')
    # ---- R4 the arena's own size check: a huge (but valid) Layout must be refused by the bumping function, i.e. the
    # bumped pointer is proved to stay inside [data, old finger] with the block below the old finger (shared with C01.O2)
    from . import c01
    A = arena.analyse(ctx, config, only=['try_alloc_layout'])
    val = A.get('try_alloc_layout')
    if val:
        I, res, body = val
        ords = c01.ordinal_keys([e for e in res.events if e.kind == 'store'])
        for e in res.events:
            if e.kind == 'store' and arena.footer_field(e) and arena.footer_field(e)[1] == 'ptr':
                fn = arena.short(arena.innermost(e))
                c01.check_finger_store(ctx, 'try_alloc_layout', I, res, e, fn, ords.get((fn, e.block, e.span), 0), loc(e.span), set(), rules={'R1': 'R4', 'O2': 'R4', 'R3': 'R4'})


def layout_origin(I, L, facts, depth=0):
    if L[0] == 'param':
        return 'its Layout parameter'
    if L[0] == 'layout':
        bad = unjustified(I, L[1], set(facts))
        return None if bad else 'a type/value layout'
    if L[0] == 'app' and L[1] in ('payload', 'vproj'):
        inner = L[2]
        if inner[0] == 'app' and inner[1] in ('layout_array', 'layout_result'):
            return 'the Ok payload of Layout::array / from_size_align'
    if L[0] == 'phi' and depth < 4:
        ks = [layout_origin(I, x, facts, depth + 1) for _, x in L[2]]
        return ks[0] if all(ks) else None
    return None


def check_reserve_post(ctx, db, config):
    """R3: a successful return of the reserve family guarantees used + extra <= cap"""
    if config == 'rel-default':
        return
    n = 0
    SELFP = ('deref', ('param', 1))
    VLEN = ('load', ('fld', SELFP, 'collections::vec::Vec.len'), 0)
    VCAP = ('fld', ('fld', SELFP, 'collections::vec::Vec.buf'), 'collections::raw_vec::RawVec.cap')
    SLEN = ('load', ('fld', ('fld', SELFP, 'collections::string::String.vec'), 'collections::vec::Vec.len'), 0)
    SCAP = ('fld', ('fld', ('fld', SELFP, 'collections::string::String.vec'), 'collections::vec::Vec.buf'), 'collections::raw_vec::RawVec.cap')
    PUBLIC = ('reserve', 'reserve_exact', 'try_reserve', 'try_reserve_exact')
    for b in db.fn_bodies():
        m = b['meta']
        adt = m.get('impl_adt') or ''
        if b['kind'] == 'closure' or m.get('impl_trait'):
            continue
        if adt.endswith('raw_vec::RawVec') and m.get('name') in ('fallible_reserve_internal', 'infallible_reserve_internal'):
            used, extra = ('param', 2), ('param', 3)
            cap_lv = ('fld', ('deref', ('param', 1)), 'collections::raw_vec::RawVec.cap')
        elif adt.endswith('vec::Vec') and m.get('name') in PUBLIC:
            # the public wrappers promise the same: a successful return means len + additional <= capacity()
            used, extra, cap_lv = VLEN, ('param', 2), VCAP
        elif adt.endswith('string::String') and m.get('name') in PUBLIC:
            used, extra, cap_lv = SLEN, ('param', 2), SCAP
        else:
            continue
        I, r = arena.run_fn(ctx, b['id'], config)
        fn = arena.short(b['id'])
        cap0 = ('load', cap_lv, 0)
        MAXU = C((1 << 64) - 1)
        # the returned Result and the capacity field, flattened together over the merge points they share: every way of
        # returning Ok must entail used + extra <= cap
        if r.ret is None or r.ret_state is None:
            ctx.violation('R3', fn, 'postcondition', '%s has no analysable return' % fn, b.get('span'))
            continue
        capnow = I.read(r.ret_state.copy(), cap_lv)
        # variant facts about merged values (`match res { Ok(()) => .., Err(..) => panic }`) rule out the memory alternatives that
        # come from the other predecessors of the same merge point
        def phi_paths(t, target, path=(), out=None):
            """every route (merge point, predecessor)* by which `target` is an alternative of the merged value t"""
            out = [] if out is None else out
            if t == target:
                out.append(path)
            if isinstance(t, tuple) and t and t[0] == 'phi':
                for pr, x in t[2]:
                    phi_paths(x, target, path + ((t[1][:2], pr),), out)
            return out

        def contradicted(capv, facts):
            # the facts name the merge points the alternative went through (variant tests on values merged there); a route to this
            # value of cap through one of those merge points from a predecessor whose value fails the test is not this alternative
            for path in phi_paths(capnow, capv):
                for f in facts:
                    if f[0] == 'is' and isinstance(f[1], tuple) and f[1] and f[1][0] == 'phi':
                        for node, pr in path:
                            if f[1][1][:2] == node:
                                for p2, x in f[1][2]:
                                    vs2 = I.variants_in(x) - {''}
                                    if p2 == pr and vs2 and f[2] not in vs2:
                                        return True
            return False
        for (rv, capv), facts in arena.joint_alternatives(I, [r.ret, capnow], set(r.ret_state.facts)):
            if contradicted(capv, facts):
                continue        # this value of cap comes from a predecessor whose result the path to the return has excluded
            n += 1
            vs = I.variants_in(rv) if rv is not None else {None}
            errpath = (None not in vs and '' not in vs and bool(vs) and not (vs & {'Ok'})) or (any(f[0] == 'is' and f[2] in ('Err', 'Break') for f in facts) and not any(f[0] == 'is' and f[2] in ('Ok', 'Continue') for f in facts))
            P = prover.Prover(I, facts, use_J=False, extra_axioms={('le', used, cap0)})
            okv = errpath or P.le(app('add', used, extra), capv)
            if not okv:
                # early return: extra <= cap().wrapping_sub(used), cap() = usize::MAX for zero-sized T else self.cap
                for f in facts:
                    if f[0] == 'le' and f[1] == extra and f[2][0] == 'app' and f[2][1] == 'wsub' and f[2][3] == used:
                        capt = f[2][2]
                        alts = [x for _, x in capt[2]] if capt[0] == 'phi' else [capt]
                        if all(x == cap0 or x == MAXU for x in alts) and capv == cap0:
                            okv = True
                    # the same test written the other way round: the slow path is taken under cap().wrapping_sub(used) < extra
                    if f[0] == 'le' and f[1] == extra and f[2][0] == 'phi':
                        pass
            if okv:
                ctx.ok('R3', '%s: a return alternative entails used + extra <= cap (or is an Err path)' % fn, 'joint alternatives of (result, cap) with the facts of their edges (given used <= cap)')
            else:
                ctx.violation('R3', fn, 'postcondition', '%s can return successfully without the path establishing used_cap + needed_extra_cap <= capacity (a wrapped sum would let callers write past the buffer)' % fn, b.get('span'))
    ctx.floor('R3', n, 2, 'successful returns of the reserve family')
