"""Two inventory rules about the owning iterators of the arena collections, stated from the side of the requirement so that
*added* code (a new override, a new conversion) is judged too.

inner_iterator(rule): a Drain / string::Drain owns the elements its borrowed `slice::Iter` / `Chars` still ranges over: each one
    must leave through `next` / `next_back` (which the owner reads out and thereby takes responsibility for) or through the owner's
    Drop.  Any other advancing method of the inner iterator called from a method of the owner (`nth`, `nth_back`, `advance_by`,
    `last`, `count`, `skip`, `fold`, `for_each` ..) steps over owned elements that nobody will ever drop.

constructors(rule): the owning iterator types keep invariants between private fields that only their analysed constructor
    establishes (IntoIter encodes the length of a zero-sized sequence in the *address* of `end`; Drain's tail_start / tail_len
    describe the hole of a vector whose length was lowered).  A value of such a type may be built only by the function whose
    formulas the packs check; an aggregate anywhere else (a new `Box<[T]>::into_iter`, a hand-made Drain) is reported."""
from .. import arena
from ..facts import loc

OWNERS = ('collections::vec::Drain', 'collections::string::Drain', 'collections::vec::Splice', 'collections::vec::DrainFilter')
INNER_OK = ('next', 'next_back', 'size_hint', 'len', 'as_slice', 'as_str', 'as_ref', 'clone', 'is_empty', 'fmt')
INNER_TYPES = ('core::slice::iter::Iter', 'core::str::iter::Chars', 'core::slice::iter::IterMut')

CONSTRUCTED_BY = {          # type -> (type whose method builds it, method names)
    'collections::vec::IntoIter': ('collections::vec::Vec', ('into_iter',)),
    'collections::vec::Drain': ('collections::vec::Vec', ('drain', 'drain_range_unchecked')),
    'collections::vec::DrainFilter': ('collections::vec::Vec', ('drain_filter',)),
    'collections::vec::Splice': ('collections::vec::Vec', ('splice',)),
    'collections::string::Drain': ('collections::string::String', ('drain',)),
}


def inner_iterator(ctx, db, rule):
    n = 0
    for b in db.fn_bodies():
        m = b['meta']
        owner = m.get('impl_adt') or ''
        if b['kind'] == 'closure':
            pf = m.get('parent_fn') or ''
            own = [o for o in OWNERS if o.split('::')[-1] in pf and o.split('::')[-2] in pf]
            if not own:
                continue
        elif owner not in OWNERS:
            continue
        for bi, t in db.calls(b):
            c = t['callee']
            p = (c.get('resolved') or {}).get('path') or c.get('path') or ''
            st = c.get('self_ty') or ''
            inner = st.startswith(('std::slice::Iter<', 'core::slice::Iter<', 'core::slice::iter::Iter<', 'std::str::Chars<', 'core::str::Chars<', 'core::str::iter::Chars<',
                                   'std::slice::IterMut<', 'core::slice::iter::IterMut<')) or any(('<' + it) in p for it in INNER_TYPES)
            if not inner:
                continue
            name = c.get('name') or p.split('::')[-1]
            n += 1
            if name in INNER_OK:
                ctx.ok(rule, '%s: the inner iterator is advanced by %s only' % (arena.short(b['id']), name), 'callee inventory')
            else:
                ctx.violation(rule, arena.short(b['id']), 'inner-iterator:%s' % name, '%s advances the iterator over the elements it owns with %s: the elements stepped over are neither yielded nor left for the owner\'s Drop, so their destructors never run' % (arena.short(b['id']), name), loc(t.get('span')))
    ctx.floor(rule, n, 4, 'calls on the inner iterators of the draining types')


def constructors(ctx, db, rule):
    n = 0
    for b in db.fn_bodies():
        for bl in b['blocks']:
            for st in bl['stmts']:
                if st.get('k') != 'assign':
                    continue
                rv = st['rv']
                if rv.get('k') not in ('agg', 'aggregate') or rv.get('agg', 'adt') != 'adt':
                    continue
                adt = rv.get('name') or rv.get('adt') or ''
                if adt not in CONSTRUCTED_BY:
                    continue
                n += 1
                m = b['meta']
                fn = m.get('name') or ''
                if b['kind'] == 'closure':
                    fn = (m.get('parent_fn') or '').split('::')[-1]
                owner = m.get('impl_adt') or ''
                if b['kind'] == 'closure':
                    owner = CONSTRUCTED_BY[adt][0] if CONSTRUCTED_BY[adt][0].split('::')[-1] + '::' in (m.get('parent_fn') or '') or CONSTRUCTED_BY[adt][0].split('::')[-1] + '<' in (m.get('parent_fn') or '') else ''
                if fn in CONSTRUCTED_BY[adt][1] and owner == CONSTRUCTED_BY[adt][0]:
                    ctx.ok(rule, '%s is built in %s' % (adt.split('::')[-1], arena.short(b['id'])), 'its analysed constructor')
                else:
                    ctx.violation(rule, arena.short(b['id']), 'built-outside-constructor:%s' % adt.split('::')[-1], '%s builds a %s by hand: the invariants between its private fields (zero-sized element counts in the address of `end`, the hole description of a drain) are established only by %s, whose formulas are checked' % (arena.short(b['id']), adt, CONSTRUCTED_BY[adt][0].split('::')[-1] + '::' + ' / '.join(CONSTRUCTED_BY[adt][1])), loc(st.get('span')))
    ctx.floor(rule, n, 4, 'aggregates of the owning iterator types')
