"""A collection never changes the arena it lives in (C20.R5).

Every arena-backed value (RawVec, Vec, String, Box, and anything owning one) carries a `&Bump`. What an arena does must depend
only on its own history, so a value living in arena A must never start allocating from arena B: inside the methods of the
arena-backed types no whole value of such a type -- and no `&Bump` field -- reachable through a `&mut` parameter may be
overwritten (assignment, mem::swap / replace / take, ptr::write / swap / replace) with a value that derives from *another*
parameter. A value rebuilt from the receiver's own fields (RawVec::new_in(self.a)) stays in the same arena and is accepted.
Decided on the MIR def-use chains of each body; no interpretation."""
from .. import facts
from ..facts import loc

OVERWRITERS = ('core::mem::swap', 'core::mem::replace', 'core::mem::take', 'core::ptr::write', 'core::ptr::swap', 'core::ptr::replace',
               'core::ptr::swap_nonoverlapping', 'core::ptr::copy', 'core::ptr::copy_nonoverlapping',
               'core::ptr::mut_ptr::<impl *mut T>::write', 'core::ptr::mut_ptr::<impl *mut T>::swap', 'core::ptr::mut_ptr::<impl *mut T>::replace',
               'core::ptr::non_null::NonNull::<T>::write', 'core::ptr::non_null::NonNull::<T>::swap', 'core::ptr::non_null::NonNull::<T>::replace')


def arena_backed_adts(db):
    """crate ADTs that hold a `&Bump` directly or own (by value) an ADT that does"""
    out = set()
    changed = True
    while changed:
        changed = False
        for a in db.adts:
            if a['path'] in out or a['path'] == 'Bump':
                continue
            for f in a['fields']:
                t = f['ty'].strip()
                direct = t.startswith('&') and (t.split()[-1].split('<')[0] == 'Bump')
                owns = any(h in out for h, _ in facts.owned_types(t))
                if direct or owns:
                    out.add(a['path'])
                    changed = True
                    break
    return out


def is_backed(ty, backed):
    ty = (ty or '').strip()
    if ty.startswith('&') and ty.split()[-1].split('<')[0] == 'Bump':
        return True
    return any(h in backed for h, _ in facts.owned_types(ty))


def _roots(body, local, seen=None, depth=0):
    """parameters (argument locals) the value of `local` may derive from, through copies, refs, casts, aggregates and call arguments"""
    seen = seen if seen is not None else set()
    if local in seen:
        return set()
    seen.add(local)
    argc = body.get('argc', 0)
    if 1 <= local <= argc:
        return {local}
    out = set()

    def op(o):
        if isinstance(o, dict) and o.get('k') in ('copy', 'move') and 'place' in o:
            out.update(_roots(body, o['place']['l'], seen, depth + 1))

    def walk(x):
        if isinstance(x, dict):
            if x.get('k') in ('copy', 'move') and 'place' in x:
                op(x)
            elif 'l' in x and 'proj' in x and isinstance(x.get('l'), int):
                out.update(_roots(body, x['l'], seen, depth + 1))
            else:
                for v in x.values():
                    walk(v)
        elif isinstance(x, list):
            for v in x:
                walk(v)
    for bl in body['blocks']:
        for st in bl['stmts']:
            if st.get('k') == 'assign' and st['place']['l'] == local:
                walk(st['rv'])
        t = bl['term']
        if t['k'] == 'call' and t.get('dest') and t['dest']['l'] == local:
            for a in t['args']:
                op(a)
    return out


def check(ctx, db, rule='R5'):
    backed = arena_backed_adts(db)
    n = 0
    for b in db.fn_bodies():
        m = b['meta']
        owner = m.get('impl_adt')
        if b['kind'] == 'closure':
            continue
        if owner not in backed:
            continue
        argc = b.get('argc', 0)
        # parameters through which caller-visible arena-backed values can be overwritten / obtained
        for bl in b['blocks']:
            sites = []
            for st in bl['stmts']:
                if st.get('k') != 'assign':
                    continue
                pl = st['place']
                if not any(e['k'] == 'deref' for e in pl['proj']):
                    continue
                if not is_backed(pl.get('ty'), backed):
                    continue
                # roots of the right-hand side
                rv_roots = set()
                def collect(x):
                    if isinstance(x, dict):
                        if x.get('k') in ('copy', 'move') and 'place' in x:
                            rv_roots.update(_roots(b, x['place']['l']))
                        else:
                            for v in x.values():
                                collect(v)
                    elif isinstance(x, list):
                        for v in x:
                            collect(v)
                collect(st['rv'])
                sites.append(('assignment to %s' % facts.place_str(pl), _roots(b, pl['l']), rv_roots, st.get('span')))
            t = bl['term']
            if t['k'] == 'call':
                p = (t['callee'].get('resolved') or {}).get('path') or t['callee'].get('path') or ''
                g = t['callee'].get('gargs') or []
                if p in OVERWRITERS and g and is_backed(g[0], backed):
                    roots = [(_roots(b, a['place']['l']) if a.get('k') in ('copy', 'move') else set()) for a in t['args']]
                    dst = roots[0] if roots else set()
                    others = set().union(*roots[1:]) if len(roots) > 1 else set()
                    sites.append(('%s::<%s>' % (p.split('::')[-1], g[0]), dst, others, t.get('span')))
            for what, dst, src, span in sites:
                n += 1
                foreign = (src - dst) if dst else set()
                if dst and foreign:
                    ctx.violation(rule, b['id'], 'foreign-arena-value:%s' % what.split('<')[0][:40],
                                  '%s: %s overwrites an arena-backed value reachable from parameter(s) %s with a value derived from parameter(s) %s: the receiver would continue to live in, and allocate from, the arena of the other value' % (b['id'], what, sorted(dst), sorted(foreign)), loc(span))
                else:
                    ctx.ok(rule, '%s: %s keeps the arena' % (b['id'], what), 'the new value derives from the overwritten value\'s own parameter %s' % sorted(dst | src))
    # the arena reference of RawVec / Box-like types is stored only by aggregates (constructors); counted for the evidence
    ctx.floor(rule, len(backed), 4, 'arena-backed types whose methods were scanned for whole-value overwrites (%d overwrite sites judged)' % n)
    return n
