"""In-crate clients of the arena (RawVec and the iterators that move vector tails) respect the allocation contract
(shared as C01.R10 / C02.R8 / C03.R9): they adopt the pointer a reallocation returns, never record a capacity they did not
obtain, release exactly what they hold and reserve room for everything they are about to move.  A client that breaks this
makes the *arena-level* properties fail (a block released with the wrong size raises the finger over live neighbours; a
stale pointer aliases the next allocation; a tail moved past the buffer overwrites older blocks)."""
from .. import runner


def check(ctx, config, rule):
    if config == 'rel-default':
        return
    from . import c13, c19, splice, helpers
    db = ctx.db(config)
    sub = runner.Sub(ctx, rule, 'clients')
    c13.check_realloc_adopted(sub, db, config, 'adopt')
    c19.check_rawvec_failure_atomicity(sub, db, config, 'atomic')
    splice.check(sub, config, 'tails')
    helpers.check_vec(sub, config, 'rawvec')
