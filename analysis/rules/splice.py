"""Formula clauses for Drain::drop / Drain::fill / Drain::move_tail / Splice::drop (C13.O4): std's algorithm is the reference."""
from .. import arena, prover
from ..terms import *

TS, TL, LEN, BASE, SZ = sym('TAIL_START'), sym('TAIL_LEN'), sym('LEN'), sym('BASE'), sym('sizeof(T)')
FIELDS = {'Drain.tail_start': TS, 'Drain.tail_len': TL, 'Vec.len': LEN, 'RawVec.ptr': BASE}


def fold(t):
    if not isinstance(t, tuple) or not t:
        return t
    if t[0] == 'load' and t[1][0] == 'fld':
        for suf, s in FIELDS.items():
            if t[1][2].endswith(suf):
                return s
    if t[0] == 'phi':
        alts = {fold(x) for _, x in t[2]}
        if len(alts) == 1:
            return alts.pop()
        # buffer pointer re-read after a possible reallocation
        if BASE in alts and all(a == BASE or any(isinstance(s, tuple) and s and s[0] in ('phi',) or (isinstance(s, tuple) and s[:2] in (('app', 'galloc'), ('app', 'iter_any'))) for s in subterms(a)) for a in alts):
            return BASE
        return ('phi', t[1], tuple((p, fold(x)) for p, x in t[2]))
    r = tuple(fold(x) if isinstance(x, tuple) else x for x in t)
    if r[0] == 'app':
        if r[1] == 'wsub':
            return app('sub', r[2], r[3])
        return simplify(r)
    return r


def leq(a, b):
    return lin(a) == lin(b)


def slot(i):
    return app('add', BASE, app('mul', i, SZ))


def own(r):
    return [e for e in r.events if e.is_own()]


def find(db, pred):
    for b in db.fn_bodies():
        if b['kind'] == 'assoc_fn' and pred(b):
            return b
    return None


def check(ctx, config, rule):
    db = ctx.db(config)
    n = [0]

    def clause(fn, name, okv, detail='', span=None):
        n[0] += 1
        if okv:
            ctx.ok(rule, '%s: %s' % (fn, name), 'term equality on TAIL_START/TAIL_LEN/LEN/BASE form')
        else:
            ctx.violation(rule, fn, 'sp:' + name.replace(' ', '_')[:60], '%s deviates from std: %s %s' % (fn, name, detail), span)

    # ---- Drain::drop
    b = find(db, lambda b: (b['meta'].get('impl_adt') or '').endswith('vec::Drain') and (b['meta'].get('impl_trait') or '').endswith('Drop') and b['meta'].get('name') == 'drop')
    if b is None:
        ctx.anchor_missing(rule, 'Drain::drop')
    else:
        I, r = arena.run_fn(ctx, b['id'], config)
        ev = own(r)
        fe = [e for e in ev if e.kind == 'call' and (e.callee or '').endswith('for_each')]
        cp = [e for e in ev if e.kind == 'copy']
        sl = [e for e in ev if e.kind == 'call' and (e.callee or '').endswith('::set_len')]
        clause('Drain::drop', 'the rest of the range is dropped first', len(fe) == 1 and (not cp or r.events.index(fe[0]) < r.events.index(cp[0])), '', b.get('span'))
        okc = len(cp) == 1 and cp[0].callee == 'copy' and leq(fold(cp[0].args[0]), slot(TS)) and leq(fold(cp[0].args[1]), slot(LEN)) and fold(cp[0].args[2]) == TL
        clause('Drain::drop', 'tail: memmove(BASE + tail_start -> BASE + len, tail_len)', okc, show(fold(cp[0].args[0]))[:60] if cp else '')
        clause('Drain::drop', 'vec.len := len + tail_len', len(sl) == 1 and leq(fold(sl[0].args[1]), app('add', LEN, TL)))
        if sl:
            fs = {tuple(fold(x) if isinstance(x, tuple) else x for x in f) for f in sl[0].state.facts}
            clause('Drain::drop', 'the length is restored exactly when tail_len > 0', ('lt', C(0), TL) in fs or ('ne', C(0), TL) in fs or ('ne', TL, C(0)) in fs)
        if cp and sl:
            # the move may be skipped only when tail_start == len
            bad = []
            for e in arena.bypass_edges(I, r, ev, cp[0], sl[0]):
                fs = [tuple(fold(x) if isinstance(x, tuple) else x for x in f) for f in e.extra['added']]
                if not any(f in (('eq', TS, LEN), ('eq', LEN, TS)) for f in fs):
                    bad.append(fs)
            clause('Drain::drop', 'the tail move is skipped only when tail_start == len', not bad, str(bad)[:120])
    # ---- Drain::move_tail
    b = find(db, lambda b: (b['meta'].get('impl_adt') or '').endswith('vec::Drain') and b['meta'].get('name') == 'move_tail')
    if b is None:
        ctx.anchor_missing(rule, 'Drain::move_tail')
    else:
        I, r = arena.run_fn(ctx, b['id'], config)
        ev = own(r)
        extra = ('param', 2)
        rs = [e for e in ev if e.kind == 'call' and (e.callee or '').endswith('::reserve')]
        cp = [e for e in ev if e.kind == 'copy']
        st = [e for e in ev if e.kind == 'store' and e.lv[0] == 'fld' and e.lv[2].endswith('Drain.tail_start')]
        clause('Drain::move_tail', 'buf.reserve(tail_start + tail_len, extra)', len(rs) == 1 and leq(fold(rs[0].args[1]), app('add', TS, TL)) and rs[0].args[2] == extra, '', b.get('span'))
        okc = len(cp) == 1 and cp[0].callee == 'copy' and leq(fold(cp[0].args[0]), slot(TS)) and leq(fold(cp[0].args[1]), slot(app('add', TS, extra))) and fold(cp[0].args[2]) == TL
        clause('Drain::move_tail', 'memmove(BASE + tail_start -> BASE + tail_start + extra, tail_len) after the reserve', okc and bool(rs) and r.events.index(rs[0]) < r.events.index(cp[0]))
        clause('Drain::move_tail', 'tail_start := tail_start + extra', len(st) == 1 and leq(fold(st[0].val), app('add', TS, extra)))
    # ---- Drain::fill
    b = find(db, lambda b: (b['meta'].get('impl_adt') or '').endswith('vec::Drain') and b['meta'].get('name') == 'fill')
    if b is None:
        ctx.anchor_missing(rule, 'Drain::fill')
    else:
        I, r = arena.run_fn(ctx, b['id'], config)
        ev = own(r)
        sl = [e for e in ev if e.kind == 'slice']
        w = [e for e in ev if e.kind == 'call' and (e.callee or '').endswith('ptr::write')]
        st = [e for e in ev if e.kind == 'store' and e.lv[0] == 'fld' and e.lv[2].endswith('Vec.len')]
        # counter form of the same loop: `let mut k = 0; while k != tail_start - len { write(base.add(len + k), item); k += 1 }`
        K = None
        for (bid, h), rec in r.loops.items():
            if bid != b['id']:
                continue
            for l, symv in rec['sym'].items():
                if rec['init'].get(l) == C(0) and rec['step'] and all(sv['env'].get(l) == app('add', symv, C(1)) for sv in rec['step']):
                    K = symv
        if not sl and K is not None:
            exits = [e for e in ev if e.kind == 'branch' and any(f[0] == 'eq' and {fold(x) if isinstance(x, tuple) else x for x in f[1:]} == {K, app('sub', TS, LEN)} for f in e.extra['added'])]
            clause('Drain::fill', 'the gap is from_raw_parts_mut(BASE + len, tail_start - len)', len(exits) == 1, 'counter form: the loop ends exactly at k == tail_start - len', b.get('span'))
            okw = len(w) == 1 and leq(fold(w[0].args[0]), slot(app('add', LEN, K))) and 'next' in repr(w[0].args[1])
        else:
            clause('Drain::fill', 'the gap is from_raw_parts_mut(BASE + len, tail_start - len)', len(sl) == 1 and leq(fold(sl[0].args[0]), slot(LEN)) and leq(fold(sl[0].args[1]), app('sub', TS, LEN)), '', b.get('span'))
            okw = len(w) == 1 and 'next' in repr(w[0].args[0]) and 'next' in repr(w[0].args[1])
        clause('Drain::fill', 'each new item is written into the next gap slot', okw)
        okl = len(st) == 1 and leq(fold(st[0].val), app('add', LEN, C(1))) and bool(w) and r.events.index(w[0]) < r.events.index(st[0])
        clause('Drain::fill', 'vec.len += 1 after each write', okl)
        alts = arena.alternatives(I, r.ret, set()) if r.ret is not None else []
        vals = {t for t, _ in alts}
        clause('Drain::fill', 'returns false when the iterator ran dry, true when the gap is full', vals == {C(0), C(1)} and any(t == C(0) and any(f[0] == 'is' and f[2] == 'None' for f in fs) for t, fs in alts), str([show(v) for v in vals])[:60])
    # ---- Splice::drop
    b = find(db, lambda b: (b['meta'].get('impl_adt') or '').endswith('vec::Splice') and (b['meta'].get('impl_trait') or '').endswith('Drop') and b['meta'].get('name') == 'drop')
    if b is None:
        ctx.anchor_missing(rule, 'Splice::drop')
    else:
        I, r = arena.run_fn(ctx, b['id'], config)
        ev = own(r)
        evs = r.events
        fe = [e for e in ev if e.kind == 'call' and (e.callee or '').endswith('for_each')]
        if not fe:
            # `while let Some(x) = drain.next() { drop(x) }`: the same exhaustion as a loop over Drain::next in the destructor's own frame
            fe = [e for e in ev if e.kind == 'call' and 'vec::Drain<' in (e.callee or '') and (e.callee or '').endswith('Iterator>::next') and e.fn == b['id']
                  and any(e.block in blks for blks in I.cfg(b).loops().values())]
        ext = [e for e in ev if e.kind == 'call' and (e.extra.get('trait_path') or '').endswith('Extend::extend')]
        fills = [e for e in ev if e.kind == 'call' and (e.callee or '').endswith('::fill')]
        mts = [e for e in ev if e.kind == 'call' and (e.callee or '').endswith('::move_tail')]
        sh = [e for e in ev if e.kind == 'call' and (e.extra.get('trait_path') or '').endswith('Iterator::size_hint')]
        clause('Splice::drop', 'the drained range is exhausted before anything is written', len(fe) == 1 and all(evs.index(fe[0]) < evs.index(x) for x in ext + fills + mts), '', b.get('span'))
        okx = bool(ext) and any(tuple(fold(x) if isinstance(x, tuple) else x for x in f) in (('eq', C(0), TL), ('eq', TL, C(0))) for f in ext[0].state.facts) and 'replace_with' in repr(ext[0].args[1])
        clause('Splice::drop', 'with no tail the replacement is simply appended (vec.extend(replace_with))', okx)
        clause('Splice::drop', 'three fill phases and two tail moves', len(fills) == 3 and len(mts) == 2, '%d fills, %d moves' % (len(fills), len(mts)))
        if len(mts) == 2 and sh and len(fills) == 3:
            lower = ('app', 'proj', sh[0].ret, 'tuple.0')
            a1 = mts[0].args[1]
            okm = a1 == lower and any(f == ('lt', C(0), lower) for f in mts[0].state.facts) and evs.index(fills[0]) < evs.index(sh[0]) < evs.index(mts[0]) < evs.index(fills[1])
            clause('Splice::drop', 'second phase: move_tail(size_hint().0) exactly when the lower bound is > 0, then fill', okm, show(a1)[:80], mts[0].span)
            a2 = mts[1].args[1]
            okm2 = a2[0] == 'call' and a2[1].endswith('ExactSizeIterator::len') and any(f[0] == 'lt' and f[1] == C(0) and f[2][0] == 'call' and f[2][1].endswith('ExactSizeIterator::len') for f in mts[1].state.facts) and evs.index(mts[1]) < evs.index(fills[2])
            clause('Splice::drop', 'third phase: the rest is collected, move_tail(collected.len()) exactly when non-empty, then fill', okm2, show(a2)[:80], mts[1].span)
            # the collected iterator is what fills the third phase
            clause('Splice::drop', 'the third fill consumes the collected elements', fills[2].args[1] != fills[0].args[1] and fills[0].args[1] == fills[1].args[1])
    ctx.floor(rule, n[0], 18, 'Drain / Splice formula clauses')
