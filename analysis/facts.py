"""Loader / index for the JSON written by bumpscan."""
from . import cfg as cfgm


class Facts:
    def __init__(self, D, info=None):
        self.raw = D
        self.info = info or {}
        self.bodies = {b['id']: b for b in D['bodies']}
        self.by_path = {}
        for b in D['bodies']:
            if b['kind'] in ('fn', 'assoc_fn'):
                self.by_path[b['meta']['path']] = b
                self.by_path.setdefault(b['id'], b)
            elif b['kind'] == 'closure':
                self.by_path[b['id']] = b
        self.adts = D['adts']
        self.adt = {a['path']: a for a in D['adts']}
        self.impls = D['impls']
        self.statics = D['statics']
        self.consts = {c['path']: int(c['val'], 0) for c in D['consts']}
        self.fns = {f['path']: f['meta'] for f in D['fns']}
        self.matches = {f['path']: f.get('matches') or [] for f in D['fns']}
        self._cfg = {}

    def cfg(self, body, with_unwind=False):
        key = (body['id'], with_unwind)
        c = self._cfg.get(key)
        if c is None:
            c = cfgm.CFG(body, with_unwind=with_unwind)
            self._cfg[key] = c
        return c

    # ---- iteration helpers
    def fn_bodies(self):
        return [b for b in self.raw['bodies'] if b['kind'] in ('fn', 'assoc_fn', 'closure')]

    def calls(self, body, reachable_only=True):
        """yield (block index, terminator) of call terminators"""
        blocks = body['blocks']
        idx = self.cfg(body).reachable if reachable_only else range(len(blocks))
        for bi in sorted(idx):
            t = blocks[bi]['term']
            if t['k'] == 'call':
                yield bi, t

    def callee_path(self, t, resolved=True):
        c = t['callee']
        if resolved and c.get('resolved') and c['resolved'].get('path'):
            return c['resolved']['path']
        return c.get('path')

    def find(self, suffix, kind=None):
        """bodies whose id ends with suffix"""
        return [b for b in self.raw['bodies'] if b['id'].endswith(suffix) and (kind is None or b['kind'] == kind)]

    def one(self, suffix):
        r = [b for b in self.raw['bodies'] if b['id'] == suffix]
        if len(r) != 1:
            r = self.find(suffix)
        if len(r) != 1:
            raise KeyError('anchor %r: %d bodies' % (suffix, len(r)))
        return r[0]

    def callers_of(self, path):
        """(body, block, term) for every call whose (resolved or trait) callee is path"""
        out = []
        for b in self.fn_bodies():
            for bi, t in self.calls(b):
                if self.callee_path(t) == path or t['callee'].get('path') == path:
                    out.append((b, bi, t))
        return out

    def closures_of(self, body_id):
        return [b for b in self.raw['bodies'] if b['kind'] == 'closure' and b['meta'].get('parent_fn') == self.bodies[body_id]['meta'].get('path')]


def place_str(p):
    s = '_%d' % p['l']
    for e in p['proj']:
        k = e['k']
        if k == 'deref':
            s = '(*%s)' % s
        elif k == 'field':
            s = '%s.%s' % (s, e['name'])
        elif k == 'downcast':
            s = '(%s as %s)' % (s, e['variant'])
        else:
            s = '%s[%s]' % (s, k)
    return s


def loc(span):
    """file:line of a span string file:line:col"""
    if not span:
        return '?'
    parts = span.rsplit(':', 2)
    return '%s:%s' % (parts[0], parts[1]) if len(parts) == 3 else span
