"""Loader / index for the JSON written by bumpscan."""
from . import cfg as cfgm


class Facts:
    def __init__(self, D, info=None):
        self.raw = D
        self.info = info or {}
        self.bodies = {b['id']: b for b in D['bodies']}
        self.by_path = {}
        for b in D['bodies']:
            if b['kind'] in ('fn', 'assoc_fn'):
                self.by_path[b['meta']['path']] = b
                self.by_path.setdefault(b['id'], b)
            elif b['kind'] == 'closure':
                self.by_path[b['id']] = b
        self.adts = D['adts']
        self.adt = {a['path']: a for a in D['adts']}
        self.impls = D['impls']
        self.statics = D['statics']
        self.consts = {c['path']: int(c['val'], 0) for c in D['consts']}
        self.fns = {f['path']: f['meta'] for f in D['fns']}
        self.matches = {f['path']: f.get('matches') or [] for f in D['fns']}
        self._cfg = {}

    def cfg(self, body, with_unwind=False):
        key = (body['id'], with_unwind)
        c = self._cfg.get(key)
        if c is None:
            c = cfgm.CFG(body, with_unwind=with_unwind)
            self._cfg[key] = c
        return c

    # ---- iteration helpers
    def fn_bodies(self):
        return [b for b in self.raw['bodies'] if b['kind'] in ('fn', 'assoc_fn', 'closure')]

    def calls(self, body, reachable_only=True):
        """yield (block index, terminator) of call terminators"""
        blocks = body['blocks']
        idx = self.cfg(body).reachable if reachable_only else range(len(blocks))
        for bi in sorted(idx):
            t = blocks[bi]['term']
            if t['k'] == 'call':
                yield bi, t

    def callee_path(self, t, resolved=True):
        c = t['callee']
        if resolved and c.get('resolved') and c['resolved'].get('path'):
            return c['resolved']['path']
        return c.get('path')

    def find(self, suffix, kind=None):
        """bodies whose id ends with suffix"""
        return [b for b in self.raw['bodies'] if b['id'].endswith(suffix) and (kind is None or b['kind'] == kind)]

    def one(self, suffix):
        r = [b for b in self.raw['bodies'] if b['id'] == suffix]
        if len(r) != 1:
            r = self.find(suffix)
        if len(r) != 1:
            raise KeyError('anchor %r: %d bodies' % (suffix, len(r)))
        return r[0]

    def callers_of(self, path):
        """(body, block, term) for every call whose (resolved or trait) callee is path"""
        out = []
        for b in self.fn_bodies():
            for bi, t in self.calls(b):
                if self.callee_path(t) == path or t['callee'].get('path') == path:
                    out.append((b, bi, t))
        return out

    def closures_of(self, body_id):
        return [b for b in self.raw['bodies'] if b['kind'] == 'closure' and b['meta'].get('parent_fn') == self.bodies[body_id]['meta'].get('path')]


def place_str(p):
    s = '_%d' % p['l']
    for e in p['proj']:
        k = e['k']
        if k == 'deref':
            s = '(*%s)' % s
        elif k == 'field':
            s = '%s.%s' % (s, e['name'])
        elif k == 'downcast':
            s = '(%s as %s)' % (s, e['variant'])
        else:
            s = '%s[%s]' % (s, k)
    return s


def loc(span):
    """file:line of a span string file:line:col"""
    if not span:
        return '?'
    parts = span.rsplit(':', 2)
    return '%s:%s' % (parts[0], parts[1]) if len(parts) == 3 else span


# ---- drop glue -------------------------------------------------------------------------------------------------------
def _split_top(s, sep=','):
    out, depth, cur = [], 0, ''
    for ch in s:
        if ch in '<([':
            depth += 1
        elif ch in '>)]':
            depth -= 1
        if ch == sep and depth == 0:
            out.append(cur)
            cur = ''
        else:
            cur += ch
    if cur.strip():
        out.append(cur)
    return [x.strip() for x in out]


def owned_types(ty):
    """nominal types (path, [type args]) a value of the printed type `ty` owns by value, i.e. whose destructor runs when
    the value is dropped: references, raw pointers, PhantomData, ManuallyDrop, fn pointers and dyn objects own nothing
    the crate can see"""
    ty = ty.strip()
    if not ty or ty[0] in '&*' or ty.startswith('fn(') or ty.startswith('dyn ') or ty.startswith('unsafe fn') or ty.startswith('extern '):
        return []
    if ty[0] == '(' and ty.endswith(')'):
        return [x for part in _split_top(ty[1:-1]) for x in owned_types(part)]
    if ty[0] == '[' and ty.endswith(']'):
        return owned_types(_split_top(ty[1:-1], ';')[0])
    lt = ty.find('<')
    if ty.startswith('<'):          # qualified path / projection: opaque
        return []
    if lt < 0:
        return [(ty, [])]
    head, rest = ty[:lt], ty[lt + 1:ty.rfind('>')]
    if head.endswith('PhantomData') or head.endswith('ManuallyDrop') or head.endswith('NonNull') or head.endswith('MaybeUninit'):
        return []
    args = [a for a in _split_top(rest) if a and not a.startswith("'")]
    out = [(head, args)]
    for a in args:
        out += owned_types(a)
    return out


def drop_glue_bodies(db, ty, _seen=None):
    """ids of the crate's Drop::drop bodies that run when a value of printed type `ty` is dropped (the type's own Drop impl,
    then the glue of its fields, recursively through crate ADTs and through the type arguments of foreign generics)"""
    seen = _seen if _seen is not None else set()
    out = []
    for head, args in owned_types(ty):
        a = db.adt.get(head)
        if a is None or head in seen:
            continue
        seen.add(head)
        for b in db.raw['bodies']:
            m = b.get('meta') or {}
            if b['kind'] == 'assoc_fn' and m.get('impl_adt') == head and (m.get('impl_trait') or '').endswith('ops::drop::Drop'):
                out.append(b['id'])
        for f in a['fields']:
            out += drop_glue_bodies(db, f['ty'], seen)
    return out
