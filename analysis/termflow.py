"""TermFlow: forward abstract interpretation of bumpscan MIR with symbolic terms and must-facts.

See DESIGN.md section 3.  One pass per body in reverse post-order; loop headers are widened in one
step (every local assigned in the loop and, if the loop writes memory, the whole memory become
fresh opaque values); crate-local callees and closures are inlined (context-sensitive, depth-limited);
a fixed table of std functions has term semantics; everything else is an opaque call that havocs
memory.  The analysis can therefore only *fail to prove*, never prove something false, relative to
the lemma library in prover.py and the modelling assumptions listed there.
"""
import itertools, re
from . import cfg as cfgm
from .terms import *

MAX_DEPTH = 10


class State:
    __slots__ = ('env', 'mem', 'facts', 'epoch')

    def __init__(self):
        self.env = {}
        self.mem = {}
        self.facts = set()
        self.epoch = 0

    def copy(self):
        s = State()
        s.env = dict(self.env)
        s.mem = dict(self.mem)
        s.facts = set(self.facts)
        s.epoch = self.epoch
        return s


class Event:
    __slots__ = ('kind', 'fn', 'stack', 'block', 'span', 'lv', 'val', 'callee', 'args', 'state', 'extra', 'ret', 'own')

    def __init__(self, kind, fn, stack, block, span, state, lv=None, val=None, callee=None, args=None, extra=None):
        self.kind = kind
        self.fn = fn
        self.stack = stack
        self.block = block
        self.span = span
        self.lv = lv
        self.val = val
        self.callee = callee
        self.args = args
        self.state = state
        self.extra = extra or {}
        self.ret = None
        self.own = None

    def is_own(self):
        """the event belongs to the function under analysis: it happens in its own frame, or (fallback, decided by
        Interp.mark_own) inside a private helper / closure it was extracted into and nothing of the same kind and callee
        happens in the function's own frame"""
        return self.own if self.own is not None else len(self.stack) == 1

    def top_block(self):
        """block of the entry function in which the event (or the inlined call containing it) sits"""
        return self.block if len(self.stack) == 1 else self.stack[1][1]

    def __repr__(self):
        return 'Event(%s %s %s %s)' % (self.kind, self.fn, self.span, self.callee or show_lv(self.lv) if self.lv else '')


# method spellings of the raw-pointer primitives are reported under the name of the free function they are defined as
CALLEE_ALIAS = {
    'core::ptr::const_ptr::<impl *const T>::read': 'core::ptr::read',
    'core::ptr::mut_ptr::<impl *mut T>::read': 'core::ptr::read',
    'core::ptr::non_null::NonNull::<T>::read': 'core::ptr::read',
    'core::ptr::mut_ptr::<impl *mut T>::write': 'core::ptr::write',
    'core::ptr::non_null::NonNull::<T>::write': 'core::ptr::write',
    'core::ptr::mut_ptr::<impl *mut T>::drop_in_place': 'core::ptr::drop_in_place',
    'core::ptr::non_null::NonNull::<T>::drop_in_place': 'core::ptr::drop_in_place',
    'core::ptr::mut_ptr::<impl *mut T>::write_bytes': 'core::ptr::write_bytes',
}


class Result:
    def __init__(self):
        self.events = []
        self.ret = None
        self.ret_state = None
        self.returns = []      # (block, state, value) of the entry frame
        self.diverged = []
        self.notes = []
        self.loops = {}        # (body id, header block) -> {'fid', 'init', 'sym', 'init_mem', 'step', 'step_mem', 'epoch'}


def root_of(lv):
    while lv[0] in ('fld', 'variant', 'idx'):
        lv = lv[1]
    return lv


def lv_prefix(a, b):
    """a is a prefix of (or equal to) b"""
    while True:
        if a == b:
            return True
        if b[0] in ('fld', 'variant', 'idx'):
            b = b[1]
        else:
            return False


def last_field(lv):
    while lv[0] in ('variant', 'idx'):
        lv = lv[1]
    return lv[2] if lv[0] == 'fld' else None


class Interp:
    def __init__(self, db, inline=True, no_inline=(), opaque_calls=(), record_all_calls=True, refute_panic_edges=False):
        """db: analysis.facts.Facts"""
        self.db = db
        self.bodies = db.bodies
        self.counter = itertools.count(1)
        self.phi_facts = {}       # pid-prefix (frame, block) -> {pred: frozenset(facts)}
        self.range_ends = {}      # result term of a Range::next call -> the range's `end` when it was called
        self.range_local_end = {} # (frame, local) of a `for i in s..e` iterator -> (blocks of its loop, e)
        self.discr_tables = {}
        self.inline = inline
        self.refute_panic_edges = refute_panic_edges
        self.no_inline = set(no_inline)
        self.opaque_calls = set(opaque_calls)
        self.res = None
        self._cfgs = {}
        self._stack = []
        self.tsub = {}            # frame -> {generic parameter name of the inlined body: caller's type / const argument}
        self._tsub_pat = {}
        self.clos_sub = {}        # closure body id -> substitution of the frame that created the closure value
        self._fid = None          # frame whose statement is being interpreted (for size_of / align_of)
        self.adt_layout = {a['path']: a['layout'] for a in db.adts if a.get('layout')}
        from . import stdmodel
        self.std = stdmodel.TABLE

    # ------------------------------------------------------------------ helpers
    def fresh(self, desc=''):
        return ('opaque', next(self.counter), desc)

    def new_epoch(self, st):
        st.epoch = next(self.counter)

    def cfg(self, body):
        c = self._cfgs.get(body['id'])
        if c is None:
            c = cfgm.CFG(body)
            self._cfgs[body['id']] = c
        return c

    def havoc(self, st, why=''):
        """forget all memory reachable through pointers (not bare locals)"""
        for k in list(st.mem):
            st.mem.pop(k, None)
        self.new_epoch(st)

    def event(self, kind, st, fid, bi, span, **kw):
        fn = fid[-1][0] if fid else '?'
        ev = Event(kind, fn, tuple(fid), bi, span, st.copy(), **kw)
        self.res.events.append(ev)
        return ev

    # ------------------------------------------------------------------ places
    def lv(self, st, fid, p):
        cur = ('local', fid, p['l'])
        for e in p['proj']:
            k = e['k']
            if k == 'deref':
                v = self.read(st, cur)
                cur = v[1] if v[0] == 'addr' else ('deref', v)
            elif k == 'field':
                cur = ('fld', cur, e['adt'] + '.' + e['name'])
            elif k == 'downcast':
                cur = ('variant', cur, e['variant'])
            elif k == 'index':
                cur = ('idx', cur, self.read(st, ('local', fid, e['l'])))
            else:
                cur = ('idx', cur, ('opaque', 0, e.get('txt', '')))
        return cur

    def read(self, st, lv):
        k = lv[0]
        if k == 'local':
            v = st.env.get((lv[1], lv[2]))
            return v if v is not None else ('undef',)
        if lv in st.mem:
            return st.mem[lv]
        fz = getattr(self, 'frozen', None)
        if fz and lv in fz and ('frozen', lv) in st.facts:
            # a location the caller of the analysis fixed for the run: the marker fact is dropped on every path where it is
            # stored to or user code runs (see write / apply_callable), so a re-read after a loop or an opaque call is the same value
            return fz[lv]
        if k == 'fld':
            base = lv[1]
            if base[0] == 'variant':
                inner = self.read_opt(st, base[1])
                if inner is not None:
                    r = self.project_variant(st, inner, base[2], lv[2].split('.')[-1])
                    if r is not None:
                        return r
            else:
                bv = self.read_opt(st, base)
                if bv is not None:
                    r = self.project(bv, lv[2])
                    if r is not None:
                        return r
        if k == 'variant':
            inner = self.read_opt(st, lv[1])
            if inner is not None:
                return inner
        if k == 'static':
            return ('load', lv, 0)
        v = ('load', lv, st.epoch)
        if root_of(lv)[0] != 'local':
            st.mem[lv] = v
        else:
            # field of a local whose value is not an aggregate: project the value
            bv = self.read(st, lv[1]) if k in ('fld',) else None
            if bv is not None and bv[0] != 'undef':
                r = self.project(bv, lv[2]) if k == 'fld' else None
                if r is not None:
                    return r
                return ('app', 'proj', bv, lv[2] if k == 'fld' else '?')
        return v

    def read_opt(self, st, lv):
        """value of lv if it is held as a whole (local or cached), else None"""
        if lv[0] == 'local':
            return st.env.get((lv[1], lv[2]))
        if lv in st.mem:
            return st.mem[lv]
        if lv[0] == 'fld':
            bv = self.read_opt(st, lv[1])
            if bv is not None:
                return self.project(bv, lv[2])
        return None

    def project(self, v, field):
        """field of a struct-like value"""
        short = field.split('.')[-1]
        if v[0] == 'agg':
            r = field_of(v, short)
            if r is not None:
                return r
            return None
        if v[0] == 'phi':
            alts = []
            for p, x in v[2]:
                r = self.project(x, field)
                if r is None:
                    return None
                alts.append((p, r))
            if all(a[1] == alts[0][1] for a in alts):
                return alts[0][1]
            return ('phi', v[1] + ('.' + short,), tuple(alts))
        if v[0] == 'ite':
            a = self.project(v[2], field)
            b = self.project(v[3], field)
            if a is None or b is None:
                return None
            return ite(v[1], a, b)
        if v[0] in ('undef',):
            return None
        if v[0] == 'load' and len(v) == 3:
            # a field of a struct value that was loaded from memory is the value loaded from that field (same epoch)
            return ('load', ('fld', v[1], field), v[2])
        return ('app', 'proj', v, field)

    def project_variant(self, st, v, variant, field):
        """payload field of enum value v viewed as `variant` (only legal if v is that variant)"""
        if v[0] == 'agg':
            if v[2] == variant:
                r = field_of(v, field)
                return r if r is not None else ('app', 'vproj', v, variant, field)
            return ('never',)
        if v[0] == 'app' and v[1] == 'try_branch':
            x = v[2]
            if variant == 'Continue':
                return self.payload(st, x)
            if variant == 'Break':
                return ('app', 'residual', x)
        if v[0] == 'phi':
            alts = []
            pf = self.phi_facts.get(v[1][:2], {})
            learned = []
            per_alt = {}
            for p, x in v[2]:
                vo = self.static_variant(x)
                if vo is not None and vo != variant:
                    continue
                # what is known on the edge this alternative came in on holds again once the other alternatives are excluded
                sub = State()
                if st is not None:
                    sub.facts = set(st.facts)
                sub.facts |= set(pf.get(p, ()))
                r = self.project_variant(sub, x, variant, field)
                if r == ('never',):
                    continue
                alts.append((p, r))
                learned.append(sub.facts)
                per_alt[p] = frozenset(sub.facts - (set(st.facts) if st is not None else set()))
            if st is not None and learned:
                st.facts |= set.intersection(*learned)
            if not alts:
                return ('never',)
            if all(a[1] == alts[0][1] for a in alts):
                return alts[0][1]
            # the projected value is a phi of its own: each surviving alternative carries the facts of its incoming edge plus
            # what excluding the other variants taught about the phis nested inside it
            nid = (v[1][0], ('proj', v[1][1], variant, field))
            self.phi_facts[nid] = {p: per_alt.get(p, frozenset()) for p, _ in alts}
            return ('phi', nid + (str(v[1][2:]) + '.%s.%s' % (variant, field),), tuple(alts))
        if v[0] == 'ite':
            va, vb = self.static_variant(v[2]), self.static_variant(v[3])
            a = None if (va is not None and va != variant) else self.project_variant(st, v[2], variant, field)
            b = None if (vb is not None and vb != variant) else self.project_variant(st, v[3], variant, field)
            if a == ('never',):
                a = None
            if b == ('never',):
                b = None
            if a is not None and b is None:
                return a
            if b is not None and a is None:
                return b
            if a is not None and b is not None:
                return ite(v[1], a, b)
            return ('never',)
        if v[0] == 'app' and v[1] in ('checked_add', 'checked_sub', 'checked_mul') and variant == 'Some':
            return app(v[1][8:], v[2], v[3])
        if v[0] == 'app' and v[1] == 'layout_result' and variant == 'Ok':
            return ('layout', v[2], v[3])
        if v[0] == 'app' and v[1] == 'nonnull_new' and variant == 'Some':
            return v[2]
        if v[0] == 'app' and v[1] == 'opt_map' and variant == 'Some':
            return v[3]
        return ('app', 'vproj', v, variant, field)

    def payload(self, st, v):
        """payload of a Some/Ok value"""
        sv = self.static_variant(v)
        if sv in ('Some', 'Ok'):
            return self.project_variant(st, v, sv, '0')
        if sv in ('None',):
            return ('never',)
        if v[0] == 'app' and v[1] in ('checked_add', 'checked_sub', 'checked_mul', 'nonnull_new', 'opt_map'):
            return self.project_variant(st, v, 'Some', '0')
        if v[0] == 'app' and v[1] == 'layout_result':
            return ('layout', v[2], v[3])
        if v[0] in ('phi', 'ite'):
            kinds = self.variants_in(v)
            for var in ('Some', 'Ok'):
                if var in kinds:
                    return self.project_variant(st, v, var, '0')
            if kinds and not (kinds & {'Some', 'Ok'}) and None not in kinds:
                return ('never',)
        return ('app', 'payload', v)

    def variants_in(self, v, depth=0):
        """set of statically known variant names among the alternatives of v (None = unknown alt)"""
        if depth > 6:
            return {None}
        if v[0] == 'phi':
            out = set()
            for _, x in v[2]:
                out |= self.variants_in(x, depth + 1)
            return out
        if v[0] == 'ite':
            return self.variants_in(v[2], depth + 1) | self.variants_in(v[3], depth + 1)
        return {self.static_variant(v)}

    def static_variant(self, v):
        if v[0] == 'agg':
            return v[2]
        return None

    def write(self, st, lv, val):
        if getattr(self, 'frozen', None) and root_of(lv)[0] != 'local':
            st.facts -= {f for f in st.facts if f[0] == 'frozen' and (lv_prefix(lv, f[1]) or lv_prefix(f[1], lv) or lv[0] != 'fld' or f[1][0] != 'fld' or lv[2] == f[1][2])}
        if lv[0] == 'local':
            st.env[(lv[1], lv[2])] = val
            for k in [k for k in st.mem if lv_prefix(lv, k) and k != lv]:
                del st.mem[k]
            return
        root = root_of(lv)
        if root[0] == 'local':
            # field write into a local: update the aggregate functionally when possible
            for k in [k for k in st.mem if (lv_prefix(lv, k) or lv_prefix(k, lv)) and k != lv]:
                del st.mem[k]
            if lv[0] == 'fld' and lv[1][0] == 'local':
                cur = st.env.get((lv[1][1], lv[1][2]))
                short = lv[2].split('.')[-1]
                if cur is not None and cur[0] == 'agg' and field_of(cur, short) is not None:
                    st.env[(lv[1][1], lv[1][2])] = agg(cur[1], cur[2], tuple((f, val if f == short else x) for f, x in cur[3]))
                    return
            st.mem[lv] = val
            return
        # store through a pointer: type-based invalidation
        lf = last_field(lv)
        addr_loads = {t[1] for t in subterms(lv) if isinstance(t, tuple) and t and t[0] == 'load'}
        for k in list(st.mem):
            if k == lv:
                continue
            kr = root_of(k)
            if kr[0] == 'local':
                continue
            if k in addr_loads:
                continue      # the location a pointer was loaded from is not the location it points to
            if self.distinct_captures(lv, k):
                continue      # two different captures of one closure are distinct borrows
            if k[0] == 'fld' and k[2].startswith('closure:') and lv[0] == 'deref':
                continue      # a store through a captured reference does not rewrite the closure environment itself
            if lv_prefix(lv, k) or lv_prefix(k, lv):
                del st.mem[k]
                continue
            kf = last_field(k)
            if lf is None or kf is None or lf == kf:
                del st.mem[k]
        st.mem[lv] = val
        self.new_epoch(st)
        st.mem[lv] = val

    @staticmethod
    def distinct_captures(a, b):
        def cap(lv):
            # *(load (env).closure:X.upvarK)
            if lv[0] == 'deref' and lv[1][0] == 'load' and lv[1][1][0] == 'fld' and lv[1][1][2].startswith('closure:'):
                return lv[1][1][1], lv[1][1][2]
            return None
        ca, cb = cap(a), cap(root_of(b) if b[0] != 'deref' else b)
        return ca is not None and cb is not None and ca[0] == cb[0] and ca[1] != cb[1]

    # ------------------------------------------------------------------ operands / rvalues
    def const(self, st, fid, o):
        if o.get('param'):
            m = self.tsub.get(fid)
            if m and o['param'] in m:
                v = m[o['param']]
                if re.fullmatch(r'\d+', v):
                    return C(int(v))
                if re.fullmatch(r'[A-Za-z_]\w*', v):
                    return sym(v)
            return sym(o['param'])
        if o.get('promoted') is not None and o.get('val') is None:
            body_id = fid[-1][0]
            pid = '%s::promoted[%d]' % (self.parent_fn_id(body_id), o['promoted'])
            pb = self.bodies.get(pid)
            if pb is not None:
                if self.tsub.get(fid):
                    self.tsub[fid + ((pid, -1),)] = self.tsub[fid]
                out, ret = self.run_body(pb, fid + ((pid, -1),), st, [], keep_frame=True)
                if out is not None:
                    st.env.update(out.env)
                    st.mem.update({k: v for k, v in out.mem.items() if root_of(k)[0] == 'local'})
                    return ret
            return self.fresh('promoted')
        if o.get('fn'):
            return ('fn', o['fn'])
        if o.get('static'):
            lv = ('static', o['static'])
            return ('addr', lv)
        cv = cfgm.const_val(o)
        if cv is not None:
            if o.get('ty') == 'bool':
                return TRUE if cv else FALSE
            return C(cv)
        if o.get('name'):
            return sym(o['name'].split('::')[-1])
        ty = o.get('ty', '')
        if o.get('val') is None:
            # zero-sized constants (unit structs, PhantomData, fn items ...)
            return agg(ty, '', ())
        return self.fresh('const:' + ty)

    def parent_fn_id(self, body_id):
        return body_id.split('::promoted[')[0]

    def op(self, st, fid, o):
        k = o['k']
        if k in ('copy', 'move'):
            return self.read(st, self.lv(st, fid, o['place']))
        if k == 'const':
            return self.const(st, fid, o)
        return self.fresh('op')

    _BIN = {'Add': 'add', 'Sub': 'wsub', 'AddUnchecked': 'add', 'SubUnchecked': 'sub', 'Mul': 'mul', 'MulUnchecked': 'mul',
            'Div': 'div', 'Rem': 'rem', 'BitAnd': 'and', 'BitOr': 'or', 'BitXor': 'xor', 'Shl': 'shl', 'Shr': 'shr',
            'ShlUnchecked': 'shl', 'ShrUnchecked': 'shr'}

    def rvalue(self, st, fid, rv):
        k = rv['k']
        if k == 'use':
            return self.op(st, fid, rv['o'])
        if k in ('ref', 'rawptr'):
            lvp = self.lv(st, fid, rv['place'])
            if lvp[0] == 'deref':
                return lvp[1]          # &*p == p (address identity)
            return ('addr', lvp)
        if k == 'cast':
            v = self.op(st, fid, rv['o'])
            kind = rv.get('kind', '')
            if kind.startswith('IntToInt'):
                ft, tt = rv.get('from', ''), rv.get('ty', '')
                wide = {'usize': 64, 'u64': 64, 'isize': 64, 'i64': 64, 'u32': 32, 'i32': 32, 'u16': 16, 'i16': 16, 'u8': 8, 'i8': 8, 'u128': 128, 'i128': 128, 'bool': 1, 'char': 32}
                if wide.get(tt, 64) < wide.get(ft, 64):
                    return ('app', 'trunc', v, tt)
            return v
        if k == 'bin':
            l = self.op(st, fid, rv['l'])
            r = self.op(st, fid, rv['r'])
            o = rv['op']
            if o in self._BIN:
                if l[0] == 'cmp' or r[0] == 'cmp' or l[0] == 'not' or r[0] == 'not':
                    return ('app', 'b' + self._BIN[o], l, r)
                return app(self._BIN[o], l, r)
            if o in ('Lt', 'Le', 'Gt', 'Ge', 'Eq', 'Ne'):
                return cmp(o, l, r)
            if o == 'Offset':
                esz = self.pointee_size(rv.get('lty', ''))
                return app('add', l, app('mul', r, esz))
            if o == 'Cmp':
                return ('ordcmp', l, r)
            if o.endswith('WithOverflow'):
                base = self._BIN.get(o[:-12], o)
                return agg('tuple', '', (('0', app(base, l, r)), ('1', ('app', 'overflowed', base, l, r))))
            return ('app', o, l, r)
        if k == 'un':
            v = self.op(st, fid, rv['o'])
            o = rv['op']
            if o == 'Not':
                if v[0] in ('cmp', 'not') or (is_c(v) and v[1] in (0, 1) and rv['o'].get('ty') == 'bool') or self.is_bool(v):
                    return neg(v)
                return app('not', v)
            if o == 'PtrMetadata':
                return app('len', v)
            return ('app', o, v)
        if k == 'discr':
            v = self.read(st, self.lv(st, fid, rv['place']))
            if rv.get('variants'):
                self.discr_tables[rv['ety']] = (rv['variants'], rv.get('dvals') or list(range(len(rv['variants']))))
            return ('discr', v, rv.get('ety', '?'))
        if k == 'agg':
            fs = [self.op(st, fid, f) for f in rv['fields']]
            a = rv['agg']
            if a == 'adt':
                vn, vi, fnames = (rv['variant'].split('#') + ['', ''])[:3]
                names = fnames.split('|') if fnames else []
                short = rv['name']
                if short == 'core::option::Option':
                    short = 'Option'
                elif short == 'core::result::Result':
                    short = 'Result'
                elif short == 'core::ops::control_flow::ControlFlow':
                    short = 'ControlFlow'
                return agg(short, vn, tuple((names[i] if i < len(names) else str(i), f) for i, f in enumerate(fs)))
            if a == 'closure':
                if self.tsub.get(fid):
                    self.clos_sub[rv['name']] = self.tsub[fid]
                return agg('closure:' + rv['name'], '', tuple(('upvar%d' % i, f) for i, f in enumerate(fs)))
            if a == 'tuple':
                if not fs:
                    return UNIT
                return agg('tuple', '', tuple((str(i), f) for i, f in enumerate(fs)))
            if a == 'rawptr':
                return agg('rawptr', '', (('data', fs[0]), ('meta', fs[1] if len(fs) > 1 else UNIT)))
            return agg(a, '', tuple((str(i), f) for i, f in enumerate(fs)))
        return self.fresh('rv:' + rv.get('txt', k)[:30])

    def is_bool(self, v):
        if v[0] in ('cmp', 'not'):
            return True
        if v[0] == 'phi':
            return all(self.is_bool(x) or (is_c(x) and x[1] in (0, 1)) for _, x in v[2])
        if v[0] == 'ite':
            return self.is_bool(v[2]) or self.is_bool(v[3])
        return False

    def pointee_size(self, pty):
        t = pty.strip()
        for pre in ('*mut ', '*const '):
            if t.startswith(pre):
                t = t[len(pre):]
        return self.size_of(t)

    def subst_ty(self, t, fid=None):
        """type string of the frame being interpreted, in the entry function's generic parameters"""
        m = self.tsub.get(self._fid if fid is None else fid)
        if not m or not t:
            return t
        pat = self._tsub_pat.get(id(m))
        if pat is None:
            pat = re.compile(r'(?<![\w:\'])(' + '|'.join(re.escape(k) for k in sorted(m, key=len, reverse=True)) + r')(?![\w:])')
            self._tsub_pat[id(m)] = pat
        return pat.sub(lambda mo: m[mo.group(1)], t)

    def size_of(self, t):
        t = self.subst_ty(t)
        prim = {'u8': 1, 'i8': 1, 'bool': 1, 'u16': 2, 'i16': 2, 'u32': 4, 'i32': 4, 'char': 4, 'u64': 8, 'i64': 8, 'usize': 8, 'isize': 8, 'u128': 16, 'i128': 16, '()': 0,
                'std::mem::MaybeUninit<u8>': 1, 'core::mem::MaybeUninit<u8>': 1}
        if t in prim:
            return C(prim[t])
        lay = self.adt_layout.get(t)
        if lay:
            return C(lay['size'])
        if t.startswith('*') or t.startswith('&') or t.startswith('std::ptr::NonNull<') or t.startswith('core::ptr::NonNull<'):
            return C(8) if '[' not in t and 'dyn ' not in t and 'str' != t.split(' ')[-1] else C(16)
        return sym('sizeof(%s)' % t)

    def align_of(self, t):
        t = self.subst_ty(t)
        prim = {'u8': 1, 'i8': 1, 'bool': 1, 'u16': 2, 'i16': 2, 'u32': 4, 'i32': 4, 'char': 4, 'u64': 8, 'i64': 8, 'usize': 8, 'isize': 8, 'u128': 16, 'i128': 16, '()': 1}
        if t in prim:
            return C(prim[t])
        lay = self.adt_layout.get(t)
        if lay:
            return C(lay['align'])
        return sym('alignof(%s)' % t)

    # ------------------------------------------------------------------ branch refinement
    def truth(self, st, t, pol, depth=0):
        """facts implied by boolean term t having truth value pol (True/False)"""
        out = set()
        if depth > 6:
            return out
        if is_c(t):
            if bool(t[1]) != pol:
                out.add(('false',))   # infeasible
            return out
        if t[0] == 'not':
            return self.truth(st, t[1], not pol, depth + 1)
        if t[0] == 'cmp':
            tt = t if pol else neg(t)
            if is_c(tt):
                if not tt[1]:
                    out.add(('false',))
                return out
            out.add((tt[1], tt[2], tt[3]))
            if tt[1] == 'eq':
                # comparing addresses of two references: ptr::eq(a, b)
                pass
            return out
        if t[0] == 'app' and t[1] in ('is_some', 'is_ok') and len(t) == 3:
            names = ('Some', 'None') if t[1] == 'is_some' else ('Ok', 'Err')
            out |= self.variant_facts(st, t[2], {names[0] if pol else names[1]}, depth + 1)
            out.add(('true' if pol else 'nottrue', t))
            return out
        if t[0] == 'app' and t[1] in ('band', 'and') and pol:
            out |= self.truth(st, t[2], True, depth + 1)
            out |= self.truth(st, t[3], True, depth + 1)
            return out
        if t[0] == 'app' and t[1] in ('bor', 'or') and not pol:
            out |= self.truth(st, t[2], False, depth + 1)
            out |= self.truth(st, t[3], False, depth + 1)
            return out
        if t[0] == 'phi':
            feas = []
            for p, x in t[2]:
                if is_c(x) and bool(x[1]) != pol:
                    continue
                feas.append((p, x))
            pf = self.phi_facts.get(t[1][:2], {})
            sets = []
            for p, x in feas:
                s = set(pf.get(p, ()))
                s |= self.truth(st, x, pol, depth + 1)
                if ('false',) in s:
                    continue
                sets.append(s)
            if not sets:
                out.add(('false',))
            else:
                out |= set.intersection(*sets)
            out.add(('true' if pol else 'nottrue', t))
            return out
        if t[0] == 'ite':
            a = self.truth(st, t[2], pol, depth + 1)
            b = self.truth(st, t[3], pol, depth + 1)
            ca = self.truth(st, t[1], True, depth + 1)
            cb = self.truth(st, t[1], False, depth + 1)
            fa = ('false',) in a
            fb = ('false',) in b
            if fa and not fb:
                out |= b | cb
            elif fb and not fa:
                out |= a | ca
            elif not fa and not fb:
                out |= (a | ca) & (b | cb)
            else:
                out.add(('false',))
        out.add(('true' if pol else 'nottrue', t))
        return out

    def variant_facts(self, st, v, names, depth=0):
        """facts implied by enum value v being one of the variants `names` (a set)"""
        out = set()
        if depth > 6:
            return out
        sv = self.static_variant(v)
        if sv is not None:
            if sv not in names:
                out.add(('false',))
            return out
        if len(names) == 1:
            n = next(iter(names))
            out.add(('is', v, n))
            if v[0] == 'ordcmp':
                a, b = v[1], v[2]
                if n == 'Less':
                    out.add(('lt', a, b))
                elif n == 'Equal':
                    out.add(('eq',) + tuple(sorted((a, b), key=repr)))
                elif n == 'Greater':
                    out.add(('lt', b, a))
            if v[0] == 'app' and v[1] == 'try_branch':
                kind = v[3]
                good = 'Some' if kind == 'Option' else 'Ok'
                bad = 'None' if kind == 'Option' else 'Err'
                out |= self.variant_facts(st, v[2], {good} if n == 'Continue' else {bad}, depth + 1)
            if v[0] == 'app' and v[1] == 'checked_add' and n == 'Some':
                out.add(('nooverflow', 'add', v[2], v[3]))
            if v[0] == 'app' and v[1] == 'checked_sub' and len(v) == 4:
                # a.checked_sub(b) is None exactly when a < b
                out.add(('le', v[3], v[2]) if n == 'Some' else ('lt', v[2], v[3]))
            if v[0] == 'app' and v[1] == 'checked_mul' and n == 'Some':
                out.add(('nooverflow', 'mul', v[2], v[3]))
            if v[0] == 'app' and v[1] == 'nonnull_new':
                out.add(('ne', C(0), v[2]) if n == 'Some' else ('eq', C(0), v[2]))
            if v[0] == 'call' and n == 'Some' and v in self.range_ends:
                out.add(('lt', ('app', 'vproj', v, 'Some', '0'), self.range_ends[v]))
            if v[0] == 'app' and v[1] == 'opt_map':
                out |= self.variant_facts(st, v[2], {n}, depth + 1)
        else:
            if v[0] == 'ordcmp':
                a, b = v[1], v[2]
                if names == {'Less', 'Equal'}:
                    out.add(('le', a, b))
                elif names == {'Greater', 'Equal'}:
                    out.add(('le', b, a))
                elif names == {'Less', 'Greater'}:
                    out.add(('ne',) + tuple(sorted((a, b), key=repr)))
        if v[0] == 'phi':
            pf = self.phi_facts.get(v[1][:2], {})
            sets = []
            for p, x in v[2]:
                s = self.variant_facts(st, x, names, depth + 1)
                if ('false',) in s:
                    continue
                sets.append(set(pf.get(p, ())) | s)
            if not sets:
                out.add(('false',))
            else:
                out |= set.intersection(*sets)
        if v[0] == 'ite':
            a = self.variant_facts(st, v[2], names, depth + 1)
            b = self.variant_facts(st, v[3], names, depth + 1)
            fa, fb = ('false',) in a, ('false',) in b
            if fa and not fb:
                out |= b | self.truth(st, v[1], False)
            elif fb and not fa:
                out |= a | self.truth(st, v[1], True)
            elif fa and fb:
                out.add(('false',))
        return out

    def switch_facts(self, st, d, dty, value, excluded):
        """facts for taking the edge with `value` (or the otherwise edge when value is None;
        excluded = explicit values not taken)"""
        if d[0] == 'discr':
            v, ety = d[1], d[2]
            tab = self.discr_tables.get(ety)
            if tab:
                names, dvals = tab
                byval = {}
                for n, dv in zip(names, dvals):
                    byval[int(dv)] = n
                    byval[int(dv) & 0xff] = n
                if value is not None:
                    n = byval.get(value)
                    if n is not None:
                        return self.variant_facts(st, v, {n})
                else:
                    rest = set(names) - {byval.get(x) for x in excluded}
                    if rest:
                        return self.variant_facts(st, v, rest)
            return set()
        if dty == 'bool' or self.is_bool(d):
            if value is not None:
                return self.truth(st, d, value != 0)
            if excluded == [0] or set(excluded) == {0}:
                return self.truth(st, d, True)
            if set(excluded) == {1}:
                return self.truth(st, d, False)
            return set()
        # integer switch
        if value is not None:
            c = cmp('eq', d, C(value))
            if is_c(c):
                return set() if c[1] else {('false',)}
            return {(c[1], c[2], c[3])}
        out = set()
        for x in excluded:
            c = cmp('ne', d, C(x))
            if is_c(c):
                if not c[1]:
                    return {('false',)}
            else:
                out.add((c[1], c[2], c[3]))
        return out

    # ------------------------------------------------------------------ joins
    def join(self, fid, bi, ins):
        """ins: list of (pred_key, State)"""
        if len(ins) == 1:
            return ins[0][1].copy()
        st = State()
        keys = set(ins[0][1].env)
        for _, s in ins[1:]:
            keys &= set(s.env)
        for k in keys:
            vals = [(p, s.env[k]) for p, s in ins]
            v0 = vals[0][1]
            if all(v == v0 for _, v in vals):
                st.env[k] = v0
            else:
                st.env[k] = ('phi', (fid, bi, k[1] if k[0] == fid else k), tuple(vals))
        mk = set(ins[0][1].mem)
        for _, s in ins[1:]:
            mk &= set(s.mem)
        # a field of a *local* written on some paths only must not silently revert to the value the
        # local's aggregate had before: give the other paths the value a read would see there
        partial = set()
        for _, s in ins:
            for k in s.mem:
                lf = last_field(k) or ''
                if lf.startswith('ChunkFooter.') or lf.startswith('Bump.'):
                    continue    # arena state is re-read under the chunk invariant J (assume/guarantee), not tracked across merges
                if k not in mk and (root_of(k)[0] == 'local' or not (isinstance(s.mem[k], tuple) and s.mem[k][0] == 'load' and s.mem[k][1] == k)):
                    # (pointer-rooted locations that only hold their own cached load are simply re-read later)
                    partial.add(k)
        for k in partial:
            for _, s in ins:
                if k not in s.mem:
                    s.mem[k] = self.read(s, k)
            mk.add(k)
        same_epoch = all(s.epoch == ins[0][1].epoch for _, s in ins)
        for k in mk:
            vals = [(p, s.mem[k]) for p, s in ins]
            v0 = vals[0][1]
            if all(v == v0 for _, v in vals):
                st.mem[k] = v0
            else:
                st.mem[k] = ('phi', (fid, bi, ('mem', k)), tuple(vals))
        if not same_epoch:
            # locations not cached in every predecessor are dropped (fresh loads later)
            st.epoch = next(self.counter)
        else:
            st.epoch = ins[0][1].epoch
            # a location cached only on some paths but same epoch: its load term is the same value
        st.facts = set(ins[0][1].facts)
        for _, s in ins[1:]:
            st.facts &= s.facts
        self.phi_facts[(fid, bi)] = {p: frozenset(s.facts) for p, s in ins}
        return st

    # ------------------------------------------------------------------ bodies
    def run_entry(self, body_id, args=None, state=None):
        self.res = Result()
        body = self.bodies[body_id]
        fid = ((body_id, 0),)
        st = state or State()
        if args is None:
            args = [('param', i) for i in range(1, body['argc'] + 1)]
        out, ret = self.run_body(body, fid, st, args, entry=True)
        self.res.ret = ret
        self.res.ret_state = out
        self.mark_own(self.res)
        return self.res

    def is_private_helper(self, body_id):
        b = self.bodies.get(body_id)
        if b is None:
            return False
        if b['kind'] == 'closure':
            return True
        m = b.get('meta') or {}
        return b['kind'] in ('fn', 'assoc_fn') and not m.get('pub') and not m.get('impl_trait')

    def exclusive_helper(self, body_id, entry_id, _seen=None):
        """a private function all of whose call sites sit in the entry function (or in helpers exclusive to it): code that was
        merely extracted from the entry function"""
        key = (body_id, entry_id)
        memo = getattr(self, '_excl', None)
        if memo is None:
            memo = self._excl = {}
        if key in memo:
            return memo[key]
        memo[key] = False
        b = self.bodies.get(body_id)
        okv = False
        if b is not None and self.is_private_helper(body_id):
            if b['kind'] == 'closure':
                # a closure is a piece of the function it is written in
                pf = (b.get('meta') or {}).get('parent_fn')
                pb = self.db.by_path.get(pf) if pf else None
                pid = pb['id'] if pb is not None else None
                if pid is None:
                    # fall back on the id prefix `<parent>::{closure#n}`
                    pid = body_id.split('::{closure')[0]
                okv = pid == entry_id or (pid != body_id and pid in self.bodies and self.exclusive_helper(pid, entry_id))
            else:
                path = (b.get('meta') or {}).get('path') or body_id
                callers = {cb['id'] for cb, bi, t in self.db.callers_of(path)} | {cb['id'] for cb, bi, t in self.db.callers_of(body_id)}
                okv = bool(callers) and all(c == entry_id or c.startswith(entry_id + '::{closure') or (c != body_id and self.exclusive_helper(c, entry_id)) for c in callers)
        memo[key] = okv
        return okv

    def mark_own(self, res):
        present = {(e.kind, e.callee) for e in res.events if len(e.stack) == 1}
        entry_id = res.events[0].stack[0][0] if res.events else None
        for e in res.events:
            if len(e.stack) == 1:
                e.own = True
            elif all(self.is_private_helper(f[0]) for f in e.stack[1:]) and ((e.kind, e.callee) not in present or all(self.exclusive_helper(f[0], entry_id) for f in e.stack[1:])):
                e.own = True
            else:
                e.own = False

    def run_body(self, body, fid, st, args, entry=False, keep_frame=False):
        prev = self._fid
        try:
            return self._run_body(body, fid, st, args, entry, keep_frame)
        finally:
            self._fid = prev

    def _run_body(self, body, fid, st, args, entry=False, keep_frame=False):
        # A loop-carried local that every back edge leaves at its initial value (`let mut found = None; loop { .. if
        # found.is_some() { break } }`) is not loop-variant: the body is re-run with that local kept at its initial value.
        inv = getattr(self, '_loop_inv', None)
        if inv is None:
            inv = self._loop_inv = {}
        for attempt in range(3):
            st0 = st.copy()
            nev, ndiv = len(self.res.events), len(self.res.diverged)
            r = self._run_body_once(body, fid, st0, args, entry, keep_frame)
            new = False
            for (bid, h), rec in self.res.loops.items():
                if bid != body['id'] or rec['fid'] != fid or not rec['step']:
                    continue
                for l, symv in rec['sym'].items():
                    if (fid, h, l) in inv:
                        continue
                    init = rec['init'].get(l)
                    if init is None or init[0] == 'undef':
                        continue
                    none_like = init[0] == 'agg' and not init[3] and init[2]
                    # a struct local whose fields are updated in place lives in mem, not env: it is loop-variant
                    if any(root_of(k) == ('local', fid, l) for s in rec['step'] for k in s['mem']) or any(root_of(k) == ('local', fid, l) for k in rec['init_mem']):
                        continue
                    if all(s['env'].get(l) == symv or s['env'].get(l) == init or
                           (none_like and s['env'].get(l) is not None and ('is', s['env'].get(l), init[2]) in s['facts']) for s in rec['step']):
                        inv[(fid, h, l)] = init
                        new = True
            if not new or attempt == 2:
                if entry:
                    # the caller keeps using the state object it passed in
                    st.env, st.mem, st.facts, st.epoch = st0.env, st0.mem, st0.facts, st0.epoch
                return r
            del self.res.events[nev:]
            del self.res.diverged[ndiv:]

    def _run_body_once(self, body, fid, st, args, entry=False, keep_frame=False):
        self._fid = fid
        g = self.cfg(body)
        loops = g.loops()
        back = set(g.back_edges())
        st = st.copy() if not entry else st
        for i, a in enumerate(args):
            st.env[(fid, i + 1)] = a
        order = g.rpo()
        edge = {}
        returns = []
        blocks = body['blocks']
        assigned_cache = {}
        for bi in order:
            if bi == 0:
                cur = st
            else:
                ins = [(p, edge[(p, bi)]) for p in g.pred[bi] if (p, bi) in edge and (p, bi) not in back]
                if not ins:
                    continue
                cur = self.join(fid, bi, ins)
            if bi in loops:
                self.widen(cur, fid, body, loops[bi], bi)
            self._fid = fid
            blk = blocks[bi]
            dead = False
            for si, s in enumerate(blk['stmts']):
                if s['k'] == 'assign':
                    v = self.rvalue(cur, fid, s['rv'])
                    lvp = self.lv(cur, fid, s['place'])
                    if root_of(lvp)[0] != 'local':
                        self.event('store', cur, fid, bi, s.get('span'), lv=lvp, val=v, extra={'via': 'assign', 'exp': s.get('exp')})
                    elif lvp[0] == 'fld':
                        # field of a local struct (e.g. a drop guard's cursor): visible to typestate rules only
                        self.event('lstore', cur, fid, bi, s.get('span'), lv=lvp, val=v, extra={'via': 'assign', 'exp': s.get('exp')})
                    self.write(cur, lvp, v)
                elif s['k'] == 'intrinsic':
                    pass
            t = blk['term']
            k = t['k']
            if k == 'goto':
                edge[(bi, t['t'])] = cur
            elif k == 'switch':
                self.do_switch(cur, fid, bi, t, g, edge)
            elif k == 'call':
                v = self.do_call(cur, fid, bi, t)
                if t['t'] is not None and v != ('never',):
                    lvp = self.lv(cur, fid, t['dest'])
                    self.write(cur, lvp, v)
                    edge[(bi, t['t'])] = cur
                else:
                    self.res.diverged.append((fid, bi))
            elif k == 'drop':
                if t.get('needs_drop'):
                    self.event('drop', cur, fid, bi, t.get('span'), lv=self.lv(cur, fid, t['place']), extra={'ty': t.get('ty'), 'has_param': t.get('has_param')})
                    if t.get('has_param') or 'Bump' in (t.get('ty') or '') or 'Vec' in (t.get('ty') or ''):
                        self.havoc(cur, 'drop')
                edge[(bi, t['t'])] = cur
            elif k == 'assert':
                c = self.op(cur, fid, t['cond'])
                ev = self.event('assert', cur, fid, bi, t.get('span'), val=c, extra={'expected': t['expected'], 'msg': t.get('msg')})
                if self.refute_panic_edges:
                    ev.extra['why'] = self.refute(cur, self.truth(cur, c, not bool(t['expected']))) or self.nonnull_check(c, str(t.get('msg') or ''))
                fs = self.truth(cur, c, bool(t['expected']))
                if ('false',) not in fs:
                    cur.facts |= fs
                    edge[(bi, t['t'])] = cur
            elif k == 'return':
                rv = cur.env.get((fid, 0), UNIT)
                returns.append((bi, cur, rv))
        for (p, h) in back:
            rec = self.res.loops.get((body['id'], h))
            if rec is not None and rec['fid'] == fid and (p, h) in edge:
                es = edge[(p, h)]
                rec['step'].append({'pred': p, 'env': {l: es.env.get((fid, l)) for l in rec['sym']},
                                    'mem': {k: v for k, v in es.mem.items() if k in rec['init_mem'] or (root_of(k)[0] == 'local' and root_of(k)[1] == fid and root_of(k)[2] in rec['sym'])},
                                    'facts': set(es.facts)})
        if entry:
            self.res.returns = returns
        if not returns:
            return None, ('never',)
        if len(returns) == 1:
            out, ret = returns[0][1], returns[0][2]
        else:
            out = self.join(fid, 'ret', [(b, s) for b, s, _ in returns])
            vals = [(b, v) for b, _, v in returns]
            if all(v == vals[0][1] for _, v in vals):
                ret = vals[0][1]
            else:
                ret = ('phi', (fid, 'ret', 0), tuple(vals))
        if not keep_frame and not entry:
            for k in [k for k in out.env if k[0] == fid]:
                del out.env[k]
            for k in [k for k in out.mem if root_of(k)[0] == 'local' and root_of(k)[1] == fid]:
                del out.mem[k]
        return out, ret

    @staticmethod
    def _locals_in(j, out):
        if isinstance(j, dict):
            if 'l' in j and 'proj' in j:
                out.append(j['l'])
            for v in j.values():
                Interp._locals_in(v, out)
        elif isinstance(j, list):
            for v in j:
                Interp._locals_in(v, out)

    def _only_range_next(self, body, loop_blocks, l):
        """inside the loop, local l is used only as `tmp = &mut l; Range::next(move tmp)`"""
        from .stdmodel import RANGE_NEXT
        tmps = set()
        for b in loop_blocks:
            for s in body['blocks'][b]['stmts']:
                if s['k'] == 'assign' and s['rv']['k'] in ('ref', 'rawptr') and s['rv']['place']['l'] == l and not s['rv']['place']['proj'] and not s['place']['proj']:
                    tmps.add(s['place']['l'])
        if not tmps:
            return False

        def reborrow(s):
            return s['k'] == 'assign' and s['rv']['k'] in ('ref', 'rawptr') and s['rv']['place']['l'] in tmps and [e['k'] for e in s['rv']['place']['proj']] == ['deref'] and not s['place']['proj']
        for _ in range(3):
            for b in loop_blocks:
                for s in body['blocks'][b]['stmts']:
                    if reborrow(s):
                        tmps.add(s['place']['l'])
        for b in loop_blocks:
            blk = body['blocks'][b]
            for s in blk['stmts']:
                if s['k'] == 'assign' and s['place']['l'] in tmps and s['rv']['k'] in ('ref', 'rawptr') and s['rv']['place']['l'] == l:
                    continue
                if reborrow(s):
                    continue
                used = []
                self._locals_in(s, used)
                if l in used or tmps & set(used):
                    if s['k'] in ('storage_live', 'storage_dead', 'nop'):
                        continue
                    return False
            t = blk['term']
            used = []
            self._locals_in(t, used)
            if l in used or tmps & set(used):
                if t['k'] != 'call':
                    return False
                c = t['callee']
                path = (c.get('resolved') or {}).get('path') or c.get('path')
                if path != RANGE_NEXT:
                    return False
                argl = []
                self._locals_in(t['args'], argl)
                if l in argl or not (set(argl) <= tmps):
                    return False
        return True

    def widen(self, st, fid, body, loop_blocks, header):
        assigned = set()
        writes_mem = False
        for b in loop_blocks:
            blk = body['blocks'][b]
            for s in blk['stmts']:
                if s['k'] == 'assign':
                    assigned.add(s['place']['l'])
                    if any(e['k'] == 'deref' for e in s['place']['proj']):
                        writes_mem = True
            t = blk['term']
            if t['k'] == 'call':
                assigned.add(t['dest']['l'])
                writes_mem = True   # conservative: any call may write memory
                for a in t['args']:
                    if a['k'] in ('copy', 'move') and not a['place']['proj']:
                        pass
            if t['k'] == 'drop':
                writes_mem = True
        # locals whose address is taken inside the loop may be written through that address
        addr_only = set()
        for b in loop_blocks:
            for s in body['blocks'][b]['stmts']:
                if s['k'] == 'assign' and s['rv']['k'] in ('ref', 'rawptr') and s['rv'].get('mut', True):
                    if not any(e['k'] == 'deref' for e in s['rv']['place']['proj']):
                        if s['rv']['place']['l'] not in assigned:
                            addr_only.add(s['rv']['place']['l'])
                        assigned.add(s['rv']['place']['l'])
        widened = set()
        rec = {'fid': fid, 'init': {}, 'sym': {}, 'init_mem': {}, 'step': [], 'facts': set(st.facts)}
        self.res.loops[(body['id'], header)] = rec
        for l in assigned:
            key = (fid, l)
            if key in st.env and (fid, header, l) in getattr(self, '_loop_inv', {}) and self._loop_inv[(fid, header, l)] == st.env[key]:
                # loop-invariant: its own "symbol" is the initial value
                rec['init'][l] = st.env[key]
                rec['sym'][l] = st.env[key]
                continue
            if key in st.env and l in addr_only and st.env[key][0] == 'agg' and st.env[key][1].startswith('iter:'):
                # a modelled iterator value is a description (source, closures); what advances is the state its closures capture
                continue
            if key in st.env and l in addr_only and self._only_range_next(body, loop_blocks, l):
                # `for i in s..e`: inside the loop the iterator local is only ever handed to Range::next, which moves `start`
                # and never writes `end`: values it yields in this loop lie below the `end` it had before the loop
                v0 = st.env[key]
                if v0[0] == 'call' and v0[1].endswith('IntoIterator>::into_iter') and len(v0[2]) == 1:
                    v0 = v0[2][0]       # the blanket impl for iterators returns self
                if v0[0] == 'agg' and v0[1].endswith('Range') and field_of(v0, 'end') is not None:
                    self.range_local_end[(fid, l)] = (frozenset(loop_blocks), field_of(v0, 'end'))
            if key in st.env:
                nv = ('opaque', next(self.counter), 'loop%s:_%s' % (header, l))
                rec['init'][l] = st.env[key]
                rec['sym'][l] = nv
                st.env[key] = nv
            for k in [k for k in st.mem if root_of(k) == ('local', fid, l)]:
                rec['init_mem'][k] = st.mem[k]
                del st.mem[k]
        if writes_mem:
            # locals of *outer* frames / closure environments reachable through pointers are memory too
            for k in list(st.mem):
                if root_of(k)[0] != 'local':
                    del st.mem[k]
            # address-taken locals of outer frames may be modified by inlined callees in the loop
            st.epoch = next(self.counter)
        rec['epoch'] = st.epoch
        # facts stay: they are about values (terms), and loop-variant values are fresh terms

    def do_switch(self, st, fid, bi, t, g, edge):
        d = self.op(st, fid, t['discr'])
        live = g.succ[bi]
        vals = [v for v, _ in t['targets']]
        dty = t.get('dty', '')
        # constant discriminant: follow only the matching edge
        if is_c(d):
            tgt = None
            for v, tb in t['targets']:
                if v == d[1]:
                    tgt = tb
            if tgt is None:
                tgt = t['otherwise']
            if tgt in live:
                self.merge_edge(edge, fid, (bi, tgt), st)
            return
        by_target = {}
        for v, tb in t['targets']:
            by_target.setdefault(tb, []).append(v)
        for tb, vs in by_target.items():
            if tb not in live:
                continue
            sets = []
            for v in vs:
                fs = self.switch_facts(st, d, dty, v, vals)
                if ('false',) in fs:
                    continue
                sets.append(fs)
            if tb == t['otherwise']:
                fs = self.switch_facts(st, d, dty, None, vals)
                if ('false',) not in fs:
                    sets.append(fs)
            if not sets:
                continue
            s2 = st.copy()
            added = set.intersection(*sets) if len(sets) > 1 else sets[0]
            if len(sets) > 1 and d[0] == 'discr':
                # several variants lead to one block (`A | B => ..`): what the set of variants implies as a whole
                # (Less | Equal: a <= b) survives although no single variant's facts do
                tab = self.discr_tables.get(d[2])
                if tab:
                    byval = {}
                    for n, dv in zip(*tab):
                        byval[int(dv)] = n
                        byval[int(dv) & 0xff] = n
                    names = {byval.get(v) for v in vs}
                    if tb == t['otherwise']:
                        names |= set(tab[0]) - {byval.get(x) for x in vals}
                    if None not in names and len(names) > 1:
                        extra = self.variant_facts(st, d[1], names)
                        if ('false',) not in extra:
                            added = set(added) | extra
            if self.refute_panic_edges and self.panic_only(g, tb):
                why = self.refute(st, added)
                kind = 'assert_discharged' if why else 'assert_open'
                self.res.events.append(Event(kind, fid[-1][0], tuple(fid), bi, t.get('span'), st.copy(), val=d, extra={'target': tb, 'added': added, 'why': why}))
                if why:
                    continue
            s2.facts |= added
            edge[(bi, tb)] = s2
            self.res.events.append(Event('branch', fid[-1][0], tuple(fid), bi, t.get('span'), s2, val=d, extra={'target': tb, 'added': added, 'exp': t.get('exp')}))
        ob = t['otherwise']
        if ob in live and ob not in by_target:
            fs = self.switch_facts(st, d, dty, None, vals)
            if ('false',) not in fs:
                if self.refute_panic_edges and self.panic_only(g, ob):
                    why = self.refute(st, fs)
                    kind = 'assert_discharged' if why else 'assert_open'
                    self.res.events.append(Event(kind, fid[-1][0], tuple(fid), bi, t.get('span'), st.copy(), val=d, extra={'target': ob, 'added': fs, 'why': why}))
                    if why:
                        return
                s2 = st.copy()
                s2.facts |= fs
                edge[(bi, ob)] = s2
                self.res.events.append(Event('branch', fid[-1][0], tuple(fid), bi, t.get('span'), s2, val=d, extra={'target': ob, 'added': fs, 'exp': t.get('exp')}))

    def panic_only(self, g, block):
        key = (id(g), block)
        c = self.__dict__.setdefault('_ponly', {})
        if key not in c:
            r = g.reach([block])
            diverging = any(g.body['blocks'][x]['term']['k'] == 'call' and g.body['blocks'][x]['term']['t'] is None for x in r)
            c[key] = diverging and not (r & set(g.returns()))
        return c[key]

    def nonnull_by_type(self, t, depth=0):
        """t is non-null by the validity invariant of its type: the address of a place, or a value loaded from a field
        declared NonNull<_> / Cell<NonNull<_>> / a reference"""
        if not isinstance(t, tuple) or not t or depth > 4:
            return False
        if t[0] == 'addr':
            return True
        if t[0] == 'load' and t[1][0] == 'fld':
            full = t[1][2]
            adt, _, fname = full.rpartition('.')
            for a in getattr(self.db, 'adts', []):
                if a['path'] == adt or a['path'].endswith('::' + adt) or adt.endswith('::' + a['path']):
                    for f in a.get('fields', []):
                        if f['name'] == fname:
                            ty = f['ty'].replace('core::', 'std::')
                            for wrap in ('std::cell::Cell<',):
                                if ty.startswith(wrap) and ty.endswith('>'):
                                    ty = ty[len(wrap):-1]
                            return ty.startswith('std::ptr::NonNull<') or ty.startswith('&')
        return False

    def nonnull_check(self, c, msg):
        """rustc's debug-build null check on a raw-pointer dereference: `!(ptr == 0 && ..)`"""
        if not msg.startswith('NullPointerDereference'):
            return None
        t = c[1] if c[0] == 'not' else (c[2] if c[0] == 'app' and c[1] == 'not' and len(c) == 3 else None)
        if t is None or not (t[0] == 'app' and t[1] in ('band', 'and')):
            return None
        for x in t[2:]:
            if isinstance(x, tuple) and x and x[0] == 'cmp' and x[1] == 'eq':
                for a, b in ((x[2], x[3]), (x[3], x[2])):
                    if is_c(a) and a[1] == 0 and self.nonnull_by_type(b):
                        return 'non-null by the validity invariant of its type (%s)' % show(b)[:50]
        return None

    def refute(self, st, added):
        """reason why taking an edge that adds `added` is impossible under the facts of st, or None"""
        from .prover import Prover
        if ('false',) in added:
            return 'constant condition'
        P = Prover(self, st.facts)
        for f in added:
            k = f[0]
            try:
                if k == 'lt' and P.le(f[2], f[1]):
                    return 'proved %s <= %s' % (show(f[2])[:40], show(f[1])[:40])
                if k == 'le' and P.lt(f[2], f[1]):
                    return 'proved %s < %s' % (show(f[2])[:40], show(f[1])[:40])
                if k == 'ne' and P.eq(f[1], f[2]):
                    return 'proved %s == %s' % (show(f[1])[:40], show(f[2])[:40])
                if k == 'ne':
                    for a, b in ((f[1], f[2]), (f[2], f[1])):
                        if is_c(b) and b[1] == 0 and a[0] == 'app' and a[1] == 'mod' and (P.aligned(a[2], a[3]) or P.eq(('app', 'round_down', a[2], a[3]), a[2])):
                            return 'proved %s aligned to %s' % (show(a[2])[:40], show(a[3])[:20])
                if k == 'eq' and (P.lt(f[1], f[2]) or P.lt(f[2], f[1])):
                    return 'proved %s != %s' % (show(f[1])[:40], show(f[2])[:40])
                if k in ('nottrue', 'true'):
                    t = f[1]
                    want = (k == 'true')
                    if t[0] == 'app' and t[1] == 'is_pow2':
                        x = t[2]
                        from .prover import is_alignment
                        pow2 = is_alignment(x)
                        if pow2 and not want:
                            return 'power of two by A2/A3'
                    if t[0] == 'app' and t[1] == 'overflowed' and want:
                        op, a, b = t[2], t[3], t[4]
                        if op in ('wsub', 'sub') and P.le(b, a):
                            return 'proved no underflow: %s <= %s' % (show(b)[:40], show(a)[:40])
                        if op == 'add' and (a == C(1) or b == C(1)):
                            # x + 1 cannot wrap when x is strictly below some other usize (a loop counter under `i < n`)
                            x = b if a == C(1) else a
                            if any(g[0] == 'lt' and len(g) == 3 and g[1] == x for g in st.facts):
                                return 'proved no overflow: %s is strictly below another value of its type' % show(x)[:40]
                    if t[0] == 'cmp':
                        pass
            except RecursionError:
                return None
        return None

    def merge_edge(self, edge, fid, key, st):
        edge[key] = st

    # ------------------------------------------------------------------ calls
    def do_call(self, st, fid, bi, t):
        c = t['callee']
        path = c.get('path')
        args = [self.op(st, fid, a) for a in t['args']]
        span = t.get('span')
        if path is None:
            ev = self.event('call', st, fid, bi, span, callee='<indirect>', args=args, extra={'callee': c, 'exp': t.get('exp')})
            self.havoc(st, 'indirect call')
            r = ('call', '<indirect>', tuple(args), next(self.counter))
            ev.ret = r
            return r
        target = path
        res = c.get('resolved')
        if res and res.get('path'):
            target = res['path']
        ev = self.event('call', st, fid, bi, span, callee=CALLEE_ALIAS.get(target, target), args=args, extra={'callee': c, 'exp': t.get('exp'), 'trait_path': path, 'raw_callee': target})
        r = self.call_target(st, fid, bi, t, c, path, target, args)
        if target.endswith('core::ops::range::Range<A>>::next') and args and isinstance(r, tuple) and r and r[0] == 'call':
            a0 = args[0]
            if a0[0] == 'addr' and a0[1][0] == 'local' and (a0[1][1], a0[1][2]) in self.range_local_end:
                blocks, end = self.range_local_end[(a0[1][1], a0[1][2])]
                if a0[1][1] == fid and bi in blocks:
                    self.range_ends[r] = end
        ev.ret = r
        return r

    def call_target(self, st, fid, bi, t, c, path, target, args):
        # closures / fn items called through Fn* traits
        if path in ('core::ops::function::FnOnce::call_once', 'core::ops::function::FnMut::call_mut', 'core::ops::function::Fn::call'):
            return self.apply_callable(st, fid, bi, args[0], args[1], c)
        local = self.local_body(target)
        if local is not None and target not in self.opaque_calls and target not in self.no_inline and self.inline:
            if len(fid) < MAX_DEPTH and not any(f[0] == local['id'] for f in fid):
                nf = fid + ((local['id'], bi),)
                sub = self.callee_subst(fid, c, target, local)
                if sub:
                    self.tsub[nf] = sub
                else:
                    self.tsub.pop(nf, None)
                out, ret = self.run_body(local, nf, st, args)
                if out is None:
                    return ('never',)
                self.adopt(st, out)
                return ret
        h = self.std.get(target) or self.std.get(path)
        if h is not None:
            r = h(self, st, fid, bi, args, c, t)
            if r is not None:
                if r == ('never',) and c.get('diverges'):
                    self.event('diverge', st, fid, bi, t.get('span'), callee=target, args=args, extra={'exp': t.get('exp')})
                return r
        if c.get('diverges'):
            self.event('diverge', st, fid, bi, t.get('span'), callee=target, args=args, extra={'exp': t.get('exp')})
            return ('never',)
        # unknown call: havoc memory reachable through pointers, and locals passed by &mut.  A local handed over by a plain
        # shared borrow (`&local`, no interior mutability in its type) cannot be changed by the callee
        skip = set()
        body = self.bodies.get(fid[-1][0]) if fid else None
        if body is not None:
            for k, a in enumerate(t['args']):
                if a.get('k') not in ('copy', 'move') or a['place']['proj']:
                    continue
                tmp = a['place']['l']
                defs = [s_ for blk_ in body['blocks'] for s_ in blk_['stmts'] if s_['k'] == 'assign' and s_['place']['l'] == tmp and not s_['place']['proj']]
                if len(defs) == 1 and defs[0]['rv']['k'] == 'ref' and defs[0]['rv'].get('mut') is False and not defs[0]['rv']['place']['proj']:
                    lty = (body.get('locals') or [])
                    l = defs[0]['rv']['place']['l']
                    ty = lty[l] if l < len(lty) else ''
                    if 'Cell<' not in ty and 'Mutex' not in ty and 'Atomic' not in ty:
                        skip.add(k)
        self.havoc_args(st, [a for k, a in enumerate(args) if k not in skip])
        self.havoc(st, 'call ' + target)
        return ('call', target, tuple(args), next(self.counter))

    def callee_subst(self, fid, c, target, local):
        """generic parameters of the inlined body -> the caller's arguments (already in entry-frame terms)"""
        names = local['meta'].get('generics_ord')
        res = c.get('resolved') or {}
        gargs = res.get('gargs') if res.get('path') == target and res.get('gargs') is not None else c.get('gargs')
        if not names or gargs is None or len(names) != len(gargs):
            return None
        sub = {}
        for n, a in zip(names, gargs):
            kind, _, name = n.partition(':')
            if kind not in ('ty', 'const') or ' ' in name:
                continue
            a2 = self.subst_ty(a, fid)
            if a2 != name:
                sub[name] = a2
        return sub or None

    def havoc_args(self, st, args):
        for a0 in args:
            # references reachable inside by-value aggregates (closure environments, iterator adaptors) count as well:
            # the callee can write through every `&mut local` it is handed, however deeply it is wrapped
            # ... but only where the value really contains the reference: inside aggregates and merges, not inside the argument
            # list of a call / load term that merely *names* how a scalar was computed
            cands = []

            def refs(x, depth=0):
                if not isinstance(x, tuple) or not x or depth > 8 or len(cands) > 32:
                    return
                if x[0] == 'addr':
                    cands.append(x)
                elif x[0] == 'agg':
                    for _, v in x[3]:
                        refs(v, depth + 1)
                elif x[0] == 'phi':
                    for _, v in x[2]:
                        refs(v, depth + 1)
                elif x[0] == 'ite':
                    refs(x[2], depth + 1)
                    refs(x[3], depth + 1)
            refs(a0)
            for a in cands[:32]:
                r = root_of(a[1])
                if r[0] == 'local':
                    key = (r[1], r[2])
                    if key in st.env:
                        st.env[key] = self.fresh('havoc')
                    for k in [k for k in st.mem if root_of(k) == r]:
                        del st.mem[k]

    def adopt(self, st, out):
        st.env = out.env
        st.mem = out.mem
        st.facts = out.facts
        st.epoch = out.epoch

    def local_body(self, target):
        b = self.db.by_path.get(target)
        return b

    def apply_callable(self, st, fid, bi, f, argtuple, c=None):
        """call closure / fn-item value f with a tuple of arguments"""
        if argtuple[0] == 'agg':
            cargs = [v for _, v in argtuple[3]]
        elif argtuple == UNIT:
            cargs = []
        else:
            cargs = [argtuple]
        fv = f
        env_arg = f
        # look through references to the closure
        seen = 0
        while fv[0] == 'addr' and seen < 4:
            inner = self.read(st, fv[1])
            fv = inner
            seen += 1
        if fv[0] == 'agg' and fv[1].startswith('closure:'):
            cid = fv[1][len('closure:'):]
            body = self.bodies.get(cid)
            if body is not None and self.inline and len(fid) < MAX_DEPTH and not any(x[0] == cid for x in fid):
                # closure bodies take the environment the way their kind says: by value for
                # FnOnce, by reference otherwise.  Peek at the type of _1.
                l1 = body['locals'][1] if len(body['locals']) > 1 else ''
                if l1.startswith('&'):
                    if f[0] == 'addr' and seen == 1:
                        envp = f
                    else:
                        # materialise the closure in a temp of the caller frame
                        tmp = ('local', fid, 'clos%d' % next(self.counter))
                        st.env[(tmp[1], tmp[2])] = fv
                        envp = ('addr', tmp)
                else:
                    envp = fv
                cev = self.event('call', st, fid, bi, body.get('span'), callee=cid, args=[envp] + cargs, extra={'closure': True, 'callee': {}})
                if self.clos_sub.get(cid):
                    self.tsub[fid + ((cid, bi),)] = self.clos_sub[cid]
                else:
                    self.tsub.pop(fid + ((cid, bi),), None)
                out, ret = self.run_body(body, fid + ((cid, bi),), st, [envp] + cargs)
                cev.ret = ret
                if out is None:
                    return ('never',)
                self.adopt(st, out)
                return ret
        if fv[0] == 'fn':
            b = self.local_body(fv[1])
            if b is not None and self.inline and len(fid) < MAX_DEPTH and not any(x[0] == b['id'] for x in fid):
                out, ret = self.run_body(b, fid + ((b['id'], bi),), st, cargs)
                if out is None:
                    return ('never',)
                self.adopt(st, out)
                return ret
            h = self.std.get(fv[1])
            if h is not None:
                r = h(self, st, fid, bi, cargs, {'path': fv[1], 'gargs': []}, None)
                if r is not None:
                    return r
        # unknown callable (user callback)
        self.res.events.append(Event('usercall', fid[-1][0], tuple(fid), bi, None, st.copy(), callee='<callable>', args=cargs))
        if getattr(self, 'frozen', None):
            st.facts -= {f for f in st.facts if f[0] == 'frozen'}
        self.havoc_args(st, cargs)
        self.havoc(st, 'callable')
        return ('call', '<callable>', tuple(cargs), next(self.counter))

    def branch_apply(self, st, fid, bi, cond_facts, fn):
        """run fn(state) under extra facts on a forked state; returns (forked_state, value)"""
        s2 = st.copy()
        s2.facts |= cond_facts
        v = fn(s2)
        return s2, v

    def join2(self, st, fid, bi, tag, a, b):
        """join two (state, value) alternatives back into st; returns the merged value"""
        (sa, va), (sb, vb) = a, b
        j = self.join(fid, (bi, tag), [('a', sa), ('b', sb)])
        self.adopt(st, j)
        if va == vb:
            return va
        return ('phi', (fid, (bi, tag), 'v'), (('a', va), ('b', vb)))
