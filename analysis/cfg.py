"""CFG utilities over bumpscan MIR facts: pruned successors, reachability-with-removal queries,
dominators, natural loops.  Everything is per body (a dict from the fact file)."""
import collections


def const_val(op):
    if op.get('k') == 'const' and op.get('val') is not None:
        v = op['val']
        try:
            return int(v, 0) if isinstance(v, str) and v.startswith('0x') else int(v)
        except ValueError:
            return None
    return None


def _switch_const(blk):
    """value of a switch discriminant that is a literal (cfg!(debug_assertions) etc.), else None"""
    t = blk['term']
    d = t['discr']
    if d['k'] == 'const':
        return const_val(d)
    if d['k'] in ('copy', 'move') and not d['place']['proj']:
        l = d['place']['l']
        cv = None
        for st in blk['stmts']:
            if st['k'] == 'assign' and st['place']['l'] == l and not st['place']['proj']:
                if st['rv']['k'] == 'use' and st['rv']['o'].get('k') == 'const':
                    cv = const_val(st['rv']['o'])
                else:
                    cv = None
        return cv
    return None


def succs(body, bi):
    """normal (non-unwind) successors; edges of a switch on a literal constant are pruned"""
    blk = body['blocks'][bi]
    t = blk['term']
    k = t['k']
    if k == 'goto':
        return [t['t']]
    if k == 'switch':
        cv = _switch_const(blk)
        if cv is not None:
            for v, tb in t['targets']:
                if v == cv:
                    return [tb]
            return [t['otherwise']]
        out = []
        for v, tb in t['targets']:
            if tb not in out:
                out.append(tb)
        if t['otherwise'] not in out:
            out.append(t['otherwise'])
        return out
    if k == 'call':
        return [t['t']] if t['t'] is not None else []
    if k in ('drop', 'assert'):
        return [t['t']]
    return []


def unwind_succ(body, bi):
    t = body['blocks'][bi]['term']
    u = t.get('unwind')
    return u if isinstance(u, int) else None


class CFG:
    def __init__(self, body, with_unwind=False):
        self.body = body
        self.n = len(body['blocks'])
        self.with_unwind = with_unwind
        self.succ = {}
        for i in range(self.n):
            s = list(succs(body, i))
            if with_unwind:
                u = unwind_succ(body, i)
                if u is not None and u not in s:
                    s.append(u)
            self.succ[i] = s
        self.reachable = self.reach([0])
        self.pred = collections.defaultdict(list)
        for i in self.reachable:
            for s in self.succ[i]:
                self.pred[s].append(i)
        self._dom = None
        self._loops = None

    def reach(self, starts, avoid_blocks=(), avoid_edges=()):
        avoid_blocks = set(avoid_blocks)
        avoid_edges = set(avoid_edges)
        seen = set()
        w = [s for s in starts if s not in avoid_blocks]
        while w:
            x = w.pop()
            if x in seen:
                continue
            seen.add(x)
            for s in self.succ[x]:
                if s in avoid_blocks or (x, s) in avoid_edges or s in seen:
                    continue
                w.append(s)
        return seen

    # ---- block classes
    def returns(self):
        return [i for i in self.reachable if self.body['blocks'][i]['term']['k'] == 'return']

    def panic_exits(self):
        """reachable blocks that end the function abnormally: diverging call / unreachable / resume"""
        out = []
        for i in self.reachable:
            t = self.body['blocks'][i]['term']
            if t['k'] == 'call' and t['t'] is None:
                out.append(i)
            elif t['k'] in ('unreachable', 'resume', 'terminate'):
                out.append(i)
        return out

    # ---- path queries
    def every_path_passes(self, src, through, dst_blocks):
        """every path from src to any block in dst_blocks passes through a block in `through`"""
        r = self.reach([src], avoid_blocks=through)
        return not (set(dst_blocks) & r) or src in through

    def edge_dominates(self, edge, b):
        """every path from entry to b uses edge (u, v)"""
        return b not in self.reach([0], avoid_edges=[edge])

    def block_dominates(self, a, b):
        if a == b:
            return True
        return b not in self.reach([0], avoid_blocks=[a])

    def can_reach(self, a, b, avoid_blocks=()):
        return b in self.reach([a], avoid_blocks=avoid_blocks)

    # ---- order / loops
    def rpo(self):
        seen = set()
        order = []
        stack = [(0, iter(self.succ[0]))]
        seen.add(0)
        while stack:
            n, it = stack[-1]
            for s in it:
                if s not in seen:
                    seen.add(s)
                    stack.append((s, iter(self.succ[s])))
                    break
            else:
                order.append(n)
                stack.pop()
        order.reverse()
        return order

    def back_edges(self):
        """edges u->h with h an ancestor of u on the DFS stack (MIR CFGs are reducible)"""
        color = {}
        out = []
        stack = [(0, iter(self.succ[0]))]
        color[0] = 1
        while stack:
            n, it = stack[-1]
            for s in it:
                c = color.get(s, 0)
                if c == 0:
                    color[s] = 1
                    stack.append((s, iter(self.succ[s])))
                    break
                if c == 1:
                    out.append((n, s))
            else:
                color[n] = 2
                stack.pop()
        return out

    def loops(self):
        """header -> set of blocks of the natural loop(s) with that header"""
        if self._loops is not None:
            return self._loops
        loops = collections.defaultdict(set)
        for u, h in self.back_edges():
            body = {h, u}
            w = [u]
            while w:
                x = w.pop()
                if x == h:
                    continue
                for p in self.pred[x]:
                    if p not in body:
                        body.add(p)
                        w.append(p)
            loops[h] |= body
        self._loops = dict(loops)
        return self._loops
