"""Macro expansion probe: the crate's exported macros (`vec!`, `format!`) have no MIR inside the crate, so a client file with
one function per macro arm is compiled by bumpscan against an rlib built (with the nightly toolchain the driver links to)
from the current tree; the resulting facts are analysed with TermFlow like any other body (calls into bumpalo are opaque)."""
import hashlib, json, os, shutil, subprocess, tempfile, time
from . import extract, facts

FEATURES = 'collections,boxed'
PROBE = os.path.join(extract.VERIF, 'witnesses', 'macroprobe', 'probe.rs')


def build_nightly_rlib(repo=None):
    repo = repo or extract.REPO
    key = hashlib.sha256((extract.tree_hash(repo) + FEATURES + 'nightly').encode()).hexdigest()[:24]
    d = os.path.join(extract.CACHE, 'rlibn-' + key)
    marker = os.path.join(d, 'ok')
    if os.path.exists(marker):
        try:
            os.utime(d, None)       # touched on use: concurrent checks prune only what nobody has used for hours
        except OSError:
            pass
        return d
    os.makedirs(extract.CACHE, exist_ok=True)
    for f in os.listdir(extract.CACHE):
        fp = os.path.join(extract.CACHE, f)
        try:
            if f.startswith('rlibn-') and time.time() - os.path.getmtime(fp) > 4 * 3600:
                shutil.rmtree(fp, ignore_errors=True)
        except OSError:
            pass                    # another check removed it in the meantime
    tmp = tempfile.mkdtemp(prefix='mprobe.')
    try:
        env = dict(os.environ)
        env.update({'CARGO_TARGET_DIR': os.path.join(tmp, 't'), 'CARGO_NET_OFFLINE': 'true', 'RUSTFLAGS': '-Awarnings -Adangerous_implicit_autorefs'})
        r = subprocess.run(['cargo', '+nightly', 'build', '--offline', '--lib', '-q', '--features', FEATURES], cwd=repo, env=env, capture_output=True, text=True)
        if r.returncode != 0:
            raise SystemExit('macro probe: nightly build of the crate failed:\n' + r.stderr[-2000:])
        deps = os.path.join(tmp, 't', 'debug', 'deps')
        os.makedirs(d, exist_ok=True)
        for f in os.listdir(deps):
            if f.endswith('.rlib') or f.endswith('.rmeta'):
                shutil.copy(os.path.join(deps, f), d)
        open(marker, 'w').write('ok')
        return d
    finally:
        shutil.rmtree(tmp, ignore_errors=True)


def probe_facts(repo=None):
    """Facts object for the probe crate compiled against the current tree"""
    repo = repo or extract.REPO
    src = open(PROBE).read()
    libdir = build_nightly_rlib(repo)
    key = hashlib.sha256((extract.tree_hash(repo) + extract._driver_hash() + src).encode()).hexdigest()[:24]
    cpath = os.path.join(extract.CACHE, 'macroprobe-%s.json' % key)
    if os.path.exists(cpath):
        return facts.Facts(json.load(open(cpath)), {'config': 'macroprobe', 'key': key, 'cached': True})
    for f in os.listdir(extract.CACHE):
        fp = os.path.join(extract.CACHE, f)
        if f.startswith('macroprobe-') and time.time() - os.path.getmtime(fp) > 1800:
            try:
                os.remove(fp)
            except OSError:
                pass
    rlib = [f for f in os.listdir(libdir) if f.startswith('libbumpalo') and f.endswith('.rlib')]
    tmp = tempfile.mkdtemp(prefix='mprobe.')
    try:
        out = os.path.join(tmp, 'facts.json')
        env = dict(os.environ)
        env.update({'LD_LIBRARY_PATH': extract._sysroot() + '/lib', 'BUMPSCAN_OUT': out, 'BUMPSCAN_CRATE': 'probe'})
        cmd = [extract.DRIVER, 'rustc', '--edition', '2021', '--crate-name', 'probe', '--crate-type', 'lib', '--emit=metadata', '-Awarnings', '-Zmir-opt-level=0',
               '-Cdebug-assertions=off', '-Coverflow-checks=off', '--extern', 'bumpalo=' + os.path.join(libdir, rlib[0]), '-L', 'dependency=' + libdir,
               '-o', os.path.join(tmp, 'out.rmeta'), PROBE]
        r = subprocess.run(cmd, env=env, capture_output=True, text=True)
        if r.returncode != 0 or not os.path.exists(out):
            raise SystemExit('macro probe does not compile against the current tree (a macro arm no longer expands to valid code?):\n' + r.stderr[-1500:])
        D = json.load(open(out))
        tmpc = cpath + '.%d.tmp' % os.getpid()
        shutil.copy(out, tmpc)
        os.replace(tmpc, cpath)
        return facts.Facts(D, {'config': 'macroprobe', 'key': key, 'cached': False})
    finally:
        shutil.rmtree(tmp, ignore_errors=True)


if __name__ == '__main__':
    F = probe_facts()
    print(len(F.raw['bodies']), 'bodies', [b['id'] for b in F.fn_bodies()][:12])
