"""Check runner: `python3 -m analysis.runner <ID> quick|thorough [--replay report.json]`.

Protocol (MANIFEST / brief): exit 0 if every rule instance held (known findings print
`KNOWN-FINDING: ...`), exit 1 with `VIOLATION property=<ID> replay=<path>` per unlisted violation,
exit 2 for a failure of the checker itself (extraction failed, kill test missed).  Evidence is
rewritten on every run."""
import hashlib, importlib, json, os, shutil, subprocess, sys, tempfile, time, traceback

from . import extract, facts as factsm

VERIF = extract.VERIF
PROPS = ['C%02d' % i for i in range(1, 21)]


class Ctx:
    def __init__(self, pid, tier, seed):
        self.pid = pid
        self.tier = tier
        self.seed = seed
        self.t0 = time.time()
        self._dbs = {}
        self.violations = []
        self.instances = []        # (rule, site, how)  discharged rule instances
        self.counts = {}           # rule -> number of instances evaluated
        self.floors = {}           # rule -> (found, floor)
        self.notes = []
        self.controls = []         # positive controls (perturbed facts) : (name, fired)
        self.kill_tests = []
        self.silent_tests = []
        self.extra = {}
        self.assumptions = []
        self.configs_used = []
        self.repo = None           # override for kill tests

    # ---- facts
    def db(self, config='rel-all'):
        if config not in self._dbs:
            D, info = extract.extract(config, repo=self.repo)
            self._dbs[config] = factsm.Facts(D, info)
            self.configs_used.append(dict(info, bodies=len(D['bodies'])))
        return self._dbs[config]

    # ---- reporting
    def ok(self, rule, site, how=''):
        self.counts[rule] = self.counts.get(rule, 0) + 1
        self.instances.append((rule, site, how))

    def violation(self, rule, fn, site, msg, span=None, details=None):
        """key = rule:fn:site (no line numbers)"""
        self.counts[rule] = self.counts.get(rule, 0) + 1
        key = '%s.%s:%s:%s' % (self.pid, rule, fn, site)
        if any(v['key'] == key for v in self.violations):
            return
        self.violations.append({'key': key, 'rule': '%s.%s' % (self.pid, rule), 'function': fn, 'site': site,
                                'message': msg, 'location': factsm.loc(span) if span else None, 'details': details})

    def floor(self, rule, found, floor, what):
        """`floor` is the number of instances counted by hand on the reference tree.  The alarm threshold is 60% of it (at least 1):
        the purpose is to catch a rule that silently stopped matching (vacuous pass), not to pin the exact number of sites --
        merging two branches or extracting a helper legitimately changes the count by one or two"""
        counted = floor
        floor = max(1, (counted * 3 + 4) // 5)
        self.floors[rule] = {'found': found, 'floor': floor, 'counted_on_reference_tree': counted, 'what': what}
        if found < floor:
            self.violation(rule, '<floor>', what.replace(' ', '_')[:60],
                           'rule %s matched %d instances of "%s", fewer than the %d confirmed by hand on the reference tree (anchor missing or code removed: the rule would pass vacuously)' % (rule, found, what, floor))

    def anchor_missing(self, rule, what):
        self.violation(rule, '<anchor>', what.replace(' ', '_')[:60], 'anchor "%s" not found in the compiled crate' % what)

    def note(self, s):
        self.notes.append(s)

    def assume(self, *a):
        for x in a:
            if x not in self.assumptions:
                self.assumptions.append(x)


class Sub:
    """view of a Ctx that files everything a borrowed rule pack reports under one rule of the borrowing pack
    (e.g. C10.R5 = the reset obligations of C06): same facts, same caches, keys `<pid>.<rule>:<fn>:<orig rule>/<site>`"""

    def __init__(self, ctx, rule, origin, only=None, match=None):
        # only: the rules of the borrowed pack that bear on the borrowing property (None = all of them)
        # match: optional predicate on (rule, function-or-site text) selecting the instances that bear on it
        self._ctx, self._rule, self._origin, self._only, self._match = ctx, rule, origin, only, match

    def __getattr__(self, name):
        return getattr(self._ctx, name)

    def _wanted(self, rule):
        return self._only is None or rule.split('.')[0] in self._only

    def ok(self, rule, site, how=''):
        if self._wanted(rule) and (self._match is None or self._match(rule, site)):
            self._ctx.ok(self._rule, '[%s.%s] %s' % (self._origin, rule, site), how)

    def violation(self, rule, fn, site, msg, span=None, details=None):
        if self._wanted(rule) and (self._match is None or fn in ('<floor>', '<anchor>') or self._match(rule, fn)):
            self._ctx.violation(self._rule, fn, '%s.%s/%s' % (self._origin, rule, site), msg, span, details)

    def floor(self, rule, found, floor, what):
        if self._wanted(rule) and self._match is None:
            self._ctx.floor('%s.%s.%s' % (self._rule, self._origin, rule), found, floor, what)

    def anchor_missing(self, rule, what):
        if self._wanted(rule) and (self._match is None or self._match(rule, what)):
            self._ctx.anchor_missing(self._rule, what)


def load_known():
    known = {}
    p = os.path.join(VERIF, 'known_findings.txt')
    if os.path.exists(p):
        for line in open(p):
            line = line.strip()
            if line.startswith('finding:'):
                parts = line.split()
                d = {}
                for w in parts[1:3]:
                    if '=' in w:
                        k, v = w.split('=', 1)
                        d[k] = v
                if 'property' in d and 'key' in d:
                    known[(d['property'], d['key'])] = ' '.join(parts[3:])
    return known


def write_evidence(ctx, explanation, rule_text, nviol):
    samples = []
    seen = set()
    for rule, site, how in ctx.instances:
        if rule in seen and len(samples) > 40:
            continue
        seen.add(rule)
        samples.append({'rule': '%s.%s' % (ctx.pid, rule), 'site': site, 'discharged_by': how})
        if len(samples) >= 60:
            break
    for v in ctx.violations[:10]:
        samples.append({'rule': v['rule'], 'site': v['function'] + ':' + v['site'], 'status': 'VIOLATED', 'message': v['message']})
    distinct = len({(r, s) for r, s, _ in ctx.instances}) + len(ctx.violations)
    ev = {
        'property_id': ctx.pid,
        'tier': ctx.tier,
        'seed': ctx.seed,
        'level': 'other',
        'coverage': {
            'explanation': explanation,
            'evaluations': sum(ctx.counts.values()),
            'distinct_nontrivial': distinct,
            'rule': rule_text,
            'samples': samples or [{'note': 'no instance evaluated'}],
            'rule_instance_counts': ctx.counts,
            'floors': ctx.floors,
            'configs': ctx.configs_used,
            'controls': ctx.controls,
            'kill_tests': ctx.kill_tests,
            'negative_controls': getattr(ctx, 'silent_tests', []),
            'notes': ctx.notes,
            'exhaustive': False,
        },
        'assumptions': ctx.assumptions,
        'wall_s': round(time.time() - ctx.t0, 2),
        'violations': nviol,
    }
    ev['coverage'].update(ctx.extra)
    os.makedirs(os.path.join(VERIF, 'evidence'), exist_ok=True)
    p = os.path.join(VERIF, 'evidence', ctx.pid + '.json')
    tmp = p + '.tmp'
    with open(tmp, 'w') as fh:
        json.dump(ev, fh, indent=1, default=str)
    os.replace(tmp, p)


def run_pack(ctx):
    mod = importlib.import_module('analysis.rules.' + ctx.pid.lower())
    mod.run(ctx)
    return mod


def multi_config(ctx, mod, configs=('rel-coll', 'rel-default')):
    """thorough tier: repeat the rule pack on the other feature configurations the crate is built in
    (floors are calibrated on the all-features build and are not applied to the smaller ones)"""
    import inspect
    if 'config' not in inspect.signature(mod.run).parameters:
        return
    for cfg in configs:
        sub = Ctx(ctx.pid, 'quick', ctx.seed)
        sub.repo = ctx.repo
        try:
            mod.run(sub, cfg)
        except KeyError as e:
            ctx.note('configuration %s: anchor %s absent (feature-gated code)' % (cfg, e))
            continue
        for v in sub.violations:
            if v['function'] in ('<floor>', '<anchor>'):
                continue
            if not any(x['key'] == v['key'] for x in ctx.violations):
                v = dict(v)
                v['message'] += ' [configuration %s]' % cfg
                ctx.violations.append(v)
        for k, n in sub.counts.items():
            ctx.counts[k] = ctx.counts.get(k, 0) + n
        ctx.instances.extend(('%s@%s' % (r, cfg), st, how) for r, st, how in sub.instances[:8])
        ctx.configs_used.extend(sub.configs_used)


def kill_one(pid, patch, seed):
    """apply one armed edit to a scratch copy of the repository and run the pack on it; returns a status dict"""
    name = os.path.basename(patch)
    expect = None
    meta = patch[:-5] + '.json'
    if os.path.exists(meta):
        expect = json.load(open(meta)).get('expect_rule')
    tmp = tempfile.mkdtemp(prefix='kill.')
    try:
        repo = os.path.join(tmp, 'repo')
        subprocess.run(['rsync', '-a', '--exclude', 'target', '--exclude', '.git', extract.REPO + '/', repo + '/'], check=True)
        r = subprocess.run(['patch', '-p1', '-s', '--no-backup-if-mismatch', '-i', patch], cwd=repo, capture_output=True, text=True)
        if r.returncode != 0:
            return {'patch': name, 'status': 'skipped (does not apply to the current tree)'}
        c2 = Ctx(pid, 'quick', seed)
        c2.repo = repo
        try:
            run_pack(c2)
            fired = [v['key'] for v in c2.violations]
        except SystemExit as e:
            return {'patch': name, 'status': 'extraction failed: %s' % e}
        hit = [k for k in fired if (expect is None or expect in k)]
        return {'patch': name, 'status': 'killed' if hit else 'MISSED', 'fired': fired if os.environ.get('VERIF_ALL_KEYS') else fired[:6]}
    finally:
        shutil.rmtree(tmp, ignore_errors=True)


def kill_tests(pid, tier, seed):
    """thorough tier: apply each armed seeded edit to a scratch copy and require the pack to fire (one subprocess per edit, run in parallel)"""
    import concurrent.futures
    d = os.path.join(VERIF, 'selftest', pid)
    if not os.path.isdir(d):
        return [], True
    patches = [os.path.join(d, n) for n in sorted(os.listdir(d)) if n.endswith('.diff')]

    def one(patch):
        r = subprocess.run([sys.executable, '-m', 'analysis.runner', '--kill-one', pid, patch], cwd=VERIF, capture_output=True, text=True, env=dict(os.environ, VERIF_SEED=str(seed)))
        for line in reversed(r.stdout.splitlines()):
            if line.startswith('KILL-ONE '):
                return json.loads(line[len('KILL-ONE '):])
        return {'patch': os.path.basename(patch), 'status': 'checker error: %s' % (r.stdout + r.stderr)[-300:]}
    with concurrent.futures.ThreadPoolExecutor(max_workers=max(2, min(6, (os.cpu_count() or 4) // 2))) as ex:
        out = list(ex.map(one, patches))
    allok = all(o['status'] == 'killed' or o['status'].startswith('skipped') for o in out)
    return out, allok


def silent_tests(pid, seed, base_keys):
    """thorough tier, negative controls: behaviour-preserving refactorings (/verif/equivalent/*.diff, written by independent
    sub-agents, each with an equivalence argument and the full test suite passing) are applied to a scratch copy one at a
    time; the pack must report nothing it does not also report on the unpatched tree"""
    import concurrent.futures
    d = os.path.join(VERIF, 'equivalent')
    if not os.path.isdir(d):
        return [], True
    patches = [os.path.join(d, n) for n in sorted(os.listdir(d)) if n.endswith('.diff')]

    def one(patch):
        r = subprocess.run([sys.executable, '-m', 'analysis.runner', '--kill-one', pid, patch], cwd=VERIF, capture_output=True, text=True, env=dict(os.environ, VERIF_SEED=str(seed), VERIF_ALL_KEYS='1'))
        for line in reversed(r.stdout.splitlines()):
            if line.startswith('KILL-ONE '):
                o = json.loads(line[len('KILL-ONE '):])
                if o['status'].startswith('skipped'):
                    return {'patch': os.path.basename(patch), 'status': o['status']}
                extra = [k for k in o.get('fired', []) if k not in base_keys]
                return {'patch': os.path.basename(patch), 'status': 'silent' if not extra else 'FALSE ALARM', 'fired': extra[:6]}
        return {'patch': os.path.basename(patch), 'status': 'checker error: %s' % (r.stdout + r.stderr)[-300:]}
    with concurrent.futures.ThreadPoolExecutor(max_workers=max(2, min(6, (os.cpu_count() or 4) // 2))) as ex:
        out = list(ex.map(one, patches))
    return out, all(o['status'] == 'silent' or o['status'].startswith('skipped') for o in out)


def main(argv):
    if len(argv) == 3 and argv[0] == '--kill-one':
        seed = int(os.environ.get('VERIF_SEED', '0') or 0)
        res = kill_one(argv[1], argv[2], seed)
        print('KILL-ONE ' + json.dumps(res))
        return 0
    if len(argv) < 2:
        print('usage: check <ID> quick|thorough [--replay report.json]')
        return 2
    pid, tier = argv[0], argv[1]
    seed = int(os.environ.get('VERIF_SEED', '0') or 0)
    replay = None
    if '--replay' in argv:
        replay = argv[argv.index('--replay') + 1]
    ctx = Ctx(pid, tier, seed)
    try:
        mod = run_pack(ctx)
    except SystemExit as e:
        print('CHECKER-ERROR property=%s %s' % (pid, e))
        return 2
    except Exception:
        traceback.print_exc()
        print('CHECKER-ERROR property=%s internal error' % pid)
        return 2
    checker_ok = True
    silent_ok = True
    ctx.silent_tests = []
    if tier == 'thorough':
        if hasattr(mod, 'thorough'):
            mod.thorough(ctx)
        multi_config(ctx, mod)
        kt, ok = kill_tests(pid, tier, seed)
        ctx.kill_tests = kt
        checker_ok = ok
        sil, ok2 = silent_tests(pid, seed, {v['key'] for v in ctx.violations})
        ctx.silent_tests = sil
        silent_ok = ok2
    known = load_known()
    os.makedirs(os.path.join(VERIF, 'reports'), exist_ok=True)
    if not replay:
        for f in os.listdir(os.path.join(VERIF, 'reports')):
            if f.startswith(pid + '-'):
                os.remove(os.path.join(VERIF, 'reports', f))
    new = []
    for v in ctx.violations:
        if replay:
            want = json.load(open(replay)).get('key')
            if v['key'] != want:
                continue
        kf = known.get((pid, v['key']))
        if kf is not None:
            print('KNOWN-FINDING: property=%s %s [%s]' % (pid, kf, v['key']))
            continue
        new.append(v)
    print('%s %s: %d rule instances evaluated, %d violations (%d new); rules: %s' % (
        pid, tier, sum(ctx.counts.values()), len(ctx.violations), len(new),
        ', '.join('%s=%d' % kv for kv in sorted(ctx.counts.items()))))
    for fl, d in sorted(ctx.floors.items()):
        print('  floor %s: found %d (>= %d) %s' % (fl, d['found'], d['floor'], d['what']))
    for k in ctx.kill_tests:
        print('  kill-test %s: %s' % (k['patch'], k['status']))
    for k in ctx.silent_tests:
        print('  negative-control %s: %s %s' % (k['patch'], k['status'], k.get('fired') or ''))
    write_evidence(ctx, getattr(mod, 'EXPLANATION', ''), getattr(mod, 'RULE', ''), len(new))
    for v in new:
        h = hashlib.sha256(v['key'].encode()).hexdigest()[:12]
        rp = os.path.join(VERIF, 'reports', '%s-%s.json' % (pid, h))
        with open(rp, 'w') as fh:
            json.dump(v, fh, indent=1, default=str)
        print('  %s at %s: %s' % (v['key'], v['location'], v['message']))
        print('VIOLATION property=%s replay=%s' % (pid, rp))
    if new:
        return 1
    if not checker_ok:
        print('CHECKER-ERROR property=%s a kill test was missed (see evidence)' % pid)
        return 2
    if not silent_ok:
        print('CHECKER-ERROR property=%s a negative control (behaviour-preserving refactoring) raised an alarm (see evidence)' % pid)
        return 2
    return 0


if __name__ == '__main__':
    import signal, threading
    signal.signal(signal.SIGPIPE, signal.SIG_DFL)
    # terms can nest deeply (phi chains): run with a generous recursion limit on a big stack
    sys.setrecursionlimit(50000)
    threading.stack_size(512 * 1024 * 1024)
    rc = [2]

    def _go():
        rc[0] = main(sys.argv[1:])
    th = threading.Thread(target=_go)
    th.start()
    th.join()
    sys.stdout.flush()
    os._exit(rc[0])
