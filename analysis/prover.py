"""Lemma library of TermFlow (DESIGN.md 3.2): a small, fixed, goal-directed prover for
`aligned(t, d)`, `le(a, b)`, `lt(a, b)`, `eq(a, b)` over terms, using the must-facts of a program
point, the chunk invariant J1/J2 for loaded footers, and one-line lemmas about naturals and powers
of two.  No solver, no enumeration: a goal is reduced by rewriting atoms to bounds and by subtracting
known non-negative differences, to a small fixed depth.  Failure to prove is *not* a proof of the
negation; callers fail closed.

Assumptions (listed in every evidence file that uses the prover):
  A1 terms denote mathematical integers: unchecked add/mul do not overflow (obligation of C19/C09.O1')
  A2 align(L) of a core::alloc::Layout is a power of two, and round_up(size(L), align(L)) <= isize::MAX
  A3 MIN_ALIGN is a power of two and MIN_ALIGN <= CHUNK_ALIGN (constructor gating, rule C04.R4)
  A4 the global allocator returns null or a block of layout.size() bytes aligned to layout.align()
  J  for every footer value F loaded from current_chunk_footer / a prev link:
       J1 aligned(F, CHUNK_ALIGN)   J2 F.data <= F.ptr <= F  and aligned(F.ptr, MIN_ALIGN)
"""
from .terms import *

CHUNK_ALIGN = 16


def is_alignment(t):
    """terms that denote an alignment (a power of two >= 1) by A2/A3 or by construction"""
    if t == sym('MIN_ALIGN') or (t[0] == 'sym' and str(t[1]).startswith('alignof(')):
        return True
    if is_c(t):
        return t[1] > 0 and (t[1] & (t[1] - 1)) == 0
    if t[0] == 'app' and t[1] == 'align':
        return True
    if t[0] == 'app' and t[1] in ('max', 'min'):
        return all(is_alignment(x) for x in t[2:])
    return False


def is_pow2_const(t):
    return is_c(t) and t[1] > 0 and (t[1] & (t[1] - 1)) == 0


class Prover:
    def __init__(self, interp, facts, use_J=True, extra_axioms=(), max_depth=5, footer_align=16, level=0):
        self.level = level
        self._busy = False
        self.I = interp
        self.facts = set(facts)
        # antisymmetry: a <= b and b <= a (e.g. `if x <= y { if x < y {..} else { HERE } }`) give a == b
        les = {(f[1], f[2]) for f in self.facts if f[0] == 'le' and len(f) == 3}
        for a, b in list(les):
            if (b, a) in les and a != b:
                self.facts.add(('eq',) + tuple(sorted((a, b), key=repr)))
        # a power of two is not zero
        for f in list(self.facts):
            if f[0] == 'true' and len(f) == 2 and isinstance(f[1], tuple) and f[1][:2] == ('app', 'is_pow2') and not is_c(f[1][2]):
                self.facts.add(('lt', C(0), f[1][2]))
        self.use_J = use_J
        self.ax = set(extra_axioms)
        self.max_depth = max_depth
        self.footer_align = footer_align
        self.trace = []
        self._memo = {}
        self._les = None
        # congruence: equalities between non-arithmetic atoms (pointers loaded at different times,
        # `a == b` edges) are applied as rewrites larger-term -> smaller-term
        self.rw = {}
        for f in self.facts:
            if f[0] == 'eq' and len(f) == 3:
                a, b = f[1], f[2]
                if self._atomic(a) and self._atomic(b) and a != b:
                    big, small = (a, b) if self._rank(a) > self._rank(b) else (b, a)
                    self.rw[big] = small
        if self.rw:
            # close the map (a->b, b->c  =>  a->c), then rewrite the facts themselves
            for _ in range(4):
                for k in list(self.rw):
                    v = self.rw[k]
                    if v in self.rw and self.rw[v] != k:
                        self.rw[k] = self.rw[v]
            self.facts = {tuple(subst(x, self.rw) if isinstance(x, tuple) else x for x in f) for f in self.facts}
            self.ax = {tuple(subst(x, self.rw) if isinstance(x, tuple) else x for x in f) for f in self.ax}

    @staticmethod
    def _rank(t):
        # representatives: loads of footer fields first (the J lemmas are keyed on them), then
        # footer pointers, then everything else by size
        r = 2
        if t[0] == 'load' and t[1][0] == 'fld':
            if t[1][2].startswith('ChunkFooter.'):
                r = 0
            elif t[1][2].endswith('.current_chunk_footer'):
                r = 1
        return (r, len(repr(t)), repr(t))

    @staticmethod
    def _atomic(t):
        return t[0] in ('load', 'param', 'opaque', 'call', 'addr') or (t[0] == 'app' and t[1] in ('payload', 'vproj', 'proj', 'iter_any', 'galloc'))

    def canon(self, t):
        return subst(t, self.rw) if self.rw else t

    # ------------------------------------------------------------------ footers
    def footer_of_field_load(self, t, field):
        """if t == load(F.<field>) for ChunkFooter field return (F, epoch)"""
        if t[0] == 'load' and t[1][0] == 'fld' and t[1][2] == 'ChunkFooter.' + field and t[1][1][0] == 'deref':
            return t[1][1][1], t[2]
        return None

    def is_footer_ptr(self, t):
        """t is a value that the code treats as NonNull<ChunkFooter> obtained from the chunk list"""
        if t[0] == 'load' and t[1][0] == 'fld' and t[1][2].endswith('.current_chunk_footer'):
            return True
        if t[0] == 'load' and t[1][0] == 'fld' and t[1][2] == 'ChunkFooter.prev':
            return True
        if t[0] == 'addr' and root_static(t[1]) == 'EMPTY_CHUNK':
            return True
        if ('footer', t) in self.ax:
            return True
        return False

    def excluded_preds(self, prefix):
        """predecessors of merge `prefix` that the current facts rule out: a fact is(PHI, V) about another
        value merged at the same point whose alternative from that predecessor is statically a different variant"""
        out = set()
        for f in self.facts:
            if f[0] == 'is' and len(f) == 3:
                t = f[1]
                if t[0] == 'app' and t[1] == 'try_branch':
                    want = {'Continue': ('Some', 'Ok'), 'Break': ('None', 'Err')}.get(f[2])
                    t = t[2]
                else:
                    want = (f[2],)
                if t[0] == 'phi' and t[1][:2] == prefix and want:
                    for p, x in t[2]:
                        vs = self.I.variants_in(x) if self.I is not None else {None}
                        if None not in vs and not (vs & set(want)):
                            out.add(p)
        return out

    def vacuous(self):
        """the facts bound some term by integer constants that leave no value (e.g. 0 < x and x < 1): the case is infeasible"""
        v = getattr(self, '_vac', None)
        if v is not None:
            return v
        lo, hi, ne = {}, {}, {}
        for f in self.facts:
            if len(f) != 3 or f[0] not in ('lt', 'le', 'eq', 'ne'):
                continue
            a, b = f[1], f[2]
            if not (isinstance(a, tuple) and isinstance(b, tuple)):
                continue
            if f[0] in ('lt', 'le'):
                if is_c(a) and not is_c(b):
                    lo[b] = max(lo.get(b, 0), a[1] + (1 if f[0] == 'lt' else 0))
                elif is_c(b) and not is_c(a):
                    hi[a] = min(hi.get(a, 1 << 70), b[1] - (1 if f[0] == 'lt' else 0))
            elif f[0] == 'eq':
                for x, y in ((a, b), (b, a)):
                    if is_c(x) and not is_c(y):
                        lo[y] = max(lo.get(y, 0), x[1])
                        hi[y] = min(hi.get(y, 1 << 70), x[1])
        v = any(k in hi and hi[k] < lo[k] for k in lo)
        self._vac = v
        return v

    def const_of(self, d):
        """d == c follows from an equality fact"""
        for f in self.facts:
            if f[0] == 'eq' and len(f) == 3:
                if f[1] == d and is_c(f[2]):
                    return f[2]
                if f[2] == d and is_c(f[1]):
                    return f[1]
        return None

    # ------------------------------------------------------------------ divisibility among powers of two
    def divides(self, d, e, depth=0):
        """d | e  for powers of two d, e  (equivalently d <= e)"""
        if d == e or d == C(1):
            return True
        if is_c(d) and is_c(e):
            return d[1] > 0 and e[1] % d[1] == 0
        if depth > 4:
            return False
        if e[0] == 'app' and e[1] == 'max':
            if any(self.divides(d, o, depth + 1) for o in e[2:]):
                return True
        if d[0] == 'app' and d[1] == 'max':
            if all(self.divides(o, e, depth + 1) for o in d[2:]):
                return True
        if d[0] == 'app' and d[1] == 'min':
            if any(self.divides(o, e, depth + 1) for o in d[2:]):
                return True
        for f in self.facts:
            if f[0] in ('le', 'lt', 'eq') and len(f) == 3:
                if f[1] == d and f[2] == e:
                    return True
                if f[0] == 'eq' and f[2] == d and f[1] == e:
                    return True
        if d == sym('MIN_ALIGN') and is_c(e) and e[1] % CHUNK_ALIGN == 0:
            return True     # A3
        if ('le', d, e) in self.ax:
            return True
        # transitivity through one fact
        if depth < 2:
            for f in self.facts:
                if f[0] in ('le', 'lt', 'eq') and len(f) == 3 and f[1] == d and f[2] != e:
                    if self.divides(f[2], e, depth + 2):
                        return True
        return False

    # ------------------------------------------------------------------ aligned
    def aligned(self, t, d, depth=0):
        if depth == 0:
            t = self.norm(self.canon(t))
            d = self.canon(d)
        key = ('al', t, d)
        if key in self._memo:
            return self._memo[key]
        self._memo[key] = False
        r = self._aligned(t, d, depth)
        self._memo[key] = r
        return r

    def _aligned(self, t, d, depth):
        if depth > 10:
            return False
        if d == C(1):
            return True
        if not is_c(d):
            dc = self.const_of(d)
            if dc is not None:
                return self._aligned(t, dc, depth + 1)
        if is_c(t) and is_c(d):
            return d[1] > 0 and t[1] % d[1] == 0
        if is_c(t) and t[1] == 0:
            return True
        if is_c(t) and is_alignment(d) and not is_c(d) and t[1] % CHUNK_ALIGN == 0 and self.divides(d, C(CHUNK_ALIGN)):
            return True     # a multiple of 16 is a multiple of every alignment <= 16
        if ('aligned', t, d) in self.facts or ('aligned', t, d) in self.ax:
            return True
        for f in list(self.facts) + list(self.ax):
            if f[0] == 'aligned' and f[1] == t and self.divides(d, f[2]):
                return True
        for f in self.facts:
            # is_pointer_aligned_to(p, a) true edge:  round_down(p, a) == p
            if f[0] == 'eq':
                for x, y in ((f[1], f[2]), (f[2], f[1])):
                    if y == t and x[0] == 'app' and x[1] in ('round_down', 'round_up') and x[2] == t and self.divides(d, x[3]):
                        return True
                    # the same test spelled with the low bits:  p & (a - 1) == 0,  p % a == 0
                    if y == C(0) and x[0] == 'app' and x[1] == 'mod' and x[2] == t and self.divides(d, x[3]):
                        return True
        k = t[0]
        if k == 'app':
            f = t[1]
            if f in ('round_up', 'round_down'):
                if self.divides(d, t[3]):
                    return True
                return self.aligned(t[2], d, depth + 1)
            if f in ('add', 'sub', 'mul'):
                dd, c = lin(t)
                if c != 0:
                    if not (is_c(d) and c % d[1] == 0):
                        return False
                for a, co in dd.items():
                    if is_c(d) and co % d[1] == 0:
                        continue
                    if not self.aligned(a, d, depth + 1):
                        return False
                return True
            if f == 'wsub':
                return self.aligned(t[2], d, depth + 1) and self.aligned(t[3], d, depth + 1)
            if f == 'npot':
                # L7: y >= 2^k  =>  2^k | npot(y)
                if is_alignment(d) and self.le(d, t[2], depth + 1):
                    return True
                return False
            if f in ('max', 'min'):
                if is_alignment(t) and is_alignment(d) and self.divides(d, t):
                    return True     # powers of two: d <= max(..) means d divides it
                return all(self.aligned(o, d, depth + 1) for o in t[2:])
            if f == 'galloc':
                L = t[2]
                if L[0] == 'layout':
                    return self.divides(d, L[2])    # A4
                return self.divides(d, app('align', L))
            if f == 'iter_any' or f == 'payload':
                return False
        if k == 'load' and self.use_J:
            fp = self.footer_of_field_load(t, 'ptr')
            if fp and self.divides(d, sym('MIN_ALIGN')):
                return True        # J2
        if self.use_J and self.is_footer_ptr(t) and self.divides(d, C(self.footer_align)):
            return True            # J1
        if k == 'phi' and self.level < 7:
            pf = self.I.phi_facts.get(t[1][:2], {}) if self.I else {}
            skip = self.excluded_preds(t[1][:2])
            for p, x in t[2]:
                if p in skip:
                    continue
                sub = Prover(self.I, self.facts | set(pf.get(p, ())), self.use_J, self.ax, self.max_depth, self.footer_align, self.level + 1)
                if sub.vacuous():
                    continue
                if not sub.aligned(x, d, depth + 1):
                    return False
            return True
        if k == 'ite':
            a = Prover(self.I, self.facts | self.I.truth(None, t[1], True), self.use_J, self.ax, self.max_depth, self.footer_align, self.level + 1)
            b = Prover(self.I, self.facts | self.I.truth(None, t[1], False), self.use_J, self.ax, self.max_depth, self.footer_align, self.level + 1)
            return a.aligned(t[2], d, depth + 1) and b.aligned(t[3], d, depth + 1)
        return False

    # ------------------------------------------------------------------ le / lt / eq
    def le(self, a, b, depth=0):
        return self.nonneg(self.diff(self.canon(b), self.canon(a)), depth)

    def lt(self, a, b, depth=0):
        d, c = self.diff(self.canon(b), self.canon(a))
        return self.nonneg((d, c - 1), depth)

    def eq(self, a, b, depth=0):
        a, b = self.canon(a), self.canon(b)
        if a == b:
            return True
        d, c = self.diff(a, b)
        if not d and c == 0:
            return True
        for f in self.facts:
            if f[0] == 'eq' and ((f[1] == a and f[2] == b) or (f[1] == b and f[2] == a)):
                return True
        if self.le(a, b, depth) and self.le(b, a, depth):
            return True
        if depth == 0:
            ra, rb = self.norm_round(a), self.norm_round(b)
            if (ra, rb) != (a, b):
                d, c = self.diff(ra, rb)
                if not d and c == 0:
                    return True
                # one side may be a phi of values: compare per alternative
                if ra[0] == 'phi' or rb[0] == 'phi':
                    ph, other = (ra, rb) if ra[0] == 'phi' else (rb, ra)
                    pf = self.I.phi_facts.get(ph[1][:2], {}) if self.I else {}
                    ok = True
                    for p, x in ph[2]:
                        sub = Prover(self.I, self.facts | set(pf.get(p, ())), self.use_J, self.ax, self.max_depth, self.footer_align, self.level + 1)
                        if sub.vacuous():
                            continue
                        if not sub.eq(x, other, 1):
                            ok = False
                            break
                    if ok:
                        return True
        return False

    def norm(self, t):
        """rewrite wrapping subtraction to subtraction when it provably does not wrap"""
        if not isinstance(t, tuple) or not t:
            return t
        if t[0] == 'app' and t[1] == 'wsub':
            x, y = self.norm(t[2]), self.norm(t[3])
            if self.le(y, x, 3):
                return app('sub', x, y)
            return ('app', 'wsub', x, y)
        if t[0] == 'app' and t[1] in ('add', 'sub', 'mul'):
            return app(t[1], *[self.norm(x) for x in t[2:]])
        return t

    def norm_round(self, t, depth=0):
        """like norm, and additionally rounding of a provably aligned value is the identity"""
        if not isinstance(t, tuple) or not t or depth > 12:
            return t
        if t[0] == 'app' and t[1] in ('round_down', 'round_up'):
            x = self.norm_round(t[2], depth + 1)
            if self.aligned(x, t[3], 1):
                return x
            return ('app', t[1], x, t[3])
        if t[0] == 'app' and t[1] == 'wsub':
            x, y = self.norm_round(t[2], depth + 1), self.norm_round(t[3], depth + 1)
            if self.le(y, x, 3):
                return app('sub', x, y)
            return ('app', 'wsub', x, y)
        if t[0] == 'app' and t[1] in ('add', 'sub', 'mul'):
            return app(t[1], *[self.norm_round(x, depth + 1) for x in t[2:]])
        return t

    def diff(self, b, a):
        """linear form of b - a"""
        nb, na = self.norm(b), self.norm(a)
        d1, c1 = lin(nb)
        d2, c2 = lin(na)
        r = dict(d1)
        for k, v in d2.items():
            nv = r.get(k, 0) - v
            if nv == 0:
                r.pop(k, None)
            else:
                r[k] = nv
        return r, c1 - c2

    def _fact_diffs(self):
        """list of linear forms known to be >= 0"""
        if self._les is not None:
            return self._les
        def collect(nrm):
            out = []
            for f in list(self.facts) + list(self.ax):
                if f[0] == 'ne' and len(f) == 3 and (f[1] == C(0) or f[2] == C(0)):
                    # naturals: x != 0  =>  0 < x
                    x = f[2] if f[1] == C(0) else f[1]
                    x = nrm(x) if nrm else x
                    out.append(self._raw_diff(x, C(0), -1))
                    continue
                if f[0] in ('le', 'lt', 'eq') and len(f) == 3:
                    a, b = (nrm(f[1]), nrm(f[2])) if nrm else (f[1], f[2])
                    if f[0] == 'le':
                        out.append(self._raw_diff(b, a, 0))
                    elif f[0] == 'lt':
                        out.append(self._raw_diff(b, a, -1))
                    else:
                        out.append(self._raw_diff(b, a, 0))
                        out.append(self._raw_diff(a, b, 0))
            return out
        # first pass with the facts as they are, then normalise wrapping subtractions inside the
        # facts using that first pass (a wrapped term equals the difference once y <= x is known)
        self._les = collect(None)
        self._memo = {}
        self._busy = True
        try:
            second = collect(self.norm)
        finally:
            self._busy = False
        self._les = self._les + [x for x in second if x not in self._les]
        self._memo = {}
        return self._les

    def _raw_diff(self, b, a, k):
        d1, c1 = lin(b)
        d2, c2 = lin(a)
        r = dict(d1)
        for x, v in d2.items():
            nv = r.get(x, 0) - v
            if nv == 0:
                r.pop(x, None)
            else:
                r[x] = nv
        return r, c1 - c2 + k

    def nonneg(self, form, depth=0):
        d, c = form
        key = ('nn', tuple(sorted(d.items(), key=lambda kv: repr(kv[0]))), c)
        if key in self._memo:
            return self._memo[key]
        self._memo[key] = False
        r = self._nonneg(d, c, depth)
        self._memo[key] = r
        return r

    def _nonneg(self, d, c, depth):
        negs = [(k, v) for k, v in d.items() if v < 0]
        if not negs:
            if c >= 0:
                return True
            # need positive atoms to make up for a negative constant: lower bounds, or a known
            # non-negative difference that shares a positive atom
            if depth >= self.max_depth:
                return False
            for fd, fc in self._fact_diffs():
                if not any(fd.get(k, 0) > 0 for k in d):
                    continue
                nd = dict(d)
                for x, xv in fd.items():
                    nv = nd.get(x, 0) - xv
                    if nv == 0:
                        nd.pop(x, None)
                    else:
                        nd[x] = nv
                if self.nonneg((nd, c - fc), depth + 1):
                    return True
            for k, v in d.items():
                for lb in self.lower_bounds(k):
                    nd = dict(d)
                    del nd[k]
                    ld, lc = lin(self.norm(lb))
                    for x, xv in ld.items():
                        nd[x] = nd.get(x, 0) + v * xv
                        if nd[x] == 0:
                            del nd[x]
                    if self.nonneg((nd, c + v * lc), depth + 1):
                        return True
            return False
        if depth >= self.max_depth:
            return False
        # (1) subtract a known non-negative difference that cancels a negative atom
        for fd, fc in self._fact_diffs():
            if not any(k in fd and fd[k] < 0 for k, _ in negs):
                continue
            nd = dict(d)
            for x, xv in fd.items():
                nv = nd.get(x, 0) - xv
                if nv == 0:
                    nd.pop(x, None)
                else:
                    nd[x] = nv
            if self.nonneg((nd, c - fc), depth + 1):
                return True
        # (2) replace a negative atom by an upper bound
        for k, v in negs:
            for ub in self.upper_bounds(k):
                nd = dict(d)
                del nd[k]
                ud, uc = lin(self.norm(ub))
                for x, xv in ud.items():
                    nd[x] = nd.get(x, 0) + v * xv
                    if nd[x] == 0:
                        del nd[x]
                if self.nonneg((nd, c + v * uc), depth + 1):
                    return True
        # (3) replace a positive atom by a lower bound
        for k, v in list(d.items()):
            if v <= 0:
                continue
            for lb in self.lower_bounds(k):
                nd = dict(d)
                del nd[k]
                ld, lc = lin(self.norm(lb))
                for x, xv in ld.items():
                    nd[x] = nd.get(x, 0) + v * xv
                    if nd[x] == 0:
                        del nd[x]
                if self.nonneg((nd, c + v * lc), depth + 1):
                    return True
        # (4) L6: round_up(x, e) <= y  if  x <= y and aligned(y, e)   (goal shape: y - round_up(x,e) >= 0)
        if len(negs) == 1 and negs[0][1] == -1:
            k = negs[0][0]
            if k[0] == 'app' and k[1] == 'round_up':
                rest = dict(d)
                del rest[k]
                y = from_lin(rest, c)
                if self.aligned(y, k[3]) and self.le(k[2], y, depth + 1):
                    return True
        # (5) symmetric: y <= round_down(x, e)  if  y <= x and aligned(y, e)
        poss = [(k, v) for k, v in d.items() if v > 0]
        if len(poss) == 1 and poss[0][1] == 1 and poss[0][0][0] == 'app' and poss[0][0][1] == 'round_down':
            k = poss[0][0]
            rest = {x: -v for x, v in d.items() if x != k}
            y = from_lin(rest, -c)
            if self.aligned(y, k[3]) and self.le(y, k[2], depth + 1):
                return True
        # (6) phi atoms: prove for every alternative (bounded nesting; not while normalising the facts)
        for k, v in d.items():
            if k[0] == 'phi' and self.level < 3 and not self._busy:
                pf = self.I.phi_facts.get(k[1][:2], {}) if self.I else {}
                ok = True
                skip = self.excluded_preds(k[1][:2])
                for p, x in k[2]:
                    if p in skip:
                        continue
                    sub = Prover(self.I, self.facts | set(pf.get(p, ())), self.use_J, self.ax, self.max_depth, self.footer_align, self.level + 1)
                    if sub.vacuous():
                        continue
                    nd = dict(d)
                    del nd[k]
                    xd, xc = lin(sub.norm(x))
                    for y, yv in xd.items():
                        nd[y] = nd.get(y, 0) + v * yv
                        if nd[y] == 0:
                            del nd[y]
                    if not sub.nonneg((nd, c + v * xc), depth + 1):
                        ok = False
                        break
                if ok:
                    return True
        return False

    def upper_bounds(self, k):
        out = []
        if k == sym('MIN_ALIGN'):
            out.append(C(CHUNK_ALIGN))      # A3
        if k[0] == 'app':
            f = k[1]
            if f == 'round_down':
                out.append(k[2])
            elif f == 'min':
                out.extend(k[2:])
            elif f == 'satsub':
                out.append(k[2])
            elif f == 'mod':
                out.append(app('sub', k[3], C(1)))
            elif f == 'div2':
                out.append(k[2])
            elif f == 'abs_diff':
                pass
        if k[0] == 'load' and self.use_J:
            fp = self.footer_of_field_load(k, 'ptr')
            if fp:
                out.append(fp[0])                      # J2: F.ptr <= F
            fd = self.footer_of_field_load(k, 'data')
            if fd:
                out.append(('load', ('fld', ('deref', fd[0]), 'ChunkFooter.ptr'), fd[1]))   # J2: data <= ptr
        return out

    def lower_bounds(self, k):
        out = []
        if is_alignment(k) and not is_c(k):
            out.append(C(1))        # A2/A3: alignments are powers of two, hence >= 1
        if k[0] == 'load' and k[1][0] == 'fld' and k[1][2] == 'ChunkFooter.data' and self.use_J:
            out.append(C(1))        # NonNull<u8>
        if k[0] == 'app' and k[1] == 'galloc':
            for f in self.facts:
                if f[0] == 'ne' and k in f[1:] and C(0) in f[1:]:
                    out.append(C(1))
        if k[0] == 'app':
            f = k[1]
            if f == 'round_up':
                out.append(k[2])
            elif f == 'max':
                out.extend(k[2:])
            elif f == 'npot':
                out.append(k[2])
            elif f == 'mul' and is_c(k[3]) and k[3][1] >= 1:
                out.append(k[2])
            elif f == 'size' and self.use_J and self.I is not None and k[2][0] == 'load' and k[2][1][0] == 'fld' and k[2][1][2] == 'ChunkFooter.layout':
                out.append(self.I.size_of('ChunkFooter'))      # J3: layout.size = usable + FOOTER_SIZE
        if k[0] == 'load' and self.use_J:
            fp = self.footer_of_field_load(k, 'ptr')
            if fp:
                out.append(('load', ('fld', ('deref', fp[0]), 'ChunkFooter.data'), 0))       # J2 (data is immutable: epoch 0)
                if fp[1] != 0:
                    out.append(('load', ('fld', ('deref', fp[0]), 'ChunkFooter.data'), fp[1]))
        if self.use_J and self.is_footer_ptr(k):
            # F >= F.ptr at any epoch is not expressible without the epoch; skip
            pass
        return out


def root_static(lv):
    while lv[0] in ('fld', 'variant', 'idx'):
        lv = lv[1]
    if lv[0] == 'static':
        return lv[1].split('::')[-1]
    return None
