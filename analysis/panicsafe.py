"""Panic-safety automaton (C16): what state is a container in when user code may run (and unwind)?

Per function, the operations of its own frame are taken from TermFlow events (so field stores are
classified by their *terms*: x := x+k is a cursor/len commit upwards, x := x-k downwards, x := 0 a
len-first amplification) and replayed over the CFG to a fixpoint with this abstract state:

  holes  : a slot inside the container's length was moved out / dropped / bitwise-duplicated
  behind : the length was lowered for a slot that is about to be destroyed (commit-down first)
  pend   : a slot beyond the length was initialised (commit-up may follow)
  ahead  : a cursor/len was advanced with nothing initialised/processed to justify it
  amp    : the length was set to 0 (leak amplification): nothing in the buffer is exposed

At a user-call site (callback, generic drop, iterator .next(), a crate function that may run user
code) `ahead` must be false, and `holes` must be false unless amplified or covered by a guard (the
function is a method of, or owns a local of, a crate type whose Drop restores a length).
`ahead`, `pend`, `behind` are per-iteration notions and are reset along loop back edges; `holes`
persist."""
from . import termflow, cfg as cfgm, arena
from .terms import *

HOLE_CALLS = {'core::ptr::read': 'read', 'core::ptr::copy': 'copy', 'core::ptr::copy_nonoverlapping': 'copy', 'core::ptr::mut_ptr::<impl *mut T>::copy_to': 'copy',
              'core::ptr::const_ptr::<impl *const T>::copy_to': 'copy', 'core::ptr::mut_ptr::<impl *mut T>::copy_from': 'copy',
              'core::ptr::const_ptr::<impl *const T>::read': 'read', 'core::ptr::mut_ptr::<impl *mut T>::read': 'read'}
WRITE_CALLS = {'core::ptr::write', 'core::ptr::mut_ptr::<impl *mut T>::write'}
PURE_GENERIC_OK = ('core::mem::', 'core::ptr::', 'core::slice::', 'core::intrinsics::', 'core::cmp::', 'core::option::', 'core::result::', 'core::ops::try_trait', 'core::convert::',
                   'core::alloc::', 'core::num::', 'core::cell::', 'core::marker::', 'core::hint::', 'core::str::', 'core::char::', 'core::fmt::', 'core::panicking::', 'core::ops::range::',
                   'core::ops::deref::', 'core::ops::index::', 'core::iter::traits::iterator::Iterator::by_ref', 'core::iter::traits::iterator::Iterator::size_hint',
                   'core::iter::traits::collect::IntoIterator::into_iter', 'core::iter::traits::iterator::Iterator::enumerate', 'core::iter::traits::iterator::Iterator::cloned',
                   'core::iter::traits::iterator::Iterator::rev', 'core::iter::traits::iterator::Iterator::map', 'core::iter::traits::exact_size::ExactSizeIterator::len',
                   'core::iter::sources::', 'core::iter::traits::iterator::Iterator::filter_map', 'core::borrow::', 'core::pin::', 'core::any::', 'core::clone::Clone::clone_from')


def generic_payload(t):
    """does the call's generic instantiation mention a type parameter / closure (so std may call back into user code)"""
    c = t['callee']
    for g in c.get('gargs') or []:
        s = g.strip()
        if s.startswith("'"):
            continue
        if len(s) <= 2 and s[:1].isupper():
            return True
        if 'closure' in s or '{closure' in s:
            # a closure written in this crate is crate code: whether *it* runs user code is decided on its own body (may_user
            # links every closure to the function it is written in); only a type parameter brings in foreign code
            continue
        for tok in ('<T>', '<T,', ' T>', '[T]', '<I>', '<F>', '<I,', 'I::', 'T::', '<E>', ' F>', '&mut F', '&mut I', '&I', '&F'):
            if tok in s:
                return True
    return False


class PanicSafety:
    def __init__(self, db):
        self.db = db
        self._may_user = None
        self._sum = {}
        self.guards = None

    # ---- user-call classification
    def direct_user(self, t):
        c = t['callee']
        p = c.get('path')
        if p is None:
            return 'indirect call'
        if p.startswith('core::ops::function::Fn'):
            return 'closure call'
        if c.get('trait') and not (c.get('resolved') or {}).get('path') and c.get('self_kind') in ('param', 'alias', 'closure', 'dyn', 'fnptr'):
            return 'trait method on a generic type (%s)' % p.split('::')[-1]
        if p == 'core::ptr::drop_in_place' and generic_payload(t):
            return 'drop_in_place of a generic value'
        if not c.get('local') and generic_payload(t) and not any(p.startswith(x) for x in PURE_GENERIC_OK):
            rp = (c.get('resolved') or {}).get('path') or ''
            if (c.get('resolved') or {}).get('local'):
                return None
            return 'std generic function instantiated with caller types (%s)' % p.split('::')[-1]
        return None

    def may_user(self):
        if self._may_user is not None:
            return self._may_user
        db = self.db
        direct = {}
        edges = {}
        for b in db.fn_bodies():
            g = db.cfg(b)
            d = None
            outs = set()
            for bi in g.reachable:
                t = b['blocks'][bi]['term']
                if t['k'] == 'call':
                    w = self.direct_user(t)
                    if w:
                        d = w
                    p = db.callee_path(t)
                    tb = db.by_path.get(p) if p else None
                    if tb is not None:
                        outs.add(tb['id'])
                elif t['k'] == 'drop' and t.get('needs_drop') and t.get('has_param'):
                    d = 'drop of a value of generic type'
            direct[b['id']] = d
            edges[b['id']] = outs
        for b in db.fn_bodies():
            if b['kind'] == 'closure':
                pf = b['meta'].get('parent_fn')
                for pb in db.fn_bodies():
                    if pb['kind'] != 'closure' and pb['meta'].get('path') == pf:
                        edges[pb['id']].add(b['id'])
        mu = {k: v for k, v in direct.items() if v}
        changed = True
        while changed:
            changed = False
            for k, outs in edges.items():
                if k in mu:
                    continue
                for o in outs:
                    if o in mu:
                        mu[k] = 'calls %s' % o.split('::')[-1]
                        changed = True
                        break
        self._may_user = mu
        return mu

    # ---- guards: crate ADTs whose Drop restores a length
    def guard_adts(self):
        """crate ADTs whose Drop::drop restores a length: it stores to a Vec.len field, or through a
        pointer kept in a field called `len`, or it owns (drops) a local of such a type"""
        if self.guards is not None:
            return self.guards
        out = set()
        drops = []
        for b in self.db.fn_bodies():
            m = b['meta']
            if b['kind'] == 'assoc_fn' and (m.get('impl_trait') or '').endswith('ops::drop::Drop') and m.get('name') == 'drop' and m.get('impl_adt'):
                I = arena.ArenaInterp(self.db)
                try:
                    r = I.run_entry(b['id'])
                except Exception:
                    continue
                drops.append((m['impl_adt'], b, r))
                for e in r.events:
                    if e.kind == 'store' and e.lv is not None:
                        rep = repr(e.lv)
                        if "Vec.len'" in rep or ".len'" in rep:
                            out.add(m['impl_adt'])
        changed = True
        while changed:
            changed = False
            for adt, b, r in drops:
                if adt in out:
                    continue
                tys = [ty for ty in b['locals'][1:]]
                for g in list(out):
                    short = g.split('::')[-1]
                    if any((short + '<') in ty or ty.endswith(short) for ty in tys):
                        out.add(adt)
                        changed = True
                        break
        self.guards = out
        return out

    # ---- helper summaries: how does a crate-local callee change length-like fields
    def summary(self, callee_id):
        if callee_id in self._sum:
            return self._sum[callee_id]
        b = self.db.bodies.get(callee_id)
        res = []
        self._sum[callee_id] = res
        if b is None or b['argc'] == 0:
            return res
        I = arena.ArenaInterp(self.db)
        try:
            r = I.run_entry(b['id'])
        except Exception:
            return res
        for e in r.events:
            if e.kind == 'store' and e.lv and e.lv[0] == 'fld' and root_param(e.lv) == 1:
                res.append(classify_store(I, e))
            elif e.kind == 'call' and any(f[0].startswith('Bump::') or 'raw_vec::RawVec' in f[0] or f[0].startswith('alloc::') or f[0].startswith('<&') for f in e.stack):
                continue        # the allocator moving a whole buffer (realloc) is not an element move inside the container
            elif e.kind == 'call' and e.callee in HOLE_CALLS and not (HOLE_CALLS[e.callee] == 'read' and reads_self_field(e)):
                # the callee moves elements itself (Drain::move_tail's memmove): the cursor update that follows commits that move
                res.append(('HOLE', HOLE_CALLS[e.callee], None))
            elif e.kind == 'call' and e.callee in WRITE_CALLS:
                res.append(('WRITE', 'ptr::write', None))
        return res

    # ---- per function
    def analyse(self, body):
        db = self.db
        I = arena.ArenaInterp(db)
        r = I.run_entry(body['id'])
        mu = self.may_user()
        guards = self.guard_adts()
        ops = {}

        def add(bi, op):
            ops.setdefault(bi, []).append(op)
        for e in r.events:
            if len(e.stack) != 1:
                continue
            if e.kind in ('store', 'lstore') and e.lv is not None:
                if e.lv[0] != 'fld' or e.extra.get('via') == 'ptr::write':
                    continue        # raw element writes are WRITE ops (from the call event), not length commits
                k = classify_store(I, e)
                if k[0] in ('UP', 'DOWN', 'ZERO', 'SET', 'LOWER'):
                    add(e.block, (k[0], e, k[1]))
            elif e.kind == 'call':
                c = e.extra.get('callee') or {}
                t = {'callee': c} if c else None
                p = c.get('path') if c else None
                tgt = e.callee
                if p is None and not e.extra.get('closure'):
                    add(e.block, ('U', e, 'indirect call'))
                    continue
                if e.extra.get('closure'):
                    continue
                w = self.direct_user({'callee': c, 'k': 'call'}) if c else None
                if w and tgt != 'core::ptr::drop_in_place':
                    add(e.block, ('U', e, w))
                    continue
                if tgt == 'core::ptr::drop_in_place':
                    add(e.block, ('UDROP', e, 'drop_in_place'))
                    continue
                if tgt in HOLE_CALLS:
                    if HOLE_CALLS[tgt] == 'read' and reads_self_field(e):
                        continue
                    add(e.block, ('HOLE', e, HOLE_CALLS[tgt]))
                    continue
                if tgt in WRITE_CALLS:
                    add(e.block, ('WRITE', e, 'ptr::write'))
                    continue
                lb = db.by_path.get(tgt)
                if lb is not None:
                    if lb['id'] in mu:
                        add(e.block, ('U', e, 'crate function that may run user code: %s (%s)' % (tgt.split('::')[-1], mu[lb['id']])))
                        continue
                    seen_sum = set()
                    for kind, fld, argi in self.summary(lb['id']):
                        # the same field committed on several paths of the callee is one commit at the call site
                        if (kind, fld, argi) in seen_sum:
                            continue
                        seen_sum.add((kind, fld, argi))
                        if kind == 'SETARG':
                            a = e.args[argi - 1] if argi - 1 < len(e.args) else None
                            k = classify_value(I, e, a, fld, e.args[0] if e.args else None)
                            add(e.block, (k, e, fld))
                        elif kind in ('UP', 'DOWN', 'ZERO', 'SET', 'HOLE', 'WRITE'):
                            add(e.block, (kind, e, fld))
            elif e.kind == 'usercall':
                add(e.block, ('U', e, 'callable parameter'))
            elif e.kind == 'drop':
                if e.extra.get('has_param'):
                    add(e.block, ('U', e, 'drop of %s' % (e.extra.get('ty') or '?')[-40:]))
            elif e.kind == 'drop_in_place':
                pass
            elif e.kind == 'copy':
                pass
        # guard coverage
        m = body['meta']
        self_guard = m.get('impl_adt') in guards
        local_guard = any(any(g and (g.split('::')[-1] + '<') in ty or ty.endswith(g.split('::')[-1]) for g in guards if g) for ty in body['locals'][1:])
        # Drop impls are allowed to leave holes: the container is going away
        is_drop = (m.get('impl_trait') or '').endswith('ops::drop::Drop')
        g = db.cfg(body)
        back = set(g.back_edges())
        init = (0, 0, 0, 0, 0)      # holes, behind, pend, ahead, amp
        state = {0: init}
        out_state = {}
        work = [0]
        findings = []
        seen_f = set()
        nu = 0
        while work:
            bi = work.pop()
            st = state[bi]
            holes, behind, pend, ahead, amp = st
            for op, e, info in ops.get(bi, []):
                if op in ('U', 'UDROP'):
                    nu += 1
                    if op == 'UDROP':
                        # the slot being destroyed must already be excluded from the length
                        if behind:
                            behind = 0
                            slot_exposed = False
                        else:
                            slot_exposed = not amp and not is_drop
                    else:
                        slot_exposed = False
                    problems = []
                    if ahead:
                        problems.append('a length/cursor field was advanced before this call although nothing was initialised/processed for it (on unwind it covers a slot it must not)')
                    if holes and not amp and not (self_guard or local_guard) and not is_drop:
                        problems.append('the container still exposes a slot that was moved out, dropped or duplicated (no length lowered first, no guard)')
                    if slot_exposed:
                        problems.append('the slot being dropped is still inside the container length (lower the length before running the destructor)')
                    for pr in problems:
                        key = (e.span, pr[:30])
                        if key not in seen_f:
                            seen_f.add(key)
                            findings.append((e, info, pr))
                    if op == 'UDROP' and slot_exposed:
                        holes = 1
                elif op == 'HOLE':
                    if behind:
                        behind = 0
                    elif ahead:
                        ahead = 0       # the cursor was moved past this slot just before it is read out
                    else:
                        holes = 1
                elif op == 'WRITE':
                    pend = 1
                elif op == 'UP':
                    if pend or holes:
                        pend = 0
                        holes = 0       # the cursor/length moved past the consumed slot / over the initialised one
                    else:
                        ahead = 1
                elif op == 'DOWN':
                    if holes:
                        holes = 0
                    else:
                        behind = 1
                elif op == 'ZERO':
                    amp = 1
                    holes = 0
                elif op == 'SET':
                    if holes or pend or ahead or behind:
                        # commits what the preceding moves / writes prepared
                        holes = 0
                        pend = 0
                        ahead = 0
                        amp = 0
                    else:
                        # a length set to a new value with nothing written or moved beforehand: if user code runs next,
                        # the length may cover slots that are not initialised yet (set_len(n) before filling)
                        ahead = 1
                        amp = 0
            ns = (holes, behind, pend, ahead, amp)
            out_state[bi] = ns if bi not in out_state else (max(out_state[bi][0], ns[0]), 0, 0, 0, min(out_state[bi][4], ns[4]))
            for s in g.succ[bi]:
                out = ns
                if (bi, s) in back:
                    out = (ns[0], 0, 0, 0, ns[4])
                old = state.get(s)
                new = out if old is None else (max(old[0], out[0]), min(old[1], out[1]), min(old[2], out[2]), max(old[3], out[3]), min(old[4], out[4]))
                if new != old:
                    state[s] = new
                    work.append(s)
        end_holes = []
        for bi in g.returns():
            st = out_state.get(bi)
            if st and st[0] and not st[4] and not (self_guard or local_guard) and not is_drop:
                end_holes.append(bi)
        return {'end_holes': end_holes, 'findings': findings, 'user_sites': nu, 'ops': sum(len(v) for v in ops.values()), 'guarded': self_guard or local_guard}


def root_param(lv):
    while lv[0] in ('fld', 'variant', 'idx'):
        lv = lv[1]
    if lv[0] == 'deref' and lv[1][0] == 'param':
        return lv[1][1]
    return None


def reads_self_field(e):
    a = e.args[0] if e.args else None
    return a is not None and a[0] == 'addr' and a[1][0] == 'fld'


def classify_store(I, e):
    """(kind, field, arg index)   kind: UP / DOWN / ZERO / SET / SETARG / FLAG / OTHER"""
    lv = e.lv
    fld = lv[2] if lv[0] == 'fld' else '?'
    v = e.val
    if v is None:
        return ('OTHER', fld, None)
    if v[0] in ('cmp', 'not') or (v[0] == 'phi' and all(is_c(x) or x[0] in ('cmp', 'not') for _, x in v[2])):
        return ('FLAG', fld, None)
    if fld.startswith('Bump.') or fld.startswith('ChunkFooter.') or '::Bump.' in fld or '::ChunkFooter.' in fld:
        # the arena's own bookkeeping (finger, list head, counters) is not a container length or cursor: what this automaton
        # tracks is which slots of a Vec / String / iterator are exposed while user code runs
        return ('OTHER', fld, None)
    short = fld.split('.')[-1]
    # a capacity is not a length: growing or shrinking the buffer exposes nothing, so `cap` stores are not commits
    lengthy = short in ('len', 'local_len', 'idx', 'del', 'del_bytes', 'tail_start', 'tail_len', 'old_len') or 'len' in short or 'idx' in short
    if is_c(v):
        if v[1] == 0 and lengthy:
            return ('ZERO', fld, None)
        return ('FLAG', fld, None) if v[1] in (0, 1) and not lengthy else ('SET', fld, None)
    if v[0] == 'param':
        return ('SETARG', fld, v[1])
    old = I.read(e.state.copy(), lv)
    k = classify_value(I, e, v, fld, None, old)
    if k == 'SET' and not lengthy:
        # a pointer / slice / iterator stored into a field that is not a length or cursor count: not a length commit
        return ('OTHER', fld, None)
    return (k, fld, None)


def classify_value(I, e, v, fld, selfarg, old=None):
    if v is None:
        return 'SET'
    if is_c(v):
        return 'ZERO' if v[1] == 0 else 'SET'
    from .prover import Prover
    P = Prover(I, e.state.facts, use_J=False)
    d, c = lin(P.norm(v))
    cands = []
    if old is not None:
        cands.append(old)
    for k in d:
        if k[0] == 'load' and k[1][0] == 'fld' and k[1][2] == fld:
            cands.append(k)
        if k[0] == 'phi':
            cands.append(k)
    for o in cands:
        if d.get(o) == 1:
            rest = {k: x for k, x in d.items() if k != o}
            if (all(x > 0 for x in rest.values()) and c >= 0) and (rest or c > 0):
                return 'UP'
            if (all(x < 0 for x in rest.values()) and c <= 0) and (rest or c < 0):
                return 'DOWN'
    if v[0] == 'app' and v[1] == 'wsub':
        return 'DOWN'
    # a value proved not to exceed the current length only lowers it (leak amplification, never exposes a slot)
    cur = None
    if selfarg is not None:
        base = selfarg[1] if selfarg[0] == 'addr' else ('deref', selfarg)
        cur = I.read(e.state.copy(), ('fld', base, fld))
    elif old is not None:
        cur = old
    if cur is not None:
        # the field is exclusively borrowed by the method: a re-read after an opaque call denotes the same length (assumption U)
        cands = [cur]
        if cur[0] == 'load':
            for f in e.state.facts:
                for t in subterms(f):
                    if isinstance(t, tuple) and t and t[0] == 'load' and t[1] == cur[1] and t not in cands:
                        cands.append(t)
        try:
            if any(P.le(v, c0) for c0 in cands[:4]):
                return 'LOWER'
        except RecursionError:
            pass
    return 'SET'
