"""E-WIT: compile-verdict witnesses.  The crate is built from the current /repo tree into a fresh
target dir (cached by tree hash under /verif/.cache), each probe is compiled with
`rustc --emit=metadata --error-format=json --extern bumpalo=<rlib>`; the verdict (accepted /
rejected with error codes) is compared with the expectation.  Every rejected probe has a compiling
twin that differs only by the offending line(s), so a probe that fails for an unrelated reason
(wrong path, typo) is detected."""
import concurrent.futures, hashlib, json, os, shutil, subprocess, tempfile
from . import extract

FEATURES = 'collections,boxed'


def build_rlib(repo=None):
    repo = repo or extract.REPO
    key = hashlib.sha256((extract.tree_hash(repo) + FEATURES).encode()).hexdigest()[:24]
    d = os.path.join(extract.CACHE, 'rlib-' + key)
    marker = os.path.join(d, 'ok')
    import time
    if os.path.exists(marker):
        try:
            os.utime(d, None)               # a build in use is not stale
            os.utime(marker, None)
            return d
        except OSError:
            pass                            # pruned between the test and the touch: build again
    os.makedirs(extract.CACHE, exist_ok=True)
    for f in os.listdir(extract.CACHE):
        fp = os.path.join(extract.CACHE, f)
        # other runs (kill tests, parallel checks) may still be using a recent build: only prune stale ones
        # (a thorough run of all packs takes about an hour and touches the builds it uses)
        try:
            if (f.startswith('rlib-') or f.startswith('stage-rlib.')) and fp != d and time.time() - os.path.getmtime(fp) > 4 * 3600:
                shutil.rmtree(fp, ignore_errors=True)
        except OSError:
            pass
    tmp = tempfile.mkdtemp(prefix='wit.')
    try:
        env = dict(os.environ)
        env.update({'CARGO_TARGET_DIR': os.path.join(tmp, 't'), 'CARGO_NET_OFFLINE': 'true', 'RUSTFLAGS': '-Awarnings -Adangerous_implicit_autorefs'})
        r = subprocess.run(['cargo', 'build', '--offline', '--lib', '-q', '--features', FEATURES], cwd=repo, env=env, capture_output=True, text=True)
        if r.returncode != 0:
            raise SystemExit('witness build of /repo failed:\n' + r.stderr[-2000:])
        deps = os.path.join(tmp, 't', 'debug', 'deps')
        # publish atomically: fill a private directory, then rename it into place (a concurrent builder of the
        # same tree may win the race; its result is identical)
        stage = tempfile.mkdtemp(prefix='stage-rlib.', dir=extract.CACHE)
        for f in os.listdir(deps):
            if f.endswith('.rlib') or f.endswith('.rmeta'):
                shutil.copy(os.path.join(deps, f), stage)
        open(os.path.join(stage, 'ok'), 'w').write('ok')
        try:
            os.rename(stage, d)
        except OSError:
            if os.path.exists(marker):
                shutil.rmtree(stage, ignore_errors=True)
            else:                           # a half-built directory of an older version of this module
                shutil.rmtree(d, ignore_errors=True)
                os.rename(stage, d)
        return d
    finally:
        shutil.rmtree(tmp, ignore_errors=True)


def compile_probe(libdir, src, name):
    rlib = [f for f in os.listdir(libdir) if f.startswith('libbumpalo') and f.endswith('.rlib')]
    tmp = tempfile.mkdtemp(prefix='probe.')
    try:
        p = os.path.join(tmp, 'probe.rs')
        with open(p, 'w') as fh:
            fh.write(src)
        cmd = ['rustc', '--edition', '2021', '--crate-name', 'probe', '--crate-type', 'lib', '--emit=metadata', '--error-format=json', '-Awarnings',
               '--extern', 'bumpalo=' + os.path.join(libdir, rlib[0]), '-L', 'dependency=' + libdir, '-o', os.path.join(tmp, 'out.rmeta'), p]
        r = subprocess.run(cmd, capture_output=True, text=True)
        codes = []
        msgs = []
        for line in r.stderr.splitlines():
            try:
                j = json.loads(line)
            except ValueError:
                continue
            if j.get('level') == 'error':
                c = (j.get('code') or {}).get('code')
                if c:
                    codes.append(c)
                msgs.append(j.get('message', ''))
        return {'ok': r.returncode == 0, 'codes': codes, 'messages': msgs[:3]}
    finally:
        shutil.rmtree(tmp, ignore_errors=True)


def run_probes(libdir, probes):
    """probes: list of (name, source); returns dict name -> verdict"""
    out = {}
    with concurrent.futures.ThreadPoolExecutor(max_workers=16) as ex:
        futs = {ex.submit(compile_probe, libdir, src, name): name for name, src in probes}
        for f in concurrent.futures.as_completed(futs):
            out[futs[f]] = f.result()
    return out
