"""Shared TermFlow analyses of the arena core (lib.rs): entry points, footer-store events,
store classification, chunk-invariant obligations.  Used by the C01/C03/C04/C06/C07/C08/C10/C11/C12/C18/C20 packs."""
from . import termflow, prover
from .terms import *
from .facts import loc

MIN = sym('MIN_ALIGN')
IMMUTABLE_FOOTER_FIELDS = ('ChunkFooter.data', 'ChunkFooter.layout')


def find_method(db, name, impl_self_contains='Bump', trait=None):
    out = []
    for b in db.raw['bodies']:
        if b['kind'] != 'assoc_fn':
            continue
        m = b['meta']
        if m.get('name') != name:
            continue
        if impl_self_contains not in (m.get('impl_self') or ''):
            continue
        it = m.get('impl_trait')
        if trait is None:
            if it:
                continue
        else:
            if not it or not it.endswith(trait):
                continue
        out.append(b)
    return out


def bump_method(db, name):
    r = [b for b in find_method(db, name) if (b['meta'].get('impl_adt') == 'Bump')]
    return r[0] if r else None


def trait_method(db, trait, name):
    r = find_method(db, name, 'Bump', trait)
    return r[0] if r else None


ARENA_ENTRIES = [
    # key, locator
    ('try_alloc_layout', lambda db: bump_method(db, 'try_alloc_layout')),
    ('alloc_layout', lambda db: bump_method(db, 'alloc_layout')),
    ('reset', lambda db: bump_method(db, 'reset')),
    ('drop', lambda db: trait_method(db, 'ops::drop::Drop', 'drop')),
    ('alloc_try_with', lambda db: bump_method(db, 'alloc_try_with')),
    ('try_alloc_try_with', lambda db: bump_method(db, 'try_alloc_try_with')),
    ('alloc_slice_try_fill_with', lambda db: bump_method(db, 'alloc_slice_try_fill_with')),
    ('Alloc::alloc', lambda db: trait_method(db, 'alloc::Alloc', 'alloc')),
    ('Alloc::dealloc', lambda db: trait_method(db, 'alloc::Alloc', 'dealloc')),
    ('Alloc::realloc', lambda db: trait_method(db, 'alloc::Alloc', 'realloc')),
    ('Allocator::allocate', lambda db: trait_method(db, 'alloc::Allocator', 'allocate')),
    ('Allocator::deallocate', lambda db: trait_method(db, 'alloc::Allocator', 'deallocate')),
    ('Allocator::shrink', lambda db: trait_method(db, 'alloc::Allocator', 'shrink')),
    ('Allocator::grow', lambda db: trait_method(db, 'alloc::Allocator', 'grow')),
    ('Allocator::grow_zeroed', lambda db: trait_method(db, 'alloc::Allocator', 'grow_zeroed')),
    ('try_with_min_align_and_capacity', lambda db: bump_method(db, 'try_with_min_align_and_capacity')),
    ('with_min_align', lambda db: bump_method(db, 'with_min_align')),
    ('set_allocation_limit', lambda db: bump_method(db, 'set_allocation_limit')),
    ('allocation_limit', lambda db: bump_method(db, 'allocation_limit')),
    ('chunk_capacity', lambda db: bump_method(db, 'chunk_capacity')),
    ('allocated_bytes', lambda db: bump_method(db, 'allocated_bytes')),
    ('allocated_bytes_including_metadata', lambda db: bump_method(db, 'allocated_bytes_including_metadata')),
    ('iter_allocated_chunks_raw', lambda db: bump_method(db, 'iter_allocated_chunks_raw')),
    ('iter_allocated_chunks', lambda db: bump_method(db, 'iter_allocated_chunks')),
]


class ArenaInterp(termflow.Interp):
    """loads of fields that are never written after a footer is created get epoch 0, so that
    F.data / F.layout read at different times are the same term (rule C01.R8 checks the premise)"""

    def read(self, st, lv):
        if lv[0] == 'fld' and lv[2] in IMMUTABLE_FOOTER_FIELDS and lv not in st.mem and lv[1][0] == 'deref':
            return ('load', lv, 0)
        return super().read(st, lv)


def split_mixed_finger_stores(I, res):
    """a finger store whose value is a merge of differently classified values (`let p = if same_chunk { saved } else { footer };
    finger.set(p)`) is replaced by one store per alternative, each under the facts of its predecessor edge: the obligations of
    each class then apply to its own alternative"""
    from . import termflow
    out = []
    changed = False
    for e in res.events:
        if e.kind == 'store' and footer_field(e) and footer_field(e)[1] == 'ptr' and e.val is not None and e.val[0] == 'phi':
            try:
                cls = classify_finger_store(I, res, e)
            except Exception:
                cls = ''
            if cls.startswith('MIXED'):
                pf = I.phi_facts.get(e.val[1][:2], {})
                for p, x in e.val[2]:
                    st2 = e.state.copy()
                    st2.facts |= set(pf.get(p, ()))
                    c = termflow.Event(e.kind, e.fn, e.stack, e.block, e.span, st2, lv=e.lv, val=x, callee=e.callee, args=e.args, extra=dict(e.extra, split_of=p))
                    c.ret = e.ret
                    c.own = e.own
                    out.append(c)
                changed = True
                continue
        out.append(e)
    if changed:
        res.events = out
    return res


_orig_run_entry = ArenaInterp.run_entry


def _run_entry_split(self, *a, **k):
    res = _orig_run_entry(self, *a, **k)
    try:
        split_mixed_finger_stores(self, res)
    except RecursionError:
        pass
    return res


ArenaInterp.run_entry = _run_entry_split


def analyse(ctx, config='rel-all', only=None):
    """run TermFlow on every arena entry point of this configuration; cached on ctx"""
    cache = ctx.__dict__.setdefault('_arena', {})
    if config in cache and only is None:
        return cache[config]
    db = ctx.db(config)
    out = cache.get(config, {})
    for key, locate in ARENA_ENTRIES:
        if only is not None and key not in only:
            continue
        if key in out:
            continue
        b = locate(db)
        if b is None:
            out[key] = None
            continue
        I = ArenaInterp(db)
        r = I.run_entry(b['id'])
        out[key] = (I, r, b)
    cache[config] = out
    return out


# ------------------------------------------------------------------ event helpers
def footer_field(ev):
    """(F, field) if the event stores to field `field` of the ChunkFooter pointed to by F"""
    lv = ev.lv
    if lv and lv[0] == 'fld' and lv[2].startswith('ChunkFooter.') and lv[1][0] == 'deref':
        return lv[1][1], lv[2].split('.')[1]
    if lv and lv[0] == 'fld' and lv[2].startswith('ChunkFooter.') and lv[1][0] == 'fld':
        # &EMPTY_CHUNK.0 .field  (static footer)
        return ('addr', lv[1]), lv[2].split('.')[1]
    return None


def bump_field(ev):
    lv = ev.lv
    if lv and lv[0] == 'fld' and lv[2].startswith('Bump.'):
        base = lv[1]
        return (base[1] if base[0] == 'deref' else ('addr', base)), lv[2].split('.')[1]
    return None


def footer_agg(ev):
    """(address term, aggregate) if the event writes a whole ChunkFooter value"""
    if ev.val is not None and ev.val[0] == 'agg' and ev.val[1] == 'ChunkFooter' and ev.lv and ev.lv[0] == 'deref':
        return ev.lv[1], ev.val
    return None


def stores(res, kinds=('store',)):
    return [e for e in res.events if e.kind in kinds]


def innermost(ev):
    return ev.stack[-1][0] if ev.stack else ev.fn


def owner_fn(I, ev):
    """the function an event belongs to when private helpers that are exclusive to one caller are read as parts of that
    caller (extract-method refactoring): the innermost frame that is not such a helper"""
    stk = ev.stack
    while len(stk) > 1 and I.exclusive_helper(stk[-1][0], stk[-2][0]):
        stk = stk[:-1]
    return stk[-1][0]


def on_every_return_path(I, ev):
    """the event happens on every path that returns normally: in each frame of its inline stack, the block holding the event
    (or the call that leads to it) lies on every path from that frame's entry to its returns"""
    stk = ev.stack
    for k in range(len(stk)):
        fn = stk[k][0]
        body = I.db.bodies.get(fn) or I.db.by_path.get(fn)
        if body is None:
            return False
        blk = stk[k + 1][1] if k + 1 < len(stk) else ev.block
        g = I.db.cfg(body)
        if not g.every_path_passes(0, {blk}, g.returns()):
            return False
    return True


def short(fn):
    return fn.replace('Bump::<MIN_ALIGN>::', 'Bump::')


def stack_str(ev):
    return ' > '.join(short(s[0]) for s in ev.stack)


def site_key(ev, what):
    """key without line numbers: innermost function + what"""
    return short(innermost(ev)), what


def loadf(F, field, epoch=0):
    return ('load', ('fld', ('deref', F), 'ChunkFooter.' + field), epoch)


def old_finger(I, ev):
    """value of F.ptr just before the store event"""
    ff = footer_field(ev)
    F = ff[0]
    return I.read(ev.state.copy(), ('fld', ('deref', F), 'ChunkFooter.ptr')) if F[0] != 'addr' else I.read(ev.state.copy(), ('fld', F[1], 'ChunkFooter.ptr'))


def mk_prover(I, ev, res=None, extra=()):
    ax = set(extra)
    if res is not None:
        for e in res.events:
            if e.kind == 'store':
                bf = bump_field(e)
                if bf and bf[1] == 'current_chunk_footer':
                    ax.add(('footer', e.val))
                fa = footer_agg(e)
                if fa:
                    ax.add(('footer', fa[0]))
    return prover.Prover(I, canon_facts(ev.state.facts), extra_axioms=ax)


def canon_facts(facts):
    return set(facts)


# ------------------------------------------------------------------ classification of finger stores
def classify_finger_store(I, res, ev):
    """BUMP / RECLAIM / SAVED / EMPTY / FULL / OTHER for a store to F.ptr (DESIGN C01.R1)"""
    F, _ = footer_field(ev)
    v = ev.val
    old = old_finger(I, ev)
    return classify_value(I, ev, F, v, old)


def is_load_of(t, field):
    return t[0] == 'load' and t[1][0] == 'fld' and t[1][2] == 'ChunkFooter.' + field


def classify_value(I, ev, F, v, old, depth=0):
    if v[0] == 'phi' and depth < 4:
        cs = {classify_value(I, ev, F, x, old, depth + 1) for _, x in v[2]}
        return cs.pop() if len(cs) == 1 else 'MIXED:' + '/'.join(sorted(cs))
    if v == F:
        return 'EMPTY'
    if v[0] == 'app' and v[1] == 'round_down' and v[2] == F:
        # rounding the footer address down is the identity only for alignments that divide it
        P0 = prover.Prover(I, ev.state.facts)
        if P0.aligned(F, v[3]):
            return 'EMPTY'
        return 'OTHER'
    if is_load_of(v, 'data'):
        return 'FULL'
    if is_load_of(v, 'ptr'):
        # a finger value loaded earlier (possibly of another footer term that is asserted equal)
        if v == old:
            return 'SAME'
        return 'SAVED'
    # arithmetic relative to the old finger
    P = prover.Prover(I, ev.state.facts)
    v = P.norm(v)
    base = v
    if base[0] == 'app' and base[1] in ('round_up', 'round_down'):
        inner = base[2]
    else:
        inner = base
    d, c = lin(P.norm(inner))
    for k0, co in d.items():
        if co != 1:
            continue
        down = k0 == old or (k0[0] == 'app' and k0[1] == 'round_down' and k0[2] == old)
        up = k0 == old or (k0[0] == 'app' and k0[1] == 'round_up' and k0[2] == old)
        rest = {k: x for k, x in d.items() if k != k0}
        if down and all(x < 0 for x in rest.values()) and c <= 0:
            return 'BUMP'
        if up and all(x > 0 for x in rest.values()) and c >= 0:
            return 'RECLAIM'
    # x.wrapping_sub(n) kept as wsub because the bound is only known under the facts
    if inner[0] == 'app' and inner[1] == 'wsub':
        a = inner[2]
        if a == old or (a[0] == 'app' and a[1] == 'round_down' and a[2] == old):
            return 'BUMP'
    if base[0] == 'app' and base[1] == 'round_down' and base[2] == old:
        return 'BUMP'
    if base[0] == 'app' and base[1] == 'round_up' and base[2] == old:
        return 'RECLAIM'
    return 'OTHER'


# ------------------------------------------------------------------ invariant obligations
def j2_obligations(I, res, ev, F, newptr, extra_axioms=()):
    """J2 for footer F with finger value newptr: returns dict name -> bool"""
    ax = set(extra_axioms) | reclaim_precondition(I, ev, F)
    P = mk_prover(I, ev, res, ax)
    data = loadf(F, 'data')
    out = {}
    out['aligned(new, MIN_ALIGN)'] = P.aligned(newptr, MIN)
    out['data <= new'] = P.le(data, newptr)
    out['new <= footer'] = P.le(newptr, F)
    return out, P


def unsafe_block_params(I, ev):
    """(ptr, layout) argument values of the innermost frame if it is an `unsafe fn(&self, NonNull<u8>, Layout, ..)`
    (the crate's dealloc / shrink / grow), else None"""
    full = ev.stack
    entry_id = full[0][0]
    for k in range(len(full), 0, -1):
        fid = full[:k]
        body = I.bodies.get(fid[-1][0])
        if body is None:
            return None
        m = body['meta']
        ins = m.get('inputs') or []
        if m.get('unsafe') and len(ins) >= 3 and 'NonNull<u8>' in ins[1] and ins[2].endswith('Layout'):
            p = ev.state.env.get((fid, 2))
            L = ev.state.env.get((fid, 3))
            if p is None or L is None:
                return None
            return p, L
        # a private helper extracted from the function above it: the contract is that function's
        if k == 1 or not I.exclusive_helper(fid[-1][0], full[k - 2][0]):
            return None
    return None


def reclaim_precondition(I, ev, F):
    """Contract of the crate's unsafe dealloc/shrink/grow: `ptr` is a live block of this arena with
    layout `layout`.  If additionally ptr == finger (the gating fact), the block is the last one of
    the current chunk, hence  ptr + size(layout) <= footer.  Returned as an axiom only when the
    gating equality is among the facts of the store."""
    bp = unsafe_block_params(I, ev)
    if not bp:
        return set()
    p, L = bp
    P = prover.Prover(I, ev.state.facts)
    fin = ('load', ('fld', ('deref', F), 'ChunkFooter.ptr'), None)
    gated = False
    for f in P.facts:
        if f[0] == 'eq' and len(f) == 3:
            for a, b in ((f[1], f[2]), (f[2], f[1])):
                if a == P.canon(p) and is_load_of(b, 'ptr'):
                    gated = True
    if not gated:
        return set()
    return {('le', app('add', p, app('size', L)), F)}


# ------------------------------------------------------------------ return values
def alternatives(I, t, facts, depth=0):
    """flatten phi / ite structure of a value into (term, facts) alternatives (facts of the
    predecessor edge are added for each phi alternative)"""
    if depth > 6:
        return [(t, facts)]
    if t[0] == 'phi':
        pf = I.phi_facts.get(t[1][:2], {})
        out = []
        for p, x in t[2]:
            out.extend(alternatives(I, x, facts | set(pf.get(p, ())), depth + 1))
        return out
    if t[0] == 'ite':
        return (alternatives(I, t[2], facts | I.truth(None, t[1], True), depth + 1) +
                alternatives(I, t[3], facts | I.truth(None, t[1], False), depth + 1))
    return [(t, facts)]


def success_payloads(I, res):
    """(payload term, facts) for every way the entry returns Ok(..)/Some(..); failures are skipped;
    a plain (non Result/Option) return value is returned as is"""
    out = []
    if res.ret is None or res.ret_state is None:
        return out
    for t, facts in alternatives(I, res.ret, set(res.ret_state.facts)):
        if t[0] == 'agg' and t[1] in ('Option', 'Result'):
            if t[2] in ('Some', 'Ok'):
                pv = field_of(t, '0')
                for t2, f2 in alternatives(I, pv, facts):
                    out.append((t2, f2))
            continue
        if t == ('never',):
            continue
        out.append((t, facts))
    return out


def pointer_of(t):
    """the data pointer of a NonNull<[u8]> / slice value, or t itself"""
    if t[0] == 'agg' and t[1] in ('slice', 'rawptr'):
        return t[3][0][1]
    return t


def run_fn(ctx, body_id, config='rel-all'):
    I = ArenaInterp(ctx.db(config))
    r = I.run_entry(body_id)
    return I, r


def exclusive_owner(db, body, _depth=0):
    """the one function all call sites of the private function `body` sit in (directly or through other private functions
    exclusive to it): `body` is code extracted from that function.  None if it has several independent callers, is public,
    implements a trait, or is not called at all."""
    m = body.get('meta') or {}
    if body['kind'] not in ('fn', 'assoc_fn') or m.get('pub') or m.get('impl_trait') or _depth > 4:
        return None
    callers = {cb['id'] for cb, bi, t in db.callers_of(m.get('path') or body['id'])} | {cb['id'] for cb, bi, t in db.callers_of(body['id'])}
    callers.discard(body['id'])
    owners = set()
    for c in callers:
        cb = db.bodies.get(c)
        if cb is None:
            return None
        if cb['kind'] == 'closure':
            pf = (cb.get('meta') or {}).get('parent_fn')
            cb2 = db.by_path.get(pf) if pf else None
            if cb2 is None:
                return None
            cb = cb2
        up = exclusive_owner(db, cb, _depth + 1)
        owners.add(up if up is not None else cb['id'])
    return owners.pop() if len(owners) == 1 else None


def counted_iterator(I, r, t):
    """If t is the counter of a counting loop -- initial value 0, + 1 on every back edge, one `Iterator::next` call per
    iteration on a loop-carried iterator that nothing else touches, back edges only under Some(..), loop exits only under
    None -- return the iterator value the loop consumes (what `Iterator::count` would be called on); else None."""
    for (bid, h), rec in r.loops.items():
        ls = [l for l, s in rec['sym'].items() if s == t]
        if len(ls) != 1 or rec['init'].get(ls[0]) != C(0) or not rec['step']:
            continue
        l = ls[0]
        body = I.db.bodies.get(bid) if hasattr(I.db, 'bodies') else None
        if body is None:
            body = next((b for b in I.db.fn_bodies() if b['id'] == bid), None)
        if body is None:
            continue
        g = I.cfg(body)
        blocks = g.loops().get(h)
        if not blocks:
            continue
        nxt = [e for e in r.events if e.kind == 'call' and e.fn == bid and e.block in blocks and (e.callee or '').endswith('Iterator>::next')]
        if len(nxt) != 1:
            continue
        nx = nxt[0]
        a = nx.args[0] if nx.args else None
        if not (a and a[0] == 'addr' and a[1][0] == 'local' and a[1][2] in rec['sym']):
            continue
        j = a[1][2]
        # nothing but that call advances the iterator: no other call in the loop takes its address, no statement assigns it
        others = [e for e in r.events if e.kind in ('call', 'usercall') and e.fn == bid and e.block in blocks and e is not nx
                  and any(isinstance(x, tuple) and x[:1] == ('local',) and x[2] == j for y in (e.args or []) for x in subterms(y))]
        if others:
            continue
        if any(s['env'].get(j) != rec['sym'][j] for s in rec['step']):
            continue
        if not all(s['env'].get(l) == app('add', t, C(1)) and ('is', nx.ret, 'Some') in s['facts'] for s in rec['step']):
            continue
        okx = True
        for e in r.events:
            if e.kind == 'branch' and e.fn == bid and e.block in blocks and e.extra.get('target') not in blocks:
                tb = body['blocks'][e.extra['target']]['term']['k']
                if tb == 'unreachable':
                    continue
                if ('is', nx.ret, 'None') not in e.extra['added']:
                    okx = False
        # every exit of the loop is one of those branch edges (no call/return inside leaves it)
        for bi in blocks:
            tk = body['blocks'][bi]['term']['k']
            if tk == 'return':
                okx = False
        if not okx:
            continue
        it = rec['init'].get(j)
        if it is not None and it[0] == 'call' and it[1].endswith('IntoIterator>::into_iter'):
            it = it[2][0]
        return it
    return None


def alternatives_deep(I, t, facts, limit=24, depth=0):
    """like alternatives(), and also splits on phi / ite nodes nested inside the value (a shared tail after a two-way
    choice of an operand: `let n = if c { a } else { b }; p - n`)"""
    out = []
    for x, f in alternatives(I, t, facts):
        inner = []

        def operands(y):
            # arithmetic operand positions only: a choice inside an address / load / call argument names a location, not an operand
            if isinstance(y, tuple) and y and y[0] == 'app':
                for z in y[2:]:
                    if isinstance(z, tuple) and z and z[0] in ('phi', 'ite'):
                        inner.append(z)
                    else:
                        operands(z)
        operands(x)
        if not inner or depth > 4:
            out.append((x, f))
            continue
        s = inner[0]
        for v, fv in alternatives(I, s, f):
            y = subst(x, {s: v})
            out.extend(alternatives_deep(I, y, fv, limit, depth + 1))
        if len(out) > limit:
            return alternatives(I, t, facts)
    return out


def foreach_loop(I, r, body, nx, must, early_exit_ok=False):
    """The call event `nx` (an Iterator::next in `body`) drives a loop that (a) is left only when it returned None and (b) runs
    the event `must` on every iteration that got an item (must's block dominates every back edge): `for x in it { must }`."""
    g = I.cfg(body)
    loops = g.loops()
    hs = [h for h, blks in loops.items() if nx.block in blks and nx.fn == body['id']]
    if not hs:
        return False
    blocks = loops[hs[0]]
    for e in r.events:
        if e.kind == 'branch' and e.fn == body['id'] and e.block in blocks and e.extra.get('target') not in blocks:
            if body['blocks'][e.extra['target']]['term']['k'] == 'unreachable':
                continue
            if ('is', nx.ret, 'None') not in e.extra['added'] and not early_exit_ok:
                return False
    if any(body['blocks'][bi]['term']['k'] == 'return' for bi in blocks) and not early_exit_ok:
        return False
    if must.fn != body['id'] or must.block not in blocks:
        return False
    for u, h in g.back_edges():
        if h == hs[0] and u in blocks and not g.block_dominates(must.block, u):
            return False
    return True


def bypass_edges(I, r, events, a, b):
    """branch events (taken from `events`) whose edge leaves every path to event `a` but can still reach event `b`, judged in
    the CFG of the frame both events live in (the entry function, or the helper both were extracted into); when they live in
    different frames the entry function's CFG and its own branch events are used"""
    if a.fn == b.fn and a.stack == b.stack:
        fn, blk = a.fn, (lambda e: e.block)
        cand = [e for e in events if e.kind == 'branch' and e.fn == fn and e.stack == a.stack]
    else:
        fn = a.stack[0][0]
        blk = lambda e: e.top_block()
        cand = [e for e in events if e.kind == 'branch' and len(e.stack) == 1]
    body = I.bodies.get(fn)
    if body is None:
        return []
    g = I.cfg(body)
    out = []
    for e in cand:
        tgt = e.extra['target']
        reach = g.reach([tgt])
        if blk(a) in reach or blk(b) not in reach or not g.can_reach(blk(e), blk(a)):
            continue
        out.append(e)
    return out


def joint_alternatives(I, terms, facts, depth=0, limit=64):
    """flatten several values that were merged at the same program points *together*: a phi at the top of any of them is split
    by predecessor, every other top-level phi of the same merge point takes the alternative of the same predecessor, and the
    facts of that edge are added.  Yields (tuple of terms, facts)."""
    if depth > 8:
        return [(tuple(terms), facts)]
    key = None
    preds = None
    for t in terms:
        if isinstance(t, tuple) and t and t[0] == 'phi':
            key = t[1][:2]
            preds = [p for p, _ in t[2]]
            break
    if key is None:
        return [(tuple(terms), facts)]
    pf = I.phi_facts.get(key, {})
    out = []
    for p in preds:
        nt = []
        for t in terms:
            if isinstance(t, tuple) and t and t[0] == 'phi' and t[1][:2] == key:
                d = dict(t[2])
                nt.append(d.get(p, t) if p in d else t)
            else:
                nt.append(t)
        if nt == list(terms):
            out.append((tuple(terms), facts))
            continue
        out.extend(joint_alternatives(I, nt, facts | set(pf.get(p, ())), depth + 1, limit))
        if len(out) > limit:
            return [(tuple(terms), facts)]
    return out


def halving_loops(res, owner_suffix='alloc_layout_slow'):
    """The candidate search written as a plain loop (no iterator): loops of the slow path that carry a variable which
    every back edge replaces by exactly half of itself.  Returns [(key, rec, var)]."""
    out = []
    for key, rec in res.loops.items():
        fid = key[0]
        if not (fid.endswith(owner_suffix) or ('::' + owner_suffix + '::{closure') in fid):
            continue
        for l, sym in rec['sym'].items():
            steps = [st['env'].get(l) for st in rec['step']]
            if steps and all(v == ('app', 'div2', sym) for v in steps):
                out.append((key, rec, l))
    return out


def phi_leaves(t, limit=64):
    """the non-phi values a (nested) merge can take"""
    out, todo = [], [t]
    while todo and len(out) < limit:
        x = todo.pop()
        if isinstance(x, tuple) and x and x[0] == 'phi':
            todo.extend(v for _, v in x[2])
        else:
            out.append(x)
    return out


def is_reserved_pointer(I, W, resv):
    """W is, on every alternative, the success payload of one of the reservation calls `resv` (which all ask for the same
    layout): `fast(l).or_else(|| slow(l))`, `if let Some(p) = fast(l) { p } else { slow(l)? }`, or a single call."""
    if not resv:
        return False
    lays = {e.args[1] for e in resv if len(e.args) > 1}
    if len(lays) > 1:
        return False
    good = set()
    for e in resv:
        if e.ret is None:
            continue
        vs = I.variants_in(e.ret) if e.ret[0] in ('phi', 'agg') else set()
        for v in ('Ok', 'Some'):
            if v in vs:
                good.update(phi_leaves(I.project_variant(None, e.ret, v, '0')))
        if not vs & {'Ok', 'Some', 'Err', 'None'}:
            good.update(phi_leaves(e.ret))
    lv = phi_leaves(W)
    return bool(lv) and all(x in good for x in lv)
