"""Fact extraction: run bumpscan (rustc_private driver) over /repo's current working tree.

One cargo +nightly check per configuration, fresh CARGO_TARGET_DIR (so cargo's
freshness cache can never skip the wrapper), result cached under /verif/.cache keyed
by the SHA-256 of the sources + driver + flags.  The key is a function of the
working tree only, so an edited tree is always re-extracted.
"""
import hashlib, json, os, shutil, subprocess, sys, tempfile, time

VERIF = os.path.dirname(os.path.dirname(os.path.abspath(__file__)))
REPO = os.environ.get("BUMPALO_REPO", "/repo")
DRIVER = os.path.join(VERIF, "driver", "target", "debug", "bumpscan")
CACHE = os.path.join(VERIF, ".cache")

REL = "-Zmir-opt-level=0 -Awarnings -Adangerous_implicit_autorefs -Cdebug-assertions=off -Coverflow-checks=off"
DBG = "-Zmir-opt-level=0 -Awarnings -Adangerous_implicit_autorefs -Cdebug-assertions=on -Coverflow-checks=on"
CONFIGS = {
    "rel-all": ("collections,boxed,std,serde,allocator-api2", REL),
    "rel-default": ("", REL),
    "rel-coll": ("collections,boxed", REL),
    "dbg-all": ("collections,boxed,std,serde,allocator-api2", DBG),
}


def _sysroot():
    return subprocess.check_output(["rustc", "+nightly", "--print", "sysroot"], text=True).strip()


def tree_hash(repo=None):
    repo = repo or REPO
    h = hashlib.sha256()
    files = []
    for root, dirs, fs in os.walk(os.path.join(repo, "src")):
        dirs.sort()
        for f in sorted(fs):
            files.append(os.path.join(root, f))
    for f in ("Cargo.toml", "Cargo.lock"):
        p = os.path.join(repo, f)
        if os.path.exists(p):
            files.append(p)
    for p in files:
        h.update(os.path.relpath(p, repo).encode())
        h.update(b"\0")
        with open(p, "rb") as fh:
            h.update(fh.read())
        h.update(b"\0")
    return h.hexdigest()


def _driver_hash():
    with open(DRIVER, "rb") as fh:
        return hashlib.sha256(fh.read()).hexdigest()


def extract(config="rel-all", repo=None, use_cache=True):
    """Return (facts_dict, info) for the configuration on the current tree."""
    repo = repo or REPO
    feats, flags = CONFIGS[config]
    if not os.path.exists(DRIVER):
        raise SystemExit("bumpscan driver missing: run ./setup.sh")
    key = hashlib.sha256((tree_hash(repo) + _driver_hash() + feats + flags).encode()).hexdigest()[:24]
    os.makedirs(CACHE, exist_ok=True)
    cpath = os.path.join(CACHE, "%s-%s.json" % (config, key))
    info = {"config": config, "features": feats, "flags": flags, "key": key, "cached": False}
    if use_cache and os.path.exists(cpath):
        try:
            with open(cpath) as fh:
                facts = json.load(fh)
            try:
                os.utime(cpath, None)       # an entry in use is not stale
            except OSError:
                pass
            info["cached"] = True
            return facts, info
        except (OSError, ValueError):
            pass                            # pruned or half-written by a concurrent check: extract again
    t0 = time.time()
    tmp = tempfile.mkdtemp(prefix="bumpscan.")
    try:
        out = os.path.join(tmp, "facts.json")
        env = dict(os.environ)
        env.update({
            "LD_LIBRARY_PATH": _sysroot() + "/lib",
            "RUSTFLAGS": flags,
            "RUSTC_WORKSPACE_WRAPPER": DRIVER,
            "CARGO_TARGET_DIR": os.path.join(tmp, "t"),
            "CARGO_NET_OFFLINE": "true",
            "BUMPSCAN_OUT": out,
        })
        cmd = ["cargo", "+nightly", "check", "--offline", "--lib", "-q"]
        if feats:
            cmd += ["--features", feats]
        r = subprocess.run(cmd, cwd=repo, env=env, capture_output=True, text=True)
        if r.returncode != 0 or not os.path.exists(out):
            sys.stderr.write(r.stderr[-4000:])
            raise SystemExit("fact extraction failed for %s (does /repo compile?)" % config)
        with open(out) as fh:
            facts = json.load(fh)
        # prune old cache entries for this config, keep the cache small
        for f in os.listdir(CACHE):
            fp = os.path.join(CACHE, f)
            try:
                # several checks may prune concurrently: a file can vanish between listdir and stat
                if f.startswith(config + "-") and fp != cpath and time.time() - os.path.getmtime(fp) > 1800:
                    os.remove(fp)
            except OSError:
                pass
        tmpc = cpath + ".%d.tmp" % os.getpid()
        shutil.copy(out, tmpc)
        os.replace(tmpc, cpath)
        info["extract_s"] = round(time.time() - t0, 2)
        return facts, info
    finally:
        shutil.rmtree(tmp, ignore_errors=True)


if __name__ == "__main__":
    cfg = sys.argv[1] if len(sys.argv) > 1 else "rel-all"
    facts, info = extract(cfg, use_cache="--no-cache" not in sys.argv)
    print(info, len(facts["bodies"]), "bodies", len(facts["adts"]), "adts", len(facts["impls"]), "impls",
          len(facts["statics"]), "statics", len(facts["consts"]), "consts", len(facts["fns"]), "fns")
